//! Exact (big-integer / rational) reference arithmetic. Boring on purpose (DESIGN §2.5).
#![allow(dead_code)]
use num_bigint::{BigInt, BigUint};
use num_integer::Integer;
use num_traits::{One, ToPrimitive, Zero};

pub fn bu(x: u128) -> BigUint {
    BigUint::from(x)
}
pub fn bi(x: i128) -> BigInt {
    BigInt::from(x)
}
pub fn pow2(n: u32) -> BigUint {
    BigUint::one() << n
}
pub fn floor_div(n: &BigUint, d: &BigUint) -> BigUint {
    n / d
}
pub fn ceil_div(n: &BigUint, d: &BigUint) -> BigUint {
    let (q, r) = n.div_rem(d);
    if r.is_zero() {
        q
    } else {
        q + 1u32
    }
}
pub fn to_u64(x: &BigUint) -> Option<u64> {
    x.to_u64()
}
pub fn to_u128(x: &BigUint) -> Option<u128> {
    x.to_u128()
}

/// A non-negative rational n/d.
#[derive(Clone, Debug)]
pub struct Q {
    pub n: BigUint,
    pub d: BigUint,
}
impl Q {
    pub fn new(n: BigUint, d: BigUint) -> Q {
        assert!(!d.is_zero());
        Q { n, d }
    }
    pub fn int(x: u128) -> Q {
        Q { n: bu(x), d: BigUint::one() }
    }
    pub fn zero() -> Q {
        Q::int(0)
    }
    pub fn floor(&self) -> BigUint {
        &self.n / &self.d
    }
    pub fn ceil(&self) -> BigUint {
        ceil_div(&self.n, &self.d)
    }
    pub fn is_int(&self) -> bool {
        (&self.n % &self.d).is_zero()
    }
    pub fn add(&self, o: &Q) -> Q {
        Q { n: &self.n * &o.d + &o.n * &self.d, d: &self.d * &o.d }.norm()
    }
    pub fn mul_int(&self, k: &BigUint) -> Q {
        Q { n: &self.n * k, d: self.d.clone() }
    }
    pub fn le(&self, o: &Q) -> bool {
        &self.n * &o.d <= &o.n * &self.d
    }
    pub fn lt(&self, o: &Q) -> bool {
        &self.n * &o.d < &o.n * &self.d
    }
    pub fn norm(self) -> Q {
        let g = self.n.gcd(&self.d);
        if g.is_one() || g.is_zero() {
            self
        } else {
            Q { n: self.n / &g, d: self.d / g }
        }
    }
    pub fn to_f64(&self) -> f64 {
        self.n.to_f64().unwrap_or(f64::INFINITY) / self.d.to_f64().unwrap_or(1.0)
    }
}

/// Exact token-A amount for moving between two sqrt prices (Q64.64) with liquidity L:
/// L * 2^64 * |p1 - p0| / (p0 * p1)
pub fn exact_delta_a(p0: u128, p1: u128, liq: u128) -> Q {
    let (lo, hi) = if p0 <= p1 { (p0, p1) } else { (p1, p0) };
    if lo == 0 {
        return Q::zero();
    }
    Q::new((bu(liq) * bu(hi - lo)) << 64, bu(lo) * bu(hi))
}
/// Exact token-B amount: L * |p1 - p0| / 2^64
pub fn exact_delta_b(p0: u128, p1: u128, liq: u128) -> Q {
    let (lo, hi) = if p0 <= p1 { (p0, p1) } else { (p1, p0) };
    Q::new(bu(liq) * bu(hi - lo), pow2(64))
}

pub const MIN_SQRT_PRICE: u128 = 4295048016;
pub const MAX_SQRT_PRICE: u128 = 79226673515401279992447579055;
pub const MIN_TICK: i32 = -443636;
pub const MAX_TICK: i32 = 443636;

/// Token amounts (exact rationals) held by liquidity `liq` on [lower, upper) at price `p` (all sqrt Q64.64):
/// below range -> only A, above -> only B.
pub fn position_amounts_exact(p: u128, p_lower: u128, p_upper: u128, liq: u128) -> (Q, Q) {
    if p < p_lower {
        (exact_delta_a(p_lower, p_upper, liq), Q::zero())
    } else if p < p_upper {
        (exact_delta_a(p, p_upper, liq), exact_delta_b(p_lower, p, liq))
    } else {
        (Q::zero(), exact_delta_b(p_lower, p_upper, liq))
    }
}

pub fn fmt_u128(x: u128) -> String {
    x.to_string()
}
