//! Deterministic, depth-bounded, explicit-state explorer over the real program (DESIGN §2.4).
//!
//! * depth-bounded DFS, visited map `fingerprint -> max remaining depth` (re-expanded when reached with more depth left)
//! * first level of the op tree is split across worker threads (rayon); the *set* of states within depth d does not
//!   depend on the schedule, so `states` is deterministic; `transitions` counts executed `step` calls
//! * iterative deepening: depth 1, 2, ... until `max_depth` or the wall budget; the largest *completed* depth is reported
#![allow(dead_code)]
use rayon::prelude::*;
use std::collections::HashMap;
use std::sync::atomic::{AtomicBool, AtomicU64, Ordering};
use std::sync::Mutex;
use std::time::Instant;

pub trait Model: Sync {
    type S: Clone + Send + Sync;
    type O: Clone + Send + Sync + std::fmt::Debug;
    /// canonical fingerprint of a state (what is *not* hashed must not influence any future)
    fn fp(&self, s: &Self::S) -> u128;
    /// operations enabled in `s`, simplest first
    fn ops(&self, s: &Self::S) -> Vec<Self::O>;
    /// execute one op on the real program. Return the successor (None = prune: nothing changed / not interesting)
    /// and report per-transition oracle failures through `Err`.
    fn step(&self, s: &Self::S, op: &Self::O) -> Result<Option<Self::S>, String>;
    /// state invariant, evaluated once per distinct state
    fn check_state(&self, s: &Self::S) -> Result<(), String>;
}

#[derive(Clone, Debug)]
pub struct Found<O> {
    pub root: usize,
    pub path: Vec<O>,
    pub detail: String,
}

#[derive(Default, Debug, Clone)]
pub struct Stats {
    pub states: u64,
    pub transitions: u64,
    pub depth_completed: usize,
    pub depth_partial: Option<usize>,
    pub sequences: u64, // complete root-to-leaf op sequences executed at the completed depth (leaves of the DFS)
    pub cap_hit: Option<String>,
    pub per_depth: Vec<(usize, u64, u64, f64)>, // depth, states, transitions, seconds
}

const SHARDS: usize = 256;
struct Visited {
    shards: Vec<Mutex<HashMap<u128, u8>>>,
}
impl Visited {
    fn new() -> Self {
        Visited { shards: (0..SHARDS).map(|_| Mutex::new(HashMap::new())).collect() }
    }
    /// returns (is_new_state, should_expand)
    fn visit(&self, fp: u128, remaining: u8) -> (bool, bool) {
        let mut m = self.shards[(fp as usize) % SHARDS].lock().unwrap();
        match m.get_mut(&fp) {
            None => {
                m.insert(fp, remaining);
                (true, true)
            }
            Some(r) if *r < remaining => {
                *r = remaining;
                (false, true)
            }
            Some(_) => (false, false),
        }
    }
    fn len(&self) -> u64 {
        self.shards.iter().map(|s| s.lock().unwrap().len() as u64).sum()
    }
}

struct Shared<'a, M: Model> {
    m: &'a M,
    visited: Visited,
    transitions: AtomicU64,
    leaves: AtomicU64,
    stop: AtomicBool,
    deadline: Instant,
    timed_out: AtomicBool,
    found: Mutex<Vec<Found<M::O>>>,
    max_states: u64,
    state_count: AtomicU64,
}

fn dfs<M: Model>(sh: &Shared<M>, root: usize, s: &M::S, remaining: u8, path: &mut Vec<M::O>) {
    if sh.stop.load(Ordering::Relaxed) {
        return;
    }
    if remaining == 0 {
        sh.leaves.fetch_add(1, Ordering::Relaxed);
        return;
    }
    if Instant::now() > sh.deadline {
        sh.timed_out.store(true, Ordering::Relaxed);
        sh.stop.store(true, Ordering::Relaxed);
        return;
    }
    for op in sh.m.ops(s) {
        if sh.stop.load(Ordering::Relaxed) {
            return;
        }
        sh.transitions.fetch_add(1, Ordering::Relaxed);
        path.push(op.clone());
        match sh.m.step(s, &op) {
            Err(detail) => {
                sh.found.lock().unwrap().push(Found { root, path: path.clone(), detail });
                sh.stop.store(true, Ordering::Relaxed);
            }
            Ok(None) => {
                sh.leaves.fetch_add(1, Ordering::Relaxed);
            }
            Ok(Some(n)) => {
                let fp = sh.m.fp(&n);
                let (is_new, expand) = sh.visited.visit(fp, remaining - 1);
                if is_new {
                    let c = sh.state_count.fetch_add(1, Ordering::Relaxed) + 1;
                    if c > sh.max_states {
                        sh.timed_out.store(true, Ordering::Relaxed);
                        sh.stop.store(true, Ordering::Relaxed);
                    }
                    if let Err(detail) = sh.m.check_state(&n) {
                        sh.found.lock().unwrap().push(Found { root, path: path.clone(), detail });
                        sh.stop.store(true, Ordering::Relaxed);
                    }
                }
                if expand {
                    dfs(sh, root, &n, remaining - 1, path);
                } else {
                    sh.leaves.fetch_add(1, Ordering::Relaxed);
                }
            }
        }
        path.pop();
    }
}

pub struct Limits {
    pub max_depth: usize,
    pub budget_s: f64,
    pub max_states: u64,
}

/// Explore from every root up to `max_depth` (iterative deepening). Returns stats and the first violation (shortest path).
pub fn explore<M: Model>(m: &M, roots: &[M::S], lim: &Limits) -> (Stats, Option<Found<M::O>>) {
    let t0 = Instant::now();
    let mut stats = Stats::default();
    // root invariants
    for (i, r) in roots.iter().enumerate() {
        if let Err(detail) = m.check_state(r) {
            return (stats, Some(Found { root: i, path: vec![], detail }));
        }
    }
    let mut last_elapsed = 0.0f64;
    for depth in 1..=lim.max_depth {
        let td = Instant::now();
        let left = lim.budget_s - t0.elapsed().as_secs_f64();
        // do not start a depth that cannot plausibly finish: assume growth >= 4x of the previous depth's time
        if depth > 1 && last_elapsed * 4.0 > left {
            stats.cap_hit = Some(format!("wall budget: depth {depth} not started ({left:.0}s left, previous depth took {last_elapsed:.1}s)"));
            break;
        }
        let sh = Shared {
            m,
            visited: Visited::new(),
            transitions: AtomicU64::new(0),
            leaves: AtomicU64::new(0),
            stop: AtomicBool::new(false),
            deadline: Instant::now() + std::time::Duration::from_secs_f64(left.max(1.0)),
            timed_out: AtomicBool::new(false),
            found: Mutex::new(vec![]),
            max_states: lim.max_states,
            state_count: AtomicU64::new(0),
        };
        for r in roots {
            sh.visited.visit(m.fp(r), depth as u8);
        }
        sh.state_count.store(roots.len() as u64, Ordering::Relaxed);
        // split: (root, first op, second op) tasks
        let mut tasks: Vec<(usize, M::S, Vec<M::O>, u8)> = vec![];
        for (ri, r) in roots.iter().enumerate() {
            tasks.push((ri, r.clone(), vec![], depth as u8));
        }
        // expand two levels sequentially to create parallel tasks (keeps determinism of the visited-set semantics)
        for _lvl in 0..2 {
            if tasks.len() >= 64 {
                break;
            }
            let next: Vec<(usize, M::S, Vec<M::O>, u8)> = tasks
                .par_iter()
                .flat_map_iter(|(ri, s, path, rem)| {
                    let mut next = vec![];
                    if *rem == 0 {
                        sh.leaves.fetch_add(1, Ordering::Relaxed);
                        return next;
                    }
                    for op in m.ops(s) {
                        sh.transitions.fetch_add(1, Ordering::Relaxed);
                        let mut p2 = path.clone();
                        p2.push(op.clone());
                        match m.step(s, &op) {
                            Err(detail) => {
                                sh.found.lock().unwrap().push(Found { root: *ri, path: p2, detail });
                            }
                            Ok(None) => {
                                sh.leaves.fetch_add(1, Ordering::Relaxed);
                            }
                            Ok(Some(n)) => {
                                let (is_new, expand) = sh.visited.visit(m.fp(&n), rem - 1);
                                if is_new {
                                    sh.state_count.fetch_add(1, Ordering::Relaxed);
                                    if let Err(detail) = m.check_state(&n) {
                                        sh.found.lock().unwrap().push(Found { root: *ri, path: p2.clone(), detail });
                                    }
                                }
                                if expand {
                                    next.push((*ri, n, p2, rem - 1));
                                } else {
                                    sh.leaves.fetch_add(1, Ordering::Relaxed);
                                }
                            }
                        }
                    }
                    next
                })
                .collect();
            tasks = next;
            if !sh.found.lock().unwrap().is_empty() {
                break;
            }
        }
        if sh.found.lock().unwrap().is_empty() {
            tasks.par_iter().for_each(|(ri, s, path, rem)| {
                let mut p = path.clone();
                dfs(&sh, *ri, s, *rem, &mut p);
            });
        }
        let secs = td.elapsed().as_secs_f64();
        last_elapsed = secs;
        let states = sh.visited.len();
        let trans = sh.transitions.load(Ordering::Relaxed);
        stats.per_depth.push((depth, states, trans, secs));
        let mut found = sh.found.into_inner().unwrap();
        if !found.is_empty() {
            // deterministic choice: shortest path, then lexicographic debug string
            found.sort_by(|a, b| (a.path.len(), format!("{:?}", a.path)).cmp(&(b.path.len(), format!("{:?}", b.path))));
            stats.states = states;
            stats.transitions = trans;
            stats.depth_partial = Some(depth);
            return (stats, Some(found.remove(0)));
        }
        if sh.timed_out.load(Ordering::Relaxed) {
            stats.depth_partial = Some(depth);
            stats.cap_hit = Some(format!("cap hit inside depth {depth} after {states} states / {trans} transitions (wall or state cap)"));
            // keep numbers of the last completed depth as the headline, but remember the partial work
            break;
        }
        stats.states = states;
        stats.transitions = trans;
        stats.sequences = sh.leaves.load(Ordering::Relaxed);
        stats.depth_completed = depth;
    }
    (stats, None)
}
