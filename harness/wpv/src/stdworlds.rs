//! Concrete worlds, roots and alphabets for the single-pool explorations (DESIGN §2.6 W-std, W-splash).
#![allow(dead_code)]
use crate::ops::{self, Lim, Op, Part};
use crate::world::{self, Enc, StdSpec, StdWorld, T22Ext};
use svm::Ledger;

pub const P0: u128 = 1u128 << 64; // sqrt price at tick 0

/// ts = 64; arrays -1/0/1 around the price plus the two extreme arrays for the full-range position.
/// Positions chosen to collide: P0 [-128,128); P1 [128,5696) shares bound 128 with P0, is adjacent to it and straddles the
/// array edge 5632; P2 full range (nested around both).
pub fn std_spec(label: &str, enc: [Enc; 3], fee_rate: u16, protocol_fee_rate: u16) -> StdSpec {
    StdSpec {
        label: label.into(),
        tick_spacing: 64,
        fee_rate,
        protocol_fee_rate,
        sqrt_price: P0,
        arrays: vec![(-79, Enc::Fixed), (-1, enc[0]), (0, enc[1]), (1, enc[2]), (78, Enc::Dynamic)],
        positions: vec![(-128, 128, false), (128, 5696, true), (-443584, 443584, false)],
        t22_a: None,
        t22_b: None,
    }
}

/// Chained ranges P0 [-128,128) | P1 [128,320) | P2 [320,5696): two shared bounds, both inside tick array 0 (so a dynamic
/// array 0 holds several initialized ticks that are initialised / de-initialised in every order), P2 straddles the array edge;
/// no full-range position, so the price can leave all liquidity (zero-liquidity gaps).
pub fn chain_spec(label: &str, enc: [Enc; 3], fee_rate: u16, protocol_fee_rate: u16) -> StdSpec {
    StdSpec {
        label: label.into(),
        tick_spacing: 64,
        fee_rate,
        protocol_fee_rate,
        sqrt_price: P0,
        arrays: vec![(-1, enc[0]), (0, enc[1]), (1, enc[2])],
        positions: vec![(-128, 128, true), (128, 320, false), (320, 5696, false)],
        t22_a: None,
        t22_b: None,
    }
}

/// The chain layout moved to another region of the price axis: `origin` must be a multiple of 5632 (one tick array at
/// spacing 64). Far from price 1 the two tokens' amounts differ by orders of magnitude (at origin = -112640 one unit of
/// liquidity is worth ~280x more token A than token B), which exercises other magnitudes of every amount computation.
pub fn chain_spec_at(label: &str, enc: [Enc; 3], fee_rate: u16, protocol_fee_rate: u16, origin: i32) -> StdSpec {
    assert_eq!(origin % 5632, 0);
    let k = origin / 5632;
    StdSpec {
        label: label.into(),
        tick_spacing: 64,
        fee_rate,
        protocol_fee_rate,
        sqrt_price: whirlpool::math::sqrt_price_from_tick_index(origin),
        arrays: vec![(k - 1, enc[0]), (k, enc[1]), (k + 1, enc[2])],
        positions: vec![(origin - 128, origin + 128, true), (origin + 128, origin + 320, false), (origin + 320, origin + 5696, false)],
        t22_a: None,
        t22_b: None,
    }
}

/// Bounds exactly on a tick-array edge: P0 [-128,128) | P1 [128,5632) | P2 [5632,5760). Tick 5632 is slot 0 of array 1 and is a
/// bound of two positions; array 0's last slot stays empty, so b->a searches enter array 1 through the shifted slot / hand-over.
pub fn edge_spec(label: &str, enc: [Enc; 3]) -> StdSpec {
    StdSpec {
        label: label.into(),
        tick_spacing: 64,
        fee_rate: 3000,
        protocol_fee_rate: 300,
        sqrt_price: P0,
        arrays: vec![(-1, enc[0]), (0, enc[1]), (1, enc[2])],
        positions: vec![(-128, 128, false), (128, 5632, true), (5632, 5760, false)],
        t22_a: None,
        t22_b: None,
    }
}

pub fn edge_roots() -> Vec<(&'static str, Vec<Op>)> {
    let fund = vec![Op::Inc { pos: 0, liq: BIG, v2: false }, Op::Inc { pos: 1, liq: BIG / 8, v2: true }, Op::Inc { pos: 2, liq: BIG, v2: true }];
    let mut below_edge = fund.clone();
    below_edge.push(Op::Swap { a_to_b: false, exact_in: true, amount: u64::MAX >> 8, lim: Lim::NextTick, v2: true }); // onto 128
    below_edge.push(Op::Swap { a_to_b: false, exact_in: true, amount: u64::MAX >> 8, lim: Lim::ShortOfNextTick, v2: false }); // just below 5632
    let mut above_edge = below_edge.clone();
    above_edge.push(Op::Swap { a_to_b: false, exact_in: true, amount: u64::MAX >> 8, lim: Lim::PastNextTick, v2: true }); // just above 5632
    vec![("funded", fund), ("below-array-edge", below_edge), ("above-array-edge", above_edge)]
}

pub fn chain_roots() -> Vec<(&'static str, Vec<Op>)> {
    let fund = vec![
        Op::Inc { pos: 0, liq: BIG, v2: true },
        Op::Inc { pos: 2, liq: BIG / 2, v2: false },
        Op::Inc { pos: 1, liq: BIG / 4, v2: true },
    ];
    vec![("fresh", vec![]), ("funded", fund)]
}

/// Full-range-only pool (ts = 32768): one usable range.
pub fn splash_spec(label: &str) -> StdSpec {
    StdSpec {
        label: label.into(),
        tick_spacing: 32768,
        fee_rate: 10000,
        protocol_fee_rate: 1300,
        sqrt_price: P0,
        arrays: vec![(-1, Enc::Fixed), (0, Enc::Dynamic)],
        positions: vec![(-425984, 425984, false), (-425984, 425984, true)],
        t22_a: None,
        t22_b: None,
    }
}

/// ts = 1 pool with tight ranges.
pub fn ts1_spec(label: &str) -> StdSpec {
    StdSpec {
        label: label.into(),
        tick_spacing: 1,
        fee_rate: 100,
        protocol_fee_rate: 2500,
        sqrt_price: P0,
        arrays: vec![(-1, Enc::Dynamic), (0, Enc::Fixed), (1, Enc::Dynamic)],
        positions: vec![(-2, 2, false), (2, 90, false), (-88, 1, true)],
        t22_a: None,
        t22_b: None,
    }
}

pub fn t22_spec(label: &str, bps_a: u16, max_a: u64, bps_b: u16, max_b: u64) -> StdSpec {
    let mut s = std_spec(label, [Enc::Dynamic, Enc::Fixed, Enc::Dynamic], 3000, 300);
    s.t22_a = Some(vec![T22Ext::TransferFee { bps: bps_a, max: max_a }]);
    s.t22_b = Some(vec![T22Ext::TransferFee { bps: bps_b, max: max_b }]);
    s
}

pub fn apply_all(l: &Ledger, w: &StdWorld, seq: &[Op]) -> Ledger {
    let mut cur = l.clone();
    for op in seq {
        let s = ops::apply(&cur, w, op);
        if !s.outcome.ok() {
            // truncate the root here: the state reached so far is still explored and judged (see report::BUILD_FAILURES)
            crate::report::BUILD_FAILURES.lock().unwrap().push(format!("root builder: op {op:?} failed: {}", s.outcome.short()));
            return cur;
        }
        cur = s.ledger;
    }
    cur
}

pub const BIG: u128 = 1_000_000_000;

/// Root prefixes (applied to the freshly built world): fresh; funded; funded + fees on both sides; shifted state
/// (price exactly on tick -128 after a downward crossing); price beyond all narrow ranges.
pub fn std_roots() -> Vec<(&'static str, Vec<Op>)> {
    let fund = vec![
        Op::Inc { pos: 0, liq: BIG, v2: false },
        Op::Inc { pos: 1, liq: BIG, v2: true },
        Op::Inc { pos: 2, liq: 50_000_000, v2: false },
    ];
    let mut feeladen = fund.clone();
    feeladen.push(Op::Swap { a_to_b: true, exact_in: true, amount: 3_000_000, lim: Lim::None, v2: false });
    feeladen.push(Op::Swap { a_to_b: false, exact_in: true, amount: 9_000_000, lim: Lim::None, v2: true });
    let mut shifted = fund.clone();
    shifted.push(Op::Swap { a_to_b: true, exact_in: true, amount: u64::MAX >> 8, lim: Lim::NextTick, v2: false });
    let mut above = fund.clone();
    above.push(Op::Swap { a_to_b: false, exact_in: false, amount: 8_000_000, lim: Lim::None, v2: true });
    // a one-unit position next to large ones in the same range: the fees it accrues floor to zero while the growth is not zero
    let dust_beside_big = vec![
        Op::Inc { pos: 0, liq: 1, v2: true },
        Op::Inc { pos: 1, liq: BIG, v2: true },
        Op::Inc { pos: 2, liq: 50_000_000, v2: false },
    ];
    vec![("fresh", vec![]), ("funded", fund), ("fee-laden", feeladen), ("shifted", shifted), ("above", above), ("dust-beside-big", dust_beside_big)]
}

/// The W-std alphabet, simplest first. v1 and v2 instruction variants alternate.
pub fn std_alphabet(npos: u8, with_admin: bool) -> Vec<Op> {
    let mut a = vec![];
    for pos in 0..npos {
        a.push(Op::Inc { pos, liq: BIG, v2: pos % 2 == 1 });
    }
    for pos in 0..npos {
        a.push(Op::Dec { pos, part: Part::All, v2: pos % 2 == 0 });
    }
    for (i, a_to_b) in [true, false].into_iter().enumerate() {
        a.push(Op::Swap { a_to_b, exact_in: true, amount: 1_000_000, lim: Lim::None, v2: i == 1 });
        a.push(Op::Swap { a_to_b, exact_in: true, amount: u64::MAX >> 8, lim: Lim::NextTick, v2: i == 0 });
        a.push(Op::Swap { a_to_b, exact_in: false, amount: 100_000, lim: Lim::None, v2: i == 0 });
        a.push(Op::Swap { a_to_b, exact_in: true, amount: 20_000_000, lim: Lim::None, v2: i == 1 });
        // exact-out that stops at an explicit limit before the requested output is produced (partial fill), both versions
        a.push(Op::Swap { a_to_b, exact_in: false, amount: 30_000_000, lim: Lim::Mid, v2: i == 0 });
    }
    for pos in 0..npos {
        a.push(Op::Update { pos });
    }
    for pos in 0..npos {
        a.push(Op::CollectFees { pos, v2: pos % 2 == 0 });
    }
    a.push(Op::CollectProtocol { v2: false });
    // reposition_liquidity_v2: move position 0 to an overlapping range and back (new bounds 64 / 192 share array 0 with 128)
    a.push(Op::Repos { pos: 0, lower: -64, upper: 192, liq: BIG / 2 });
    a.push(Op::Repos { pos: 0, lower: -128, upper: 128, liq: BIG });
    // ranges the program must refuse (inverted, empty): on the pinned tree these are failed transitions that change nothing; a tree
    // that accepts one produces a position whose claims every later state is judged with (real withdrawal on a copy)
    a.push(Op::Repos { pos: 0, lower: 128, upper: -128, liq: BIG });
    a.push(Op::Repos { pos: 1, lower: 128, upper: 128, liq: BIG / 2 });
    // further must-refuse requests: a withdrawal amount of 2^128 - x (reads as +x when converted carelessly), and deposits that
    // name a neighbouring tick array for one bound
    a.push(Op::Dec { pos: 0, part: Part::Wrap(1_000_000_007), v2: false });
    a.push(Op::Dec { pos: 1, part: Part::Wrap(3), v2: true });
    a.push(Op::Dec { pos: 2, part: Part::Over(1), v2: false }); // one unit more than the position holds
    a.push(Op::Inc { pos: 0, liq: 0, v2: true }); // zero liquidity
    a.push(Op::Inc { pos: 1, liq: (1u128 << 127) + 5, v2: false }); // does not fit a signed delta
    a.push(Op::IncTa { pos: 1, liq: BIG / 4, lower_shift: 1, upper_shift: 0, v2: false });
    a.push(Op::IncTa { pos: 2, liq: BIG / 4, lower_shift: 0, upper_shift: -1, v2: true });
    for pos in 0..npos {
        a.push(Op::Inc { pos, liq: 1, v2: pos % 2 == 0 });
        a.push(Op::Dec { pos, part: Part::Half, v2: pos % 2 == 1 });
    }
    if with_admin {
        a.push(Op::SetFeeRate(0));
        a.push(Op::SetFeeRate(60_000));
        a.push(Op::SetProtocolFeeRate(0));
        a.push(Op::SetProtocolFeeRate(2_500));
    }
    a
}

/// Dust: liquidity of a few units, swaps of a few token units — every amount is dominated by rounding, a one-unit swap moves
/// the price across whole ranges, positions are emptied and refilled unit by unit.
pub fn dust_roots() -> Vec<(&'static str, Vec<Op>)> {
    vec![
        ("dust-fresh", vec![]),
        ("dust-funded", vec![Op::Inc { pos: 0, liq: 7, v2: true }, Op::Inc { pos: 1, liq: 3, v2: false }, Op::Inc { pos: 2, liq: 11, v2: false }]),
        ("dust-mixed", vec![Op::Inc { pos: 0, liq: 1_000, v2: true }, Op::Inc { pos: 1, liq: 1, v2: false }, Op::Inc { pos: 2, liq: 100_000, v2: false }]),
    ]
}

pub fn dust_alphabet(npos: u8) -> Vec<Op> {
    let mut a = vec![];
    for pos in 0..npos {
        a.push(Op::Inc { pos, liq: 1, v2: pos % 2 == 0 });
        a.push(Op::Inc { pos, liq: 5, v2: pos % 2 == 1 });
        a.push(Op::Dec { pos, part: Part::One, v2: pos % 2 == 0 });
        a.push(Op::Dec { pos, part: Part::All, v2: pos % 2 == 1 });
    }
    for a_to_b in [true, false] {
        for (exact_in, amount, lim) in [(true, 1u64, Lim::None), (true, 2, Lim::None), (true, 3, Lim::None), (true, 7, Lim::NextTick), (false, 1, Lim::None), (false, 2, Lim::Bound), (true, u64::MAX >> 8, Lim::NextTick)] {
            a.push(Op::Swap { a_to_b, exact_in, amount, lim, v2: exact_in == a_to_b });
        }
    }
    for pos in 0..npos {
        a.push(Op::Update { pos });
        a.push(Op::CollectFees { pos, v2: pos % 2 == 1 });
    }
    a.push(Op::CollectProtocol { v2: true });
    a
}

/// Swap-only alphabet for the no-extraction clause and the swap-centric checks.
pub fn swap_alphabet() -> Vec<Op> {
    let mut a = vec![];
    for a_to_b in [true, false] {
        for (exact_in, amount, lim) in [
            (true, 1u64, Lim::None),
            (true, 1_000, Lim::None),
            (true, 1_000_000, Lim::None),
            (false, 1, Lim::None),
            (false, 100_000, Lim::None),
            (true, u64::MAX >> 8, Lim::NextTick),
            (true, u64::MAX >> 8, Lim::PastNextTick),
            (true, 20_000_000, Lim::None),
            (false, 30_000_000, Lim::Mid),
            (false, 30_000_000, Lim::NextTick),
        ] {
            a.push(Op::Swap { a_to_b, exact_in, amount, lim, v2: exact_in });
        }
    }
    a
}

/// Alphabets name reposition targets relative to tick 0; worlds laid out around another origin shift them.
pub fn shift_repos(ops: Vec<Op>, origin: i32) -> Vec<Op> {
    ops.into_iter()
        .map(|o| match o {
            Op::Repos { pos, lower, upper, liq } => Op::Repos { pos, lower: lower + origin, upper: upper + origin, liq },
            x => x,
        })
        .collect()
}
/// origin of a chain / std world = middle of position 0's range (0 for the worlds around price 1)
pub fn origin_of(w: &crate::world::StdWorld) -> i32 {
    if w.pool.tick_spacing != 64 || w.positions.is_empty() {
        return 0;
    }
    (w.positions[0].lower + w.positions[0].upper) / 2
}

pub struct Built {
    pub name: String,
    pub w: StdWorld,
    pub roots: Vec<(String, Ledger)>,
}

/// "Hot" variant: before the roots are applied the pool gets three initialised rewards (not emitting) and its five free-running
/// accumulators (fee growth A/B, reward growth 0..2) are preset to values whose EVERY byte is non-zero, two of them a few
/// thousand units below 2^128. Every tick initialised at or below the current price copies them into its growth-outside
/// fields, so all 113 bytes of an initialised tick carry information: byte-shuffling, truncation or stale-byte faults of the
/// tick codecs cannot hide behind zero padding, and the accumulators wrap during ordinary histories.
pub fn build_hot_with_roots(spec: &StdSpec, roots: &[(&'static str, Vec<Op>)]) -> Built {
    use crate::decode::pool_off as po;
    let (mut l, w) = world::build_std(spec);
    let auth = w.cfg.reward_emissions_super_authority;
    for i in 0..3u8 {
        let mint = svm::keys::key(&format!("{}/hot-rmint{i}", spec.label));
        world::create_spl_mint(&mut l, mint, 6, None);
        world::must("init_reward (hot world)", svm::process(&mut l, &world::ix_init_reward(&w.pool, auth, w.funder, mint, world::TOKEN, i, i != 1)));
    }
    let vals: [u128; 5] = [
        0xA1A2_A3A4_A5A6_A7A8_A9AA_ABAC_ADAE_AFB1,
        u128::MAX - 4_321,
        0xC1C2_C3C4_C5C6_C7C8_C9CA_CBCC_CDCE_CFD1,
        0x0102_0304_0506_0708_090A_0B0C_0D0E_0F11 | (0xF7u128 << 120),
        u128::MAX - 77_777,
    ];
    l.patch(&w.pool.addr, |d| {
        d[po::FEE_GROWTH_A..po::FEE_GROWTH_A + 16].copy_from_slice(&vals[0].to_le_bytes());
        d[po::FEE_GROWTH_B..po::FEE_GROWTH_B + 16].copy_from_slice(&vals[1].to_le_bytes());
        for i in 0..3 {
            let o = po::REWARDS + i * po::REWARD_LEN + 112;
            d[o..o + 16].copy_from_slice(&vals[2 + i].to_le_bytes());
        }
    });
    let rs = roots.iter().map(|(n, seq)| (n.to_string(), apply_all(&l, &w, seq))).collect();
    Built { name: spec.label.clone(), w, roots: rs }
}

pub fn build_with_roots(spec: &StdSpec, roots: &[(&'static str, Vec<Op>)]) -> Built {
    let (l, w) = world::build_std(spec);
    let rs = roots.iter().map(|(n, seq)| (n.to_string(), apply_all(&l, &w, seq))).collect();
    Built { name: spec.label.clone(), w, roots: rs }
}
