//! Glue between the generic explorer and the single-pool worlds: a Model whose transitions run the real program,
//! with pluggable state / transition oracles, outcome statistics, and replay of recorded op sequences.
#![allow(dead_code)]
use crate::explore::{self, Limits, Model, Stats};
use crate::ops::{self, Op, Stepped};
use crate::report::{Ctx, Report};
use crate::stdworlds::Built;
use crate::world::StdWorld;
use serde_json::{json, Value};
use std::collections::BTreeMap;
use std::sync::Mutex;
use svm::Ledger;

pub type StateOracle<'a> = Box<dyn Fn(&Ledger, &StdWorld) -> Result<(), String> + Sync + 'a>;
pub type TransOracle<'a> = Box<dyn Fn(&Ledger, &Stepped, &StdWorld, &Op) -> Result<(), String> + Sync + 'a>;

pub struct PoolModel<'a> {
    pub w: &'a StdWorld,
    pub alphabet: Vec<Op>,
    pub state_oracle: StateOracle<'a>,
    pub trans_oracle: TransOracle<'a>,
    /// "<op kind>:<result>" -> count
    pub outcomes: Mutex<BTreeMap<String, u64>>,
    /// ledger mode: hash the whole ledger (histories with different balances are different states)
    pub whole_ledger_fp: bool,
}

pub fn op_kind(op: &Op) -> &'static str {
    match op {
        Op::Inc { .. } => "inc",
        Op::Dec { .. } => "dec",
        Op::Swap { .. } => "swap",
        Op::Update { .. } => "update",
        Op::Repos { .. } => "reposition",
        Op::IncTa { .. } => "inc_wrong_array",
        Op::InitTa { .. } => "init_tick_array_again",
        Op::InitTaUnaligned { .. } => "init_tick_array_unaligned",
        Op::IncVia { .. } => "inc_via_named_arrays",
        Op::CollectFees { .. } => "collect_fees",
        Op::CollectProtocol { .. } => "collect_protocol",
        Op::Clock(_) => "clock",
        Op::Epoch(_) => "epoch",
        Op::SetTransferFee { .. } => "set_transfer_fee",
        Op::SetFeeRate(_) => "set_fee_rate",
        Op::SetProtocolFeeRate(_) => "set_protocol_fee_rate",
        Op::CollectReward { .. } => "collect_reward",
        Op::SetEmissions { .. } => "set_emissions",
    }
}

impl<'a> PoolModel<'a> {
    pub fn new(w: &'a StdWorld, alphabet: Vec<Op>, state_oracle: StateOracle<'a>, trans_oracle: TransOracle<'a>) -> Self {
        PoolModel { w, alphabet, state_oracle, trans_oracle, outcomes: Mutex::new(BTreeMap::new()), whole_ledger_fp: false }
    }
    fn count(&self, op: &Op, res: &str) {
        let mut m = self.outcomes.lock().unwrap();
        *m.entry(format!("{}:{}", op_kind(op), res)).or_insert(0) += 1;
    }
}

impl<'a> Model for PoolModel<'a> {
    type S = Ledger;
    type O = Op;
    fn fp(&self, s: &Ledger) -> u128 {
        if self.whole_ledger_fp {
            s.fingerprint()
        } else {
            s.fingerprint_of(&ops::core_keys(s, self.w), false)
        }
    }
    fn ops(&self, _s: &Ledger) -> Vec<Op> {
        self.alphabet.clone()
    }
    fn step(&self, s: &Ledger, op: &Op) -> Result<Option<Ledger>, String> {
        let st = ops::apply(s, self.w, op);
        if st.ix.is_none() && !matches!(op, Op::Clock(_) | Op::Epoch(_)) {
            self.count(op, "n/a");
            return Ok(None);
        }
        match &st.outcome.result {
            None => {
                self.count(op, "ok");
                (self.trans_oracle)(s, &st, self.w, op)?;
                Ok(Some(st.ledger))
            }
            Some(e) => {
                // panics and runtime post-condition failures are failed transactions on chain (no state change)
                self.count(op, &e.short());
                Ok(None)
            }
        }
    }
    fn check_state(&self, s: &Ledger) -> Result<(), String> {
        (self.state_oracle)(s, self.w)
    }
}

pub struct RunOut {
    pub stats: Stats,
    pub outcomes: BTreeMap<String, u64>,
}

/// Explore one built world from all its roots; record a violation (with a replayable case) into the report.
pub fn run_world(ctx: &Ctx, r: &mut Report, b: &Built, m: &PoolModel, max_depth: usize, budget_s: f64) -> RunOut {
    let roots: Vec<Ledger> = b.roots.iter().map(|x| x.1.clone()).collect();
    let lim = Limits { max_depth, budget_s: budget_s.min(ctx.left().max(1.0)), max_states: 40_000_000 };
    let (stats, found) = explore::explore(m, &roots, &lim);
    if let Some(f) = found {
        let case = json!({"kind":"ops","world": b.name, "root": b.roots[f.root].0, "ops": serde_json::to_value(&f.path).unwrap()});
        r.violation(format!("{}/{}/{}", b.name, b.roots[f.root].0, serde_json::to_string(&f.path).unwrap()), f.detail.clone(), case);
    }
    let outcomes = m.outcomes.lock().unwrap().clone();
    RunOut { stats, outcomes }
}

/// Fold the statistics of one world's exploration into the report's coverage map.
pub fn fold(r: &mut Report, world: &str, out: &RunOut, sample_ops: &[Op]) {
    r.add("states", out.stats.states);
    r.add("transitions", out.stats.transitions);
    r.add("traces_validated_against_impl", out.stats.sequences);
    let per: Vec<Value> = out.stats.per_depth.iter().map(|(d, s, t, secs)| json!({"depth": d, "states": s, "transitions": t, "s": (secs * 10.0).round() / 10.0})).collect();
    let e = r.coverage.entry("worlds".to_string()).or_insert_with(|| json!([]));
    e.as_array_mut().unwrap().push(json!({
        "world": world,
        "depth_completed": out.stats.depth_completed,
        "depth_partial": out.stats.depth_partial,
        "cap_hit": out.stats.cap_hit,
        "per_depth": per,
        "outcomes": out.outcomes,
    }));
    let cur = r.coverage.get("depth_completed").and_then(|v| v.as_u64());
    let d = out.stats.depth_completed as u64;
    r.set("depth_completed", match cur { Some(c) => c.min(d), None => d });
    if out.stats.cap_hit.is_some() {
        r.set("caps_hit", true);
    }
    if !sample_ops.is_empty() {
        r.sample(json!({"world": world, "op_sequence": serde_json::to_value(sample_ops).unwrap()}));
    }
    let distinct = out.outcomes.len() as u64;
    r.add("distinct_outcomes", distinct);
}

/// Re-execute a recorded op sequence, evaluating the oracles on every prefix.
pub fn replay_ops(b: &Built, m: &PoolModel, root: &str, ops_json: &Value) -> Result<(), String> {
    let path: Vec<Op> = serde_json::from_value(ops_json.clone()).map_err(|e| e.to_string())?;
    let l0 = b.roots.iter().find(|r| r.0 == root).ok_or("unknown root")?.1.clone();
    let mut cur = l0;
    m.check_state(&cur)?;
    for op in &path {
        match m.step(&cur, op)? {
            None => return Ok(()), // op failed / pruned: the sequence ends here without a violation
            Some(n) => {
                m.check_state(&n)?;
                cur = n;
            }
        }
    }
    Ok(())
}
