//! Handler-level oracles for the liquidity instructions (shared by C08, C12, C16): Pinocchio-vs-Anchor instruction
//! differential, and exact token-amount / token_max / token_min checks from real balances.
#![allow(dead_code)]
use crate::ops::{self, Stepped};
use crate::refmodel::*;
use crate::world::{self, balance, PosRef, StdWorld};
use solana_program::instruction::Instruction;
use solana_program::pubkey::Pubkey;
use svm::{Ledger, Route};
use whirlpool::math::sqrt_price_from_tick_index;

#[derive(Clone, Debug, PartialEq, Eq)]
pub struct LiqEvent {
    pub increased: bool,
    pub whirlpool: [u8; 32],
    pub position: [u8; 32],
    pub lower: i32,
    pub upper: i32,
    pub liquidity: u128,
    pub a: u64,
    pub b: u64,
    pub fee_a: u64,
    pub fee_b: u64,
}

pub fn decode_liq_event(ev: &[u8]) -> Option<LiqEvent> {
    use anchor_lang::Discriminator;
    if ev.len() != 8 + 32 + 32 + 4 + 4 + 16 + 8 * 4 {
        return None;
    }
    let increased = if &ev[..8] == whirlpool::events::LiquidityIncreased::DISCRIMINATOR {
        true
    } else if &ev[..8] == whirlpool::events::LiquidityDecreased::DISCRIMINATOR {
        false
    } else {
        return None;
    };
    let u64at = |o: usize| u64::from_le_bytes(ev[o..o + 8].try_into().unwrap());
    Some(LiqEvent {
        increased,
        whirlpool: ev[8..40].try_into().unwrap(),
        position: ev[40..72].try_into().unwrap(),
        lower: i32::from_le_bytes(ev[72..76].try_into().unwrap()),
        upper: i32::from_le_bytes(ev[76..80].try_into().unwrap()),
        liquidity: u128::from_le_bytes(ev[80..96].try_into().unwrap()),
        a: u64at(96),
        b: u64at(104),
        fee_a: u64at(112),
        fee_b: u64at(120),
    })
}

#[derive(Default, Debug, Clone)]
pub struct DiffStats {
    pub both_ok: u64,
    pub both_failed: u64,
    pub same_code: u64,
    pub dynamic_resizes: u64,
}

/// Run the same instruction through the Pinocchio handler (what entrypoint.rs routes to) and through the Anchor handler
/// from the same pre-state; require identical outcome, post-ledger bytes (every account, incl. lengths and lamports) and events.
pub fn pino_vs_anchor(pre: &Ledger, ix: &Instruction, stats: &mut DiffStats) -> Result<(), String> {
    let p = ops::apply_ix(pre, ix, Route::Auto);
    if !p.outcome.pinocchio_path {
        return Err("harness: instruction did not take the Pinocchio path".into());
    }
    let a = ops::apply_ix(pre, ix, Route::ForceAnchor);
    match (&p.outcome.result, &a.outcome.result) {
        (None, None) => {
            stats.both_ok += 1;
            if p.ledger != a.ledger {
                // name the first differing account
                for (k, acc) in p.ledger.accts.iter() {
                    match a.ledger.accts.get(k) {
                        None => return Err(format!("account {k} exists after the Pinocchio handler but not after the Anchor handler")),
                        Some(b) => {
                            if **acc != **b {
                                let first = acc.data.iter().zip(b.data.iter()).position(|(x, y)| x != y);
                                return Err(format!(
                                    "account {k} differs between Pinocchio and Anchor handlers: len {} vs {}, lamports {} vs {}, first differing byte {:?}",
                                    acc.data.len(), b.data.len(), acc.lamports, b.lamports, first
                                ));
                            }
                        }
                    }
                }
                return Err("post-ledgers differ between Pinocchio and Anchor handlers (account set)".into());
            }
            if p.outcome.events != a.outcome.events {
                return Err(format!("events differ: Pinocchio {:?} vs Anchor {:?}", p.outcome.events.iter().map(|e| decode_liq_event(e)).collect::<Vec<_>>(), a.outcome.events.iter().map(|e| decode_liq_event(e)).collect::<Vec<_>>()));
            }
            for (k, acc) in p.ledger.accts.iter() {
                if let Some(old) = pre.accts.get(k) {
                    if old.data.len() != acc.data.len() {
                        stats.dynamic_resizes += 1;
                    }
                }
            }
            Ok(())
        }
        (Some(x), Some(y)) => {
            stats.both_failed += 1;
            // "the same error" = the same program error code whenever both sides produce one (>= 6000)
            if let (Some(cx), Some(cy)) = (x.custom(), y.custom()) {
                if cx >= 6000 && cy >= 6000 {
                    if cx != cy {
                        return Err(format!("Pinocchio handler fails with {cx} but the Anchor handler with {cy}"));
                    }
                    stats.same_code += 1;
                }
            }
            Ok(())
        }
        (x, y) => Err(format!(
            "Pinocchio handler: {} but Anchor handler: {}",
            x.as_ref().map(|e| e.short()).unwrap_or("ok".into()),
            y.as_ref().map(|e| e.short()).unwrap_or("ok".into())
        )),
    }
}

#[derive(Default, Debug, Clone)]
pub struct AmtStats {
    pub increases: u64,
    pub decreases: u64,
    pub below: u64,
    pub inside: u64,
    pub above: u64,
    pub bound_reruns: u64,
    pub bound_failures: u64,
    pub nonzero_remainder: u64,
}

/// Exact amounts for `liq` on the position's range at the pre-state price, using the program's own case split input.
fn exact_amounts(pre: &Ledger, pos: &PosRef, liq: u128) -> (Q, Q, u8) {
    let pool = pos.pool.state(pre);
    let (pl, pu) = (sqrt_price_from_tick_index(pos.lower), sqrt_price_from_tick_index(pos.upper));
    let region = if pool.tick_current_index < pos.lower {
        0
    } else if pool.tick_current_index < pos.upper {
        1
    } else {
        2
    };
    let (a, b) = match region {
        0 => (exact_delta_a(pl, pu, liq), Q::zero()),
        1 => (exact_delta_a(pool.sqrt_price, pu, liq), exact_delta_b(pl, pool.sqrt_price, liq)),
        _ => (Q::zero(), exact_delta_b(pl, pu, liq)),
    };
    (a, b, region)
}

/// One successful increase (`increase = true`) or decrease of `liq` on `pos` (plain SPL mints): balances move by exactly the
/// rounded exact amounts; the event reports them; re-execution with token_max / token_min one below / equal / one above flips
/// success exactly at the realised amount. `ix_of(bound_a, bound_b)` rebuilds the instruction with other bounds.
pub fn amounts_oracle(
    pre: &Ledger,
    st: &Stepped,
    w: &StdWorld,
    pos: &PosRef,
    liq: u128,
    increase: bool,
    ix_of: &dyn Fn(u64, u64) -> Instruction,
    stats: &mut AmtStats,
) -> Result<(), String> {
    let post = &st.ledger;
    let (qa, qb, region) = exact_amounts(pre, pos, liq);
    match region {
        0 => stats.below += 1,
        1 => stats.inside += 1,
        _ => stats.above += 1,
    }
    if !qa.is_int() || !qb.is_int() {
        stats.nonzero_remainder += 1;
    }
    let (ea, eb) = if increase { (qa.ceil(), qb.ceil()) } else { (qa.floor(), qb.floor()) };
    let sgn = |x: u64, y: u64| if increase { x as i128 - y as i128 } else { y as i128 - x as i128 };
    // wallet -> vault on increase, vault -> wallet on decrease
    let wa = sgn(balance(pre, &w.lp.acct_a), balance(post, &w.lp.acct_a));
    let wb = sgn(balance(pre, &w.lp.acct_b), balance(post, &w.lp.acct_b));
    let va = sgn(balance(post, &w.pool.vault_a), balance(pre, &w.pool.vault_a));
    let vb = sgn(balance(post, &w.pool.vault_b), balance(pre, &w.pool.vault_b));
    let what = if increase { "increase" } else { "decrease" };
    if wa < 0 || wb < 0 {
        return Err(format!("{what}: wallet moved in the wrong direction ({wa}, {wb})"));
    }
    if bu(wa as u128) != ea || bu(wb as u128) != eb {
        return Err(format!(
            "{what} of {liq} on [{}..{}) moved {wa} A / {wb} B but the exact amounts are {:.4} / {:.4} ({} expected {ea} / {eb})",
            pos.lower, pos.upper, qa.to_f64(), qb.to_f64(), if increase { "rounded up:" } else { "rounded down:" }
        ));
    }
    if va != wa || vb != wb {
        return Err(format!("{what}: vault deltas {va}/{vb} differ from wallet deltas {wa}/{wb}"));
    }
    if region == 0 && wb != 0 || region == 2 && wa != 0 {
        return Err(format!("{what}: both tokens moved although the price is outside the range (region {region}): {wa}/{wb}"));
    }
    if increase {
        stats.increases += 1;
    } else {
        stats.decreases += 1;
    }
    // the emitted record
    let evs: Vec<LiqEvent> = st.outcome.events.iter().filter_map(|e| decode_liq_event(e)).collect();
    if evs.len() != 1 {
        return Err(format!("{what}: {} liquidity events emitted", evs.len()));
    }
    let e = &evs[0];
    if e.increased != increase || e.whirlpool != w.pool.addr.to_bytes() || e.position != pos.addr.to_bytes() || e.lower != pos.lower || e.upper != pos.upper || e.liquidity != liq || e.a as i128 != wa || e.b as i128 != wb || e.fee_a != 0 || e.fee_b != 0 {
        return Err(format!("{what}: event {e:?} does not match what happened (liquidity {liq}, amounts {wa}/{wb})"));
    }
    // caller bounds: maxima on increase, minima on decrease
    let (ra, rb) = (wa as u64, wb as u64);
    for (ba, bb) in [
        (ra.checked_sub(1), Some(rb)),
        (Some(ra), rb.checked_sub(1)),
        (Some(ra), Some(rb)),
        (ra.checked_add(1), Some(rb)),
        (Some(ra), rb.checked_add(1)),
    ] {
        let (Some(ba), Some(bb)) = (ba, bb) else { continue };
        let mut c = pre.clone();
        let o = svm::process(&mut c, &ix_of(ba, bb));
        stats.bound_reruns += 1;
        let should = if increase { ba >= ra && bb >= rb } else { ba <= ra && bb <= rb };
        if o.ok() != should {
            return Err(format!(
                "{what} realising {ra}/{rb}: caller {} {ba}/{bb} gave {} (expected {})",
                if increase { "maxima" } else { "minima" },
                o.short(),
                if should { "success" } else { "failure" }
            ));
        }
        if !o.ok() {
            stats.bound_failures += 1;
        }
    }
    Ok(())
}

/// reposition_liquidity_v2 on plain SPL mints: the old range is withdrawn (rounded down), the new one deposited (rounded up),
/// and only the net moves between owner and vault; the caller's minima apply to the withdrawal, the maxima to the deposit.
pub fn reposition_oracle(pre: &Ledger, st: &Stepped, w: &StdWorld, pos_before: &PosRef, new_lower: i32, new_upper: i32, new_liq: u128, stats: &mut AmtStats) -> Result<(), String> {
    let post = &st.ledger;
    let old_liq = pos_before.state(pre).liquidity;
    let (oa, ob, _) = exact_amounts(pre, pos_before, old_liq);
    let mut newp = pos_before.clone();
    newp.lower = new_lower;
    newp.upper = new_upper;
    let (na, nb, region) = exact_amounts(pre, &newp, new_liq);
    match region {
        0 => stats.below += 1,
        1 => stats.inside += 1,
        _ => stats.above += 1,
    }
    let (oa, ob) = (oa.floor(), ob.floor());
    let (na, nb) = (na.ceil(), nb.ceil());
    let d = |x: &Pubkey| balance(pre, x) as i128 - balance(post, x) as i128; // positive = paid by the holder of x
    let (wa, wb) = (d(&w.lp.acct_a), d(&w.lp.acct_b));
    let (va, vb) = (-d(&w.pool.vault_a), -d(&w.pool.vault_b));
    let big = |x: &num_bigint::BigUint| x.to_string().parse::<i128>().unwrap_or(i128::MAX);
    let (ea, eb) = (big(&na) - big(&oa), big(&nb) - big(&ob));
    if wa != ea || wb != eb {
        return Err(format!(
            "reposition [{}..{}) L {old_liq} -> [{new_lower}..{new_upper}) L {new_liq}: owner net {wa}/{wb}, expected new deposit (rounded up) {na}/{nb} minus old withdrawal (rounded down) {oa}/{ob} = {ea}/{eb}",
            pos_before.lower, pos_before.upper
        ));
    }
    if va != wa || vb != wb {
        return Err(format!("reposition: vault net {va}/{vb} differs from owner net {wa}/{wb}"));
    }
    let after = pos_before.state(post);
    if after.tick_lower_index != new_lower || after.tick_upper_index != new_upper || after.liquidity != new_liq {
        return Err(format!("reposition: position is [{}..{}) L {} afterwards", after.tick_lower_index, after.tick_upper_index, after.liquidity));
    }
    stats.increases += 1;
    stats.decreases += 1;
    // caller bounds
    let (oa64, ob64, na64, nb64) = (big(&oa) as u64, big(&ob) as u64, big(&na) as u64, big(&nb) as u64);
    let variants: Vec<(u64, u64, u64, u64, bool)> = vec![
        (oa64, ob64, na64, nb64, true),
        (oa64.saturating_add(1), ob64, na64, nb64, oa64 == u64::MAX),
        (oa64, ob64.saturating_add(1), na64, nb64, ob64 == u64::MAX),
        (oa64, ob64, na64.wrapping_sub(1), nb64, na64 == 0),
        (oa64, ob64, na64, nb64.wrapping_sub(1), nb64 == 0),
    ];
    for (mina, minb, maxa, maxb, should) in variants {
        if (na64 == 0 && maxa == u64::MAX) || (nb64 == 0 && maxb == u64::MAX) {
            continue;
        }
        let mut c = pre.clone();
        let o = svm::process(&mut c, &world::ix_reposition_v2(pos_before, &w.lp, w.funder, new_lower, new_upper, new_liq, mina, minb, maxa, maxb));
        stats.bound_reruns += 1;
        if o.ok() != should {
            return Err(format!(
                "reposition withdrawing {oa64}/{ob64} and depositing {na64}/{nb64}: minima {mina}/{minb}, maxima {maxa}/{maxb} gave {} (expected {})",
                o.short(),
                if should { "success" } else { "failure" }
            ));
        }
        if !o.ok() {
            stats.bound_failures += 1;
        }
    }
    Ok(())
}

/// A set of failing / edge variants of liquidity instructions for the differential, built for every position of the world.
pub fn edge_variants(l: &Ledger, w: &StdWorld) -> Vec<Instruction> {
    let mut v = vec![];
    let v1 = w.pool.is_v1_capable();
    for p in &w.positions {
        if !p.exists(l) {
            continue;
        }
        let cur = p.state(l).liquidity;
        for v2 in [false, true] {
            if !v2 && !v1 {
                continue;
            }
            v.push(world::ix_increase(p, &w.lp, 0, u64::MAX, u64::MAX, v2)); // LiquidityZero
            v.push(world::ix_increase(p, &w.lp, 1_000_000, 0, 0, v2)); // TokenMaxExceeded
            v.push(world::ix_increase(p, &w.lp, u128::MAX, u64::MAX, u64::MAX, v2)); // overflow
            v.push(world::ix_increase(p, &w.lp, (i128::MAX as u128) + 1, u64::MAX, u64::MAX, v2));
            v.push(world::ix_decrease(p, &w.lp, 0, 0, 0, v2)); // LiquidityZero
            v.push(world::ix_decrease(p, &w.lp, cur.wrapping_add(1), 0, 0, v2)); // LiquidityUnderflow
            if cur > 0 {
                v.push(world::ix_decrease(p, &w.lp, cur, u64::MAX, u64::MAX, v2)); // TokenMinSubceeded
                v.push(world::ix_decrease(p, &w.lp, 1, 0, 0, v2));
            }
        }
        // caller bounds exactly at / one unit off the realised amounts, one token at a time (a bound test that joins the two
        // tokens with the wrong connective, or is off by one on one side only, decides these differently)
        let pr = p.at(l);
        let to64 = |q: num_bigint::BigUint| q.to_string().parse::<u64>().unwrap_or(u64::MAX);
        for v2 in [false, true] {
            if !v2 && !v1 {
                continue;
            }
            let liq = 1_000_003u128;
            let (qa, qb, _) = exact_amounts(l, &pr, liq);
            let (ia, ib) = (to64(qa.ceil()), to64(qb.ceil()));
            for (ma, mb) in [(ia, ib), (ia.wrapping_sub(1), u64::MAX), (u64::MAX, ib.wrapping_sub(1)), (ia, u64::MAX), (u64::MAX, ib), (ia.saturating_add(1), ib.saturating_add(1))] {
                v.push(world::ix_increase(p, &w.lp, liq, ma, mb, v2));
            }
            if cur > 1 {
                let d = cur / 2 + 1;
                let (qa, qb, _) = exact_amounts(l, &pr, d);
                let (da, db) = (to64(qa.floor()), to64(qb.floor()));
                for (ma, mb) in [(da, db), (da.saturating_add(1), 0), (0, db.saturating_add(1)), (da, 0), (0, db), (da.saturating_sub(1), db.saturating_sub(1))] {
                    v.push(world::ix_decrease(p, &w.lp, d, ma, mb, v2));
                }
            }
        }
        // remaining-accounts packagings of the v2 instructions (position 0 only): well-formed slice lists, lists that ask for more
        // accounts than are attached (each slice alone would fit), duplicated and foreign slice types, empty slices — both
        // implementations must label / refuse them identically
        if std::ptr::eq(p, &w.positions[0]) {
            use anchor_lang::InstructionData;
            use whirlpool::util::{AccountsType as T, RemainingAccountsInfo, RemainingAccountsSlice};
            let packs: Vec<(Vec<(T, u8)>, usize)> = vec![
                (vec![(T::TransferHookA, 1)], 1),
                (vec![(T::TransferHookA, 2), (T::TransferHookB, 1)], 3),
                (vec![(T::TransferHookA, 2), (T::TransferHookB, 2)], 3),
                (vec![(T::TransferHookA, 2), (T::TransferHookB, 2)], 2),
                (vec![(T::TransferHookA, 1), (T::TransferHookB, 3)], 3),
                (vec![(T::TransferHookA, 3)], 2),
                (vec![(T::TransferHookA, 0), (T::TransferHookB, 2)], 2),
                (vec![(T::TransferHookA, 1), (T::TransferHookA, 1)], 2),
                (vec![(T::SupplementalTickArrays, 1)], 1),
                (vec![(T::TransferHookB, 1), (T::TransferHookA, 1)], 2),
                (vec![], 2),
            ];
            for (slices, extra) in packs {
                let rai = Some(RemainingAccountsInfo { slices: slices.iter().map(|(t, n)| RemainingAccountsSlice { accounts_type: t.clone(), length: *n }).collect() });
                let mut inc = world::ix_increase(p, &w.lp, 1_000, u64::MAX, u64::MAX, true);
                inc.data = whirlpool::instruction::IncreaseLiquidityV2 { liquidity_amount: 1_000, token_max_a: u64::MAX, token_max_b: u64::MAX, remaining_accounts_info: rai.clone() }.data();
                let mut dec = world::ix_decrease(p, &w.lp, 1, 0, 0, true);
                dec.data = whirlpool::instruction::DecreaseLiquidityV2 { liquidity_amount: 1, token_min_a: 0, token_min_b: 0, remaining_accounts_info: rai }.data();
                for ix in [&mut inc, &mut dec] {
                    for i in 0..extra {
                        ix.accounts.push(solana_program::instruction::AccountMeta::new_readonly(svm::keys::key(&format!("c12/extra-account/{i}")), false));
                    }
                }
                v.push(inc);
                if cur > 0 {
                    v.push(dec);
                }
            }
        }
        // wrong tick arrays: the lower/upper arrays swapped (when they differ) must fail identically
        if p.ta_lower() != p.ta_upper() {
            let mut ix = world::ix_increase(p, &w.lp, 1000, u64::MAX, u64::MAX, !v1);
            let n = ix.accounts.len();
            ix.accounts.swap(n - 1, n - 2);
            v.push(ix);
        }
    }
    v
}
