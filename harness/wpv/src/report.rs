//! Evidence files, violation reporting, replay artefacts, known findings (DESIGN §2.7).
#![allow(dead_code)]
use serde_json::{json, Map, Value};
use std::path::PathBuf;
use std::time::Instant;

#[derive(Clone, Copy, Debug, PartialEq, Eq)]
pub enum Tier {
    Quick,
    Thorough,
}
impl Tier {
    pub fn name(&self) -> &'static str {
        match self {
            Tier::Quick => "quick",
            Tier::Thorough => "thorough",
        }
    }
    pub fn is_quick(&self) -> bool {
        *self == Tier::Quick
    }
}

/// World-building steps that failed although they must succeed on a healthy tree (root prefixes). The builder truncates the root at
/// the last good state — so the check's own oracles still get to judge the states that led there — and the run ends as a machinery
/// failure (exit 2) unless one of them reported a violation: a check that could not build its worlds has not decided anything.
pub static BUILD_FAILURES: std::sync::Mutex<Vec<String>> = std::sync::Mutex::new(Vec::new());

pub struct Ctx {
    pub tier: Tier,
    pub seed: i64,
    pub start: Instant,
    /// wall-clock budget in seconds for the search part of this run (an engine-internal cap; hitting it is reported)
    pub budget_s: f64,
}
impl Ctx {
    pub fn elapsed(&self) -> f64 {
        self.start.elapsed().as_secs_f64()
    }
    pub fn left(&self) -> f64 {
        self.budget_s - self.elapsed()
    }
    /// search depth for the tier; `WPV_QUICK_DEPTH_DELTA` (experiments only) deepens the quick tier
    pub fn depth(&self, quick: usize, thorough: usize) -> usize {
        if self.tier.is_quick() {
            quick + std::env::var("WPV_QUICK_DEPTH_DELTA").ok().and_then(|s| s.parse::<usize>().ok()).unwrap_or(0)
        } else {
            thorough
        }
    }
    pub fn pick<T>(&self, quick: T, thorough: T) -> T {
        if self.tier.is_quick() {
            quick
        } else {
            thorough
        }
    }
}

#[derive(Clone, Debug)]
pub struct Violation {
    /// stable identity of the failing case (input tuple / world + op sequence) used to match known findings
    pub key: String,
    pub detail: String,
    /// machine-readable case for `wpv replay`
    pub case: Value,
}

pub struct Report {
    pub property: &'static str,
    pub level: &'static str, // exploration | fault_enumeration | model_checking
    pub coverage: Map<String, Value>,
    pub assumptions: Vec<String>,
    pub violations: Vec<Violation>,
    /// vacuity guards: (name, count) — any zero is a machinery failure (exit 2)
    pub guards: Vec<(String, u64)>,
}

impl Report {
    pub fn new(property: &'static str, level: &'static str) -> Self {
        Report { property, level, coverage: Map::new(), assumptions: vec![], violations: vec![], guards: vec![] }
    }
    pub fn set(&mut self, k: &str, v: impl Into<Value>) {
        self.coverage.insert(k.to_string(), v.into());
    }
    pub fn add(&mut self, k: &str, n: u64) {
        let cur = self.coverage.get(k).and_then(|v| v.as_u64()).unwrap_or(0);
        self.coverage.insert(k.to_string(), json!(cur + n));
    }
    pub fn sample(&mut self, v: Value) {
        let e = self.coverage.entry("samples".to_string()).or_insert_with(|| json!([]));
        let a = e.as_array_mut().unwrap();
        if a.len() < 12 {
            a.push(v);
        }
    }
    pub fn guard(&mut self, name: &str, n: u64) {
        self.guards.push((name.to_string(), n));
    }
    pub fn assume(&mut self, s: &str) {
        self.assumptions.push(s.to_string());
    }
    pub fn violation(&mut self, key: String, detail: String, case: Value) {
        if self.violations.len() < 50 {
            self.violations.push(Violation { key, detail, case });
        }
    }
}

pub fn verif_root() -> PathBuf {
    if let Ok(p) = std::env::var("VERIF_ROOT") {
        return PathBuf::from(p);
    }
    // harness/target/release/wpv -> /verif
    let exe = std::env::current_exe().unwrap();
    let mut p = exe.clone();
    for _ in 0..4 {
        p.pop();
    }
    if p.join("properties.jsonl").exists() {
        p
    } else {
        PathBuf::from("/verif")
    }
}

#[derive(Default)]
pub struct Known {
    /// (property, key, description) of recorded-but-unrepaired findings
    pub findings: Vec<(String, String, String)>,
}
pub fn load_known() -> Known {
    let p = verif_root().join("known_findings.json");
    let mut k = Known::default();
    if let Ok(s) = std::fs::read_to_string(&p) {
        if let Ok(v) = serde_json::from_str::<Value>(&s) {
            if let Some(a) = v.get("findings").and_then(|x| x.as_array()) {
                for f in a {
                    let g = |n: &str| f.get(n).and_then(|x| x.as_str()).unwrap_or("").to_string();
                    k.findings.push((g("property"), g("key"), g("what")));
                }
            }
        }
    }
    k
}

fn fnv(s: &str) -> u64 {
    let mut h: u64 = 0xcbf29ce484222325;
    for b in s.bytes() {
        h = (h ^ b as u64).wrapping_mul(0x100000001b3);
    }
    h
}

/// Write the evidence file, print verdict lines, return the process exit code.
pub fn finish(ctx: &Ctx, mut r: Report, replay: Option<&dyn Fn(&Value) -> Result<(), String>>) -> i32 {
    let root = verif_root();
    let known = load_known();
    let mut exit = 0;
    let mut unknown = 0;
    let mut printed_known = std::collections::BTreeSet::new();
    for v in &r.violations {
        if let Some((_, _, what)) = known.findings.iter().find(|(p, k, _)| p == r.property && *k == v.key) {
            if printed_known.insert(v.key.clone()) {
                println!("KNOWN-FINDING: property={} {}", r.property, what);
            }
            continue;
        }
        // every violation must reproduce, twice, outside the explorer before it is believed
        if let Some(rp) = replay {
            let a = rp(&v.case);
            let b = rp(&v.case);
            match (&a, &b) {
                (Err(x), Err(y)) if x == y => {}
                _ => {
                    eprintln!("MACHINERY ERROR: violation did not replay deterministically: {} / first={:?} second={:?}", v.detail, a, b);
                    exit = 2;
                    continue;
                }
            }
        }
        unknown += 1;
        let dir = root.join("replays");
        let _ = std::fs::create_dir_all(&dir);
        let path = dir.join(format!("{}-{:016x}.json", r.property, fnv(&v.key)));
        let body = json!({"property": r.property, "key": v.key, "detail": v.detail, "case": v.case});
        let _ = std::fs::write(&path, serde_json::to_string_pretty(&body).unwrap());
        println!("VIOLATION property={} replay={}", r.property, path.display());
        eprintln!("  detail: {}", v.detail);
        if exit == 0 {
            exit = 1;
        }
    }
    if exit == 0 {
        let bf = BUILD_FAILURES.lock().unwrap();
        if !bf.is_empty() {
            eprintln!("MACHINERY ERROR: {} world-building step(s) failed and no oracle explains it; first: {}", bf.len(), bf[0]);
            exit = 2;
        }
    }
    // a run that used up its wall budget was cut short (slow or heavily loaded machine): later phases legitimately never ran, the
    // evidence says so (guards_zero_under_time_cap + the per-world cap fields) and the verdict covers what was explored
    let time_capped = ctx.elapsed() >= 0.85 * ctx.budget_s;
    let mut capped_zero: Vec<String> = vec![];
    for (g, n) in &r.guards {
        r.coverage.insert(format!("guard_{g}"), json!(n));
        if *n == 0 && exit == 0 {
            // (a run that stopped at a violation legitimately leaves later guards at zero)
            if time_capped {
                eprintln!("WARNING: vacuity guard '{g}' is zero, but the run was cut by its time budget ({:.0} s of {:.0} s) — not exercised in this run", ctx.elapsed(), ctx.budget_s);
                capped_zero.push(g.clone());
            } else {
                eprintln!("MACHINERY ERROR: vacuity guard '{g}' is zero — the check did not exercise what it claims");
                exit = 2;
            }
        }
    }
    r.coverage.insert("run_cut_by_time_budget".into(), json!(time_capped));
    if !capped_zero.is_empty() {
        r.coverage.insert("guards_zero_under_time_cap".into(), json!(capped_zero));
    }
    if !r.coverage.contains_key("samples") {
        r.coverage.insert("samples".into(), json!([]));
    }
    let ev = json!({
        "property_id": r.property,
        "tier": ctx.tier.name(),
        "seed": ctx.seed,
        "level": r.level,
        "coverage": Value::Object(r.coverage.clone()),
        "assumptions": r.assumptions,
        "wall_s": (ctx.elapsed() * 100.0).round() / 100.0,
        "violations": unknown,
    });
    let dir = root.join("evidence");
    let _ = std::fs::create_dir_all(&dir);
    std::fs::write(dir.join(format!("{}.json", r.property)), serde_json::to_string_pretty(&ev).unwrap()).expect("write evidence");
    let brief: Vec<String> = r
        .coverage
        .iter()
        .filter(|(k, _)| *k != "samples" && *k != "rule")
        .map(|(k, v)| format!("{k}={v}"))
        .collect();
    eprintln!("[{} {}] {} wall={:.1}s exit={}", r.property, ctx.tier.name(), brief.join(" "), ctx.elapsed(), exit);
    exit
}
