//! wpv — model-checking harness for orca-so/whirlpools (see /verif/DESIGN.md).
mod checks;
mod decode;
mod explore;
mod liqhandlers;
mod ops;
mod oracles;
mod poolexplore;
mod stdworlds;
mod refmodel;
mod report;
mod world;

use report::{Ctx, Tier};

fn usage() -> ! {
    eprintln!("usage: wpv check <C01..C20> [--tier quick|thorough]\n       wpv replay <path>\n       wpv selftest");
    std::process::exit(2)
}

fn main() {
    let args: Vec<String> = std::env::args().collect();
    if args.len() < 2 {
        usage();
    }
    svm::init();
    match args[1].as_str() {
        "check" => {
            if args.len() < 3 {
                usage();
            }
            let id = args[2].to_uppercase();
            let mut tier = match std::env::var("VERIF_TIER").ok().as_deref() {
                Some("thorough") => Tier::Thorough,
                _ => Tier::Quick,
            };
            let mut i = 3;
            while i < args.len() {
                if args[i] == "--tier" && i + 1 < args.len() {
                    tier = if args[i + 1] == "thorough" { Tier::Thorough } else { Tier::Quick };
                    i += 1;
                }
                i += 1;
            }
            let seed = std::env::var("VERIF_SEED").ok().and_then(|s| s.parse::<i64>().ok()).unwrap_or(0);
            let budget_s = std::env::var("WPV_BUDGET_S").ok().and_then(|s| s.parse::<f64>().ok()).unwrap_or(if tier.is_quick() { 150.0 } else { 1500.0 });
            // watchdog: code under test that stops terminating (e.g. a loop whose exit condition was broken) must not hang
            // the check forever; a hang is a machinery failure (exit 2), never a verdict
            let hard_cap = std::env::var("WPV_HARD_CAP_S").ok().and_then(|s| s.parse::<u64>().ok()).unwrap_or(if tier.is_quick() { 600 } else { 5400 });
            let id2 = id.clone();
            std::thread::spawn(move || {
                std::thread::sleep(std::time::Duration::from_secs(hard_cap));
                eprintln!("MACHINERY ERROR: check {id2} did not finish within {hard_cap} s (non-terminating code under test or a harness bug)");
                std::process::exit(2);
            });
            let ctx = Ctx { tier, seed, start: std::time::Instant::now(), budget_s };
            // a panic of the harness itself (a world builder whose happy path fails, a decoder meeting bytes it cannot read) is a
            // machinery failure, never a verdict
            let code = match std::panic::catch_unwind(std::panic::AssertUnwindSafe(|| checks::run(&id, &ctx))) {
                Ok(c) => c,
                Err(e) => {
                    let m = e.downcast_ref::<String>().cloned().or_else(|| e.downcast_ref::<&str>().map(|x| x.to_string())).unwrap_or_default();
                    eprintln!("MACHINERY ERROR: the harness panicked while running {id}: {}", m.chars().take(600).collect::<String>());
                    2
                }
            };
            std::process::exit(code);
        }
        "replay" => {
            if args.len() < 3 {
                usage();
            }
            let s = std::fs::read_to_string(&args[2]).expect("read replay file");
            let v: serde_json::Value = serde_json::from_str(&s).expect("parse replay file");
            let id = v["property"].as_str().expect("property").to_string();
            match checks::replay(&id, &v["case"]) {
                Ok(()) => {
                    println!("replay: property {id} holds on this case (no violation)");
                    std::process::exit(0)
                }
                Err(d) => {
                    println!("VIOLATION property={id} replay={}", args[2]);
                    eprintln!("  detail: {d}");
                    std::process::exit(1)
                }
            }
        }
        "selftest" => {
            std::process::exit(checks::selftest());
        }
        _ => usage(),
    }
}
