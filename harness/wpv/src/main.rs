mod decode;
mod world;

fn main() {
    let spec = world::StdSpec {
        label: "smoke".into(), tick_spacing: 64, fee_rate: 3000, protocol_fee_rate: 300, sqrt_price: 1u128 << 64,
        arrays: vec![(-1, world::Enc::Dynamic), (0, world::Enc::Fixed), (1, world::Enc::Fixed)],
        positions: vec![(-128, 128, false), (-64, 256, true)], t22_a: None, t22_b: None,
    };
    let (mut l, w) = world::build_std(&spec);
    let o = svm::process(&mut l, &world::ix_increase(&w.positions[0], &w.lp, 1_000_000_000, u64::MAX, u64::MAX, false));
    println!("inc: {}", o.short());
    let o = svm::process(&mut l, &world::ix_increase(&w.positions[1], &w.lp, 1_000_000_000, u64::MAX, u64::MAX, true));
    println!("inc v2: {} events {}", o.short(), o.events.len());
    println!("vaults {} {}", world::balance(&l, &w.pool.vault_a), world::balance(&l, &w.pool.vault_b));
    let st = w.pool.state(&l);
    let a = world::SwapArgs { amount: 1_000_000, other_amount_threshold: 0, sqrt_price_limit: 0, amount_specified_is_input: true, a_to_b: true };
    let o = svm::process(&mut l, &world::ix_swap(&w.pool, &w.trader, a, world::swap_tick_arrays(&w.pool, st.tick_current_index, true), false, &[]));
    println!("swap: {} events {} trace {:?}", o.short(), o.events.len(), whirlpool::verif_hooks::take_swap_trace().len());
    println!("pool {:?}", w.pool.state(&l));
}
