//! World builders and instruction builders (DESIGN §2.6). Every key is derived from a label.
#![allow(dead_code, clippy::too_many_arguments)]
use crate::decode;
use anchor_lang::{InstructionData, ToAccountMetas};
use solana_program::{
    instruction::{AccountMeta, Instruction},
    program_option::COption,
    program_pack::Pack,
    pubkey::Pubkey,
    system_program, sysvar,
};
use svm::{keys::key, Acct, Ledger, Outcome};
use whirlpool::accounts as wa;
use whirlpool::instruction as wi;
use whirlpool::util::RemainingAccountsInfo;

pub const WP: Pubkey = whirlpool::ID;
pub const TOKEN: Pubkey = spl_token::ID;
pub const T22: Pubkey = spl_token_2022::ID;
pub const ATA: Pubkey = spl_associated_token_account::ID;
pub const MEMO: Pubkey = spl_memo::ID;
pub const RICH: u64 = 1_000_000_000_000_000;

pub fn base_ledger() -> Ledger {
    let mut l = Ledger::default();
    for pid in [system_program::ID, TOKEN, T22, ATA, MEMO, WP, svm::METADATA_PROGRAM_ID] {
        l.put(pid, Acct { lamports: 1, data: vec![], owner: solana_program::bpf_loader::ID, executable: true });
    }
    l.put(
        sysvar::rent::ID,
        Acct {
            lamports: 1,
            data: {
                // bincode layout of Rent: u64, f64, u8
                let r = solana_program::rent::Rent::default();
                let mut d = Vec::new();
                d.extend_from_slice(&r.lamports_per_byte_year.to_le_bytes());
                d.extend_from_slice(&r.exemption_threshold.to_le_bytes());
                d.push(r.burn_percent);
                d
            },
            owner: sysvar::ID,
            executable: false,
        },
    );
    l.unix_ts = 1_700_000_000;
    l
}

pub fn admin() -> Pubkey {
    whirlpool::auth::admin::ADMINS[0]
}

pub fn must(name: &str, o: Outcome) {
    if !o.ok() {
        panic!("world builder: {name} failed: {:?}", o.result);
    }
}

pub fn ix(accounts: Vec<AccountMeta>, data: Vec<u8>) -> Instruction {
    Instruction { program_id: WP, accounts, data }
}

pub fn pda(seeds: &[&[u8]]) -> (Pubkey, u8) {
    Pubkey::find_program_address(seeds, &WP)
}

// ------------------------------------------------------------------------------------------------
// config / fee tiers
// ------------------------------------------------------------------------------------------------
#[derive(Clone, Debug)]
pub struct Config {
    pub addr: Pubkey,
    pub fee_authority: Pubkey,
    pub collect_protocol_fees_authority: Pubkey,
    pub reward_emissions_super_authority: Pubkey,
}

pub fn init_config(l: &mut Ledger, label: &str, default_protocol_fee_rate: u16) -> Config {
    let cfg = Config {
        addr: key(&format!("{label}/config")),
        fee_authority: key(&format!("{label}/fee_authority")),
        collect_protocol_fees_authority: key(&format!("{label}/collect_protocol_fees_authority")),
        reward_emissions_super_authority: key(&format!("{label}/reward_emissions_super_authority")),
    };
    if l.get(&admin()).is_none() {
        l.put_system(admin(), RICH);
    }
    for k in [cfg.fee_authority, cfg.collect_protocol_fees_authority, cfg.reward_emissions_super_authority] {
        l.put_system(k, RICH);
    }
    let i = ix(
        wa::InitializeConfig { config: cfg.addr, funder: admin(), system_program: system_program::ID }.to_account_metas(None),
        wi::InitializeConfig {
            fee_authority: cfg.fee_authority,
            collect_protocol_fees_authority: cfg.collect_protocol_fees_authority,
            reward_emissions_super_authority: cfg.reward_emissions_super_authority,
            default_protocol_fee_rate,
        }
        .data(),
    );
    must("initialize_config", svm::process(l, &i));
    cfg
}

pub fn fee_tier_addr(cfg: &Pubkey, index: u16) -> Pubkey {
    pda(&[b"fee_tier", cfg.as_ref(), &index.to_le_bytes()]).0
}

pub fn ix_init_fee_tier(cfg: &Config, funder: Pubkey, tick_spacing: u16, default_fee_rate: u16) -> Instruction {
    ix(
        wa::InitializeFeeTier {
            config: cfg.addr,
            fee_tier: fee_tier_addr(&cfg.addr, tick_spacing),
            funder,
            fee_authority: cfg.fee_authority,
            system_program: system_program::ID,
        }
        .to_account_metas(None),
        wi::InitializeFeeTier { tick_spacing, default_fee_rate }.data(),
    )
}

// ------------------------------------------------------------------------------------------------
// mints and token accounts
// ------------------------------------------------------------------------------------------------
pub fn mint_authority() -> Pubkey {
    key("mint_authority")
}

/// Plain SPL mint written directly as packed bytes.
pub fn create_spl_mint(l: &mut Ledger, k: Pubkey, decimals: u8, freeze: Option<Pubkey>) {
    let mut d = vec![0u8; spl_token::state::Mint::LEN];
    spl_token::state::Mint {
        mint_authority: COption::Some(mint_authority()),
        supply: 0,
        decimals,
        is_initialized: true,
        freeze_authority: freeze.map(COption::Some).unwrap_or(COption::None),
    }
    .pack_into_slice(&mut d);
    l.put(k, Acct { lamports: 10_000_000, data: d, owner: TOKEN, executable: false });
    if l.get(&mint_authority()).is_none() {
        l.put_system(mint_authority(), RICH);
    }
}

/// Token-2022 mint created through the real processor with the given extension initialisers.
pub fn create_t22_mint(l: &mut Ledger, k: Pubkey, decimals: u8, freeze: Option<Pubkey>, ext: &[T22Ext]) {
    use spl_token_2022::extension::ExtensionType;
    if l.get(&mint_authority()).is_none() {
        l.put_system(mint_authority(), RICH);
    }
    let types: Vec<ExtensionType> = ext.iter().map(|e| e.ext_type()).collect();
    let space = ExtensionType::try_calculate_account_len::<spl_token_2022::state::Mint>(&types).unwrap();
    l.put(k, Acct { lamports: 100_000_000, data: vec![0u8; space], owner: T22, executable: false });
    for e in ext {
        let i = e.init_ix(&k);
        svm::process_builtin(l, &i).unwrap_or_else(|m| panic!("t22 ext init {e:?}: {m}"));
    }
    let i = spl_token_2022::instruction::initialize_mint2(&T22, &k, &mint_authority(), freeze.as_ref(), decimals).unwrap();
    svm::process_builtin(l, &i).unwrap_or_else(|m| panic!("t22 initialize_mint2: {m}"));
}

#[derive(Clone, Debug, PartialEq, Eq)]
pub enum T22Ext {
    TransferFee { bps: u16, max: u64 },
    PermanentDelegate(Pubkey),
    MintCloseAuthority(Pubkey),
    DefaultAccountState(u8), // 1 = Initialized, 2 = Frozen
    NonTransferable,
    InterestBearing(i16),
    TransferHook(Option<Pubkey>),
    MetadataPointer,
    GroupPointer,
    GroupMemberPointer,
    ConfidentialTransferMint,
    Pausable,
    ScaledUiAmount,
}
impl T22Ext {
    pub fn ext_type(&self) -> spl_token_2022::extension::ExtensionType {
        use spl_token_2022::extension::ExtensionType as E;
        match self {
            T22Ext::TransferFee { .. } => E::TransferFeeConfig,
            T22Ext::PermanentDelegate(_) => E::PermanentDelegate,
            T22Ext::MintCloseAuthority(_) => E::MintCloseAuthority,
            T22Ext::DefaultAccountState(_) => E::DefaultAccountState,
            T22Ext::NonTransferable => E::NonTransferable,
            T22Ext::InterestBearing(_) => E::InterestBearingConfig,
            T22Ext::TransferHook(_) => E::TransferHook,
            T22Ext::MetadataPointer => E::MetadataPointer,
            T22Ext::GroupPointer => E::GroupPointer,
            T22Ext::GroupMemberPointer => E::GroupMemberPointer,
            T22Ext::ConfidentialTransferMint => E::ConfidentialTransferMint,
            T22Ext::Pausable => E::Pausable,
            T22Ext::ScaledUiAmount => E::ScaledUiAmount,
        }
    }
    pub fn init_ix(&self, mint: &Pubkey) -> Instruction {
        use spl_token_2022::extension as x;
        let auth = mint_authority();
        match self {
            T22Ext::TransferFee { bps, max } => {
                x::transfer_fee::instruction::initialize_transfer_fee_config(&T22, mint, Some(&auth), Some(&auth), *bps, *max).unwrap()
            }
            T22Ext::PermanentDelegate(d) => spl_token_2022::instruction::initialize_permanent_delegate(&T22, mint, d).unwrap(),
            T22Ext::MintCloseAuthority(a) => spl_token_2022::instruction::initialize_mint_close_authority(&T22, mint, Some(a)).unwrap(),
            T22Ext::DefaultAccountState(s) => {
                let st = if *s == 2 { spl_token_2022::state::AccountState::Frozen } else { spl_token_2022::state::AccountState::Initialized };
                x::default_account_state::instruction::initialize_default_account_state(&T22, mint, &st).unwrap()
            }
            T22Ext::NonTransferable => spl_token_2022::instruction::initialize_non_transferable_mint(&T22, mint).unwrap(),
            T22Ext::InterestBearing(r) => x::interest_bearing_mint::instruction::initialize(&T22, mint, Some(auth), *r).unwrap(),
            T22Ext::TransferHook(p) => x::transfer_hook::instruction::initialize(&T22, mint, Some(auth), *p).unwrap(),
            T22Ext::MetadataPointer => x::metadata_pointer::instruction::initialize(&T22, mint, Some(auth), Some(*mint)).unwrap(),
            T22Ext::GroupPointer => x::group_pointer::instruction::initialize(&T22, mint, Some(auth), Some(*mint)).unwrap(),
            T22Ext::GroupMemberPointer => x::group_member_pointer::instruction::initialize(&T22, mint, Some(auth), Some(*mint)).unwrap(),
            T22Ext::ConfidentialTransferMint => {
                x::confidential_transfer::instruction::initialize_mint(&T22, mint, Some(auth), true, None).unwrap()
            }
            T22Ext::Pausable => x::pausable::instruction::initialize(&T22, mint, &auth).unwrap(),
            T22Ext::ScaledUiAmount => x::scaled_ui_amount::instruction::initialize(&T22, mint, Some(auth), 1.0).unwrap(),
        }
    }
}

/// Create a token account holding `amount` (minted through the real processor so that supply is consistent).
pub fn create_token_account(l: &mut Ledger, k: Pubkey, mint: Pubkey, owner: Pubkey, amount: u64) {
    let prog = l.get(&mint).expect("mint exists").owner;
    if prog == TOKEN {
        l.put(k, Acct { lamports: 10_000_000, data: vec![0u8; spl_token::state::Account::LEN], owner: TOKEN, executable: false });
        let i = spl_token::instruction::initialize_account3(&TOKEN, &k, &mint, &owner).unwrap();
        svm::process_builtin(l, &i).unwrap_or_else(|m| panic!("initialize_account3: {m}"));
        if amount > 0 {
            let i = spl_token::instruction::mint_to(&TOKEN, &mint, &k, &mint_authority(), &[], amount).unwrap();
            svm::process_builtin(l, &i).unwrap_or_else(|m| panic!("mint_to: {m}"));
        }
    } else {
        use spl_token_2022::extension::{BaseStateWithExtensions, ExtensionType, StateWithExtensions};
        let mint_data = l.data(&mint).to_vec();
        let st = StateWithExtensions::<spl_token_2022::state::Mint>::unpack(&mint_data).unwrap();
        let mint_exts = st.get_extension_types().unwrap();
        let acc_exts = ExtensionType::get_required_init_account_extensions(&mint_exts);
        let space = ExtensionType::try_calculate_account_len::<spl_token_2022::state::Account>(&acc_exts).unwrap();
        l.put(k, Acct { lamports: 100_000_000, data: vec![0u8; space], owner: T22, executable: false });
        let i = spl_token_2022::instruction::initialize_account3(&T22, &k, &mint, &owner).unwrap();
        svm::process_builtin(l, &i).unwrap_or_else(|m| panic!("t22 initialize_account3: {m}"));
        if amount > 0 {
            let i = spl_token_2022::instruction::mint_to(&T22, &mint, &k, &mint_authority(), &[], amount).unwrap();
            svm::process_builtin(l, &i).unwrap_or_else(|m| panic!("t22 mint_to: {m}"));
        }
    }
}

pub fn balance(l: &Ledger, k: &Pubkey) -> u64 {
    decode::token_amount(l.data(k))
}

// ------------------------------------------------------------------------------------------------
// pools
// ------------------------------------------------------------------------------------------------
#[derive(Clone, Debug)]
pub struct PoolRef {
    pub addr: Pubkey,
    pub cfg: Pubkey,
    pub mint_a: Pubkey,
    pub mint_b: Pubkey,
    pub vault_a: Pubkey,
    pub vault_b: Pubkey,
    pub prog_a: Pubkey,
    pub prog_b: Pubkey,
    pub tick_spacing: u16,
    pub fee_tier_index: u16,
    pub oracle: Pubkey,
}

impl PoolRef {
    pub fn state(&self, l: &Ledger) -> decode::Pool {
        decode::pool(l.data(&self.addr))
    }
    pub fn tick_array(&self, start: i32) -> Pubkey {
        tick_array_addr(&self.addr, start)
    }
    pub fn ticks_in_array(&self) -> i32 {
        88 * self.tick_spacing as i32
    }
    pub fn array_start(&self, tick: i32) -> i32 {
        let n = self.ticks_in_array();
        tick.div_euclid(n) * n
    }
    pub fn is_v1_capable(&self) -> bool {
        self.prog_a == TOKEN && self.prog_b == TOKEN
    }
}

pub fn tick_array_addr(pool: &Pubkey, start: i32) -> Pubkey {
    pda(&[b"tick_array", pool.as_ref(), start.to_string().as_bytes()]).0
}
pub fn oracle_addr(pool: &Pubkey) -> Pubkey {
    pda(&[b"oracle", pool.as_ref()]).0
}
pub fn token_badge_addr(cfg: &Pubkey, mint: &Pubkey) -> Pubkey {
    pda(&[b"token_badge", cfg.as_ref(), mint.as_ref()]).0
}
pub fn pool_addr(cfg: &Pubkey, mint_a: &Pubkey, mint_b: &Pubkey, fee_tier_index: u16) -> (Pubkey, u8) {
    pda(&[b"whirlpool", cfg.as_ref(), mint_a.as_ref(), mint_b.as_ref(), &fee_tier_index.to_le_bytes()])
}

pub fn pool_ref(l: &Ledger, cfg: &Pubkey, label: &str, mint_a: Pubkey, mint_b: Pubkey, tick_spacing: u16, fee_tier_index: u16) -> PoolRef {
    let (addr, _) = pool_addr(cfg, &mint_a, &mint_b, fee_tier_index);
    PoolRef {
        addr,
        cfg: *cfg,
        mint_a,
        mint_b,
        vault_a: key(&format!("{label}/vault_a")),
        vault_b: key(&format!("{label}/vault_b")),
        prog_a: l.get(&mint_a).map(|a| a.owner).unwrap_or(TOKEN),
        prog_b: l.get(&mint_b).map(|a| a.owner).unwrap_or(TOKEN),
        tick_spacing,
        fee_tier_index,
        oracle: oracle_addr(&addr),
    }
}

pub fn ix_init_pool_v1(p: &PoolRef, funder: Pubkey, sqrt_price: u128) -> Instruction {
    let (_, bump) = pool_addr(&p.cfg, &p.mint_a, &p.mint_b, p.fee_tier_index);
    ix_init_pool_v1_with_bump_arg(p, funder, sqrt_price, bump)
}

/// The legacy instruction carries a bump ARGUMENT that the program documents as ignored (it stores the bump it derived itself);
/// worlds whose label ends in "-bump<N>" are created with N there: a pool that stored it could never sign for its vaults.
pub fn ix_init_pool_v1_with_bump_arg(p: &PoolRef, funder: Pubkey, sqrt_price: u128, bump: u8) -> Instruction {
    ix(
        wa::InitializePool {
            whirlpools_config: p.cfg,
            token_mint_a: p.mint_a,
            token_mint_b: p.mint_b,
            funder,
            whirlpool: p.addr,
            token_vault_a: p.vault_a,
            token_vault_b: p.vault_b,
            fee_tier: fee_tier_addr(&p.cfg, p.fee_tier_index),
            token_program: TOKEN,
            system_program: system_program::ID,
            rent: sysvar::rent::ID,
        }
        .to_account_metas(None),
        wi::InitializePool { bumps: whirlpool::state::WhirlpoolBumps { whirlpool_bump: bump }, tick_spacing: p.tick_spacing, initial_sqrt_price: sqrt_price }.data(),
    )
}

pub fn ix_init_pool_v2(p: &PoolRef, funder: Pubkey, sqrt_price: u128) -> Instruction {
    ix(
        wa::InitializePoolV2 {
            whirlpools_config: p.cfg,
            token_mint_a: p.mint_a,
            token_mint_b: p.mint_b,
            token_badge_a: token_badge_addr(&p.cfg, &p.mint_a),
            token_badge_b: token_badge_addr(&p.cfg, &p.mint_b),
            funder,
            whirlpool: p.addr,
            token_vault_a: p.vault_a,
            token_vault_b: p.vault_b,
            fee_tier: fee_tier_addr(&p.cfg, p.fee_tier_index),
            token_program_a: p.prog_a,
            token_program_b: p.prog_b,
            system_program: system_program::ID,
            rent: sysvar::rent::ID,
        }
        .to_account_metas(None),
        wi::InitializePoolV2 { tick_spacing: p.tick_spacing, initial_sqrt_price: sqrt_price }.data(),
    )
}

pub fn ix_init_tick_array(p: &PoolRef, funder: Pubkey, start: i32, dynamic: bool) -> Instruction {
    if dynamic {
        ix(
            wa::InitializeDynamicTickArray { whirlpool: p.addr, funder, tick_array: p.tick_array(start), system_program: system_program::ID }
                .to_account_metas(None),
            wi::InitializeDynamicTickArray { start_tick_index: start, idempotent: false }.data(),
        )
    } else {
        ix(
            wa::InitializeTickArray { whirlpool: p.addr, funder, tick_array: p.tick_array(start), system_program: system_program::ID }
                .to_account_metas(None),
            wi::InitializeTickArray { start_tick_index: start }.data(),
        )
    }
}

// ------------------------------------------------------------------------------------------------
// positions
// ------------------------------------------------------------------------------------------------
#[derive(Clone, Debug)]
pub struct PosRef {
    pub addr: Pubkey,
    pub mint: Pubkey,
    pub token_account: Pubkey,
    pub owner: Pubkey,
    pub lower: i32,
    pub upper: i32,
    pub pool: PoolRef,
    pub t22: bool,
}
impl PosRef {
    pub fn state(&self, l: &Ledger) -> decode::Position {
        decode::position(l.data(&self.addr))
    }
    pub fn exists(&self, l: &Ledger) -> bool {
        l.get(&self.addr).is_some()
    }
    /// The same position with its range refreshed from the ledger (reposition / reset change the range).
    pub fn at(&self, l: &Ledger) -> PosRef {
        let mut p = self.clone();
        if let Some(a) = l.get(&self.addr) {
            if a.data.len() == decode::POSITION_LEN {
                let st = decode::position(&a.data);
                p.lower = st.tick_lower_index;
                p.upper = st.tick_upper_index;
            }
        }
        p
    }
    pub fn ta_lower(&self) -> Pubkey {
        self.pool.tick_array(self.pool.array_start(self.lower))
    }
    pub fn ta_upper(&self) -> Pubkey {
        self.pool.tick_array(self.pool.array_start(self.upper))
    }
}

pub fn pos_ref(p: &PoolRef, label: &str, owner: Pubkey, lower: i32, upper: i32, t22: bool) -> PosRef {
    let mint = key(&format!("{label}/position_mint"));
    let (addr, _) = pda(&[b"position", mint.as_ref()]);
    let token_account = if t22 {
        spl_associated_token_account::get_associated_token_address_with_program_id(&owner, &mint, &T22)
    } else {
        spl_associated_token_account::get_associated_token_address(&owner, &mint)
    };
    PosRef { addr, mint, token_account, owner, lower, upper, pool: p.clone(), t22 }
}

pub fn ix_open_position(pos: &PosRef, funder: Pubkey) -> Instruction {
    let (_, bump) = pda(&[b"position", pos.mint.as_ref()]);
    if pos.t22 {
        ix(
            wa::OpenPositionWithTokenExtensions {
                funder,
                owner: pos.owner,
                position: pos.addr,
                position_mint: pos.mint,
                position_token_account: pos.token_account,
                whirlpool: pos.pool.addr,
                token_2022_program: T22,
                system_program: system_program::ID,
                associated_token_program: ATA,
                metadata_update_auth: whirlpool::constants::nft::whirlpool_nft_update_auth::ID,
            }
            .to_account_metas(None),
            wi::OpenPositionWithTokenExtensions { tick_lower_index: pos.lower, tick_upper_index: pos.upper, with_token_metadata_extension: false }.data(),
        )
    } else {
        ix(
            wa::OpenPosition {
                funder,
                owner: pos.owner,
                position: pos.addr,
                position_mint: pos.mint,
                position_token_account: pos.token_account,
                whirlpool: pos.pool.addr,
                token_program: TOKEN,
                system_program: system_program::ID,
                rent: sysvar::rent::ID,
                associated_token_program: ATA,
            }
            .to_account_metas(None),
            wi::OpenPosition { bumps: whirlpool::state::OpenPositionBumps { position_bump: bump }, tick_lower_index: pos.lower, tick_upper_index: pos.upper }.data(),
        )
    }
}

pub fn ix_close_position(pos: &PosRef, authority: Pubkey, receiver: Pubkey) -> Instruction {
    if pos.t22 {
        ix(
            wa::ClosePositionWithTokenExtensions {
                position_authority: authority,
                receiver,
                position: pos.addr,
                position_mint: pos.mint,
                position_token_account: pos.token_account,
                token_2022_program: T22,
            }
            .to_account_metas(None),
            wi::ClosePositionWithTokenExtensions {}.data(),
        )
    } else {
        ix(
            wa::ClosePosition {
                position_authority: authority,
                receiver,
                position: pos.addr,
                position_mint: pos.mint,
                position_token_account: pos.token_account,
                token_program: TOKEN,
            }
            .to_account_metas(None),
            wi::ClosePosition {}.data(),
        )
    }
}

/// Token accounts of one party for one pool.
#[derive(Clone, Debug)]
pub struct Wallet {
    pub owner: Pubkey,
    pub acct_a: Pubkey,
    pub acct_b: Pubkey,
}

pub fn create_wallet(l: &mut Ledger, label: &str, p: &PoolRef, amount_a: u64, amount_b: u64) -> Wallet {
    let owner = key(&format!("{label}/owner"));
    if l.get(&owner).is_none() {
        l.put_system(owner, RICH);
    }
    let w = Wallet { owner, acct_a: key(&format!("{label}/{}/acct_a", p.addr)), acct_b: key(&format!("{label}/{}/acct_b", p.addr)) };
    create_token_account(l, w.acct_a, p.mint_a, owner, amount_a);
    create_token_account(l, w.acct_b, p.mint_b, owner, amount_b);
    w
}

// ------------------------------------------------------------------------------------------------
// liquidity
// ------------------------------------------------------------------------------------------------
fn modify_v1(pos: &PosRef, w: &Wallet, authority: Pubkey) -> Vec<AccountMeta> {
    wa::ModifyLiquidity {
        whirlpool: pos.pool.addr,
        token_program: TOKEN,
        position_authority: authority,
        position: pos.addr,
        position_token_account: pos.token_account,
        token_owner_account_a: w.acct_a,
        token_owner_account_b: w.acct_b,
        token_vault_a: pos.pool.vault_a,
        token_vault_b: pos.pool.vault_b,
        tick_array_lower: pos.ta_lower(),
        tick_array_upper: pos.ta_upper(),
    }
    .to_account_metas(None)
}
fn modify_v2(pos: &PosRef, w: &Wallet, authority: Pubkey) -> Vec<AccountMeta> {
    wa::ModifyLiquidityV2 {
        whirlpool: pos.pool.addr,
        token_program_a: pos.pool.prog_a,
        token_program_b: pos.pool.prog_b,
        memo_program: MEMO,
        position_authority: authority,
        position: pos.addr,
        position_token_account: pos.token_account,
        token_mint_a: pos.pool.mint_a,
        token_mint_b: pos.pool.mint_b,
        token_owner_account_a: w.acct_a,
        token_owner_account_b: w.acct_b,
        token_vault_a: pos.pool.vault_a,
        token_vault_b: pos.pool.vault_b,
        tick_array_lower: pos.ta_lower(),
        tick_array_upper: pos.ta_upper(),
    }
    .to_account_metas(None)
}

pub fn ix_increase(pos: &PosRef, w: &Wallet, liquidity: u128, max_a: u64, max_b: u64, v2: bool) -> Instruction {
    if v2 {
        ix(
            modify_v2(pos, w, w.owner),
            wi::IncreaseLiquidityV2 { liquidity_amount: liquidity, token_max_a: max_a, token_max_b: max_b, remaining_accounts_info: None }.data(),
        )
    } else {
        ix(modify_v1(pos, w, w.owner), wi::IncreaseLiquidity { liquidity_amount: liquidity, token_max_a: max_a, token_max_b: max_b }.data())
    }
}
pub fn ix_decrease(pos: &PosRef, w: &Wallet, liquidity: u128, min_a: u64, min_b: u64, v2: bool) -> Instruction {
    if v2 {
        ix(
            modify_v2(pos, w, w.owner),
            wi::DecreaseLiquidityV2 { liquidity_amount: liquidity, token_min_a: min_a, token_min_b: min_b, remaining_accounts_info: None }.data(),
        )
    } else {
        ix(modify_v1(pos, w, w.owner), wi::DecreaseLiquidity { liquidity_amount: liquidity, token_min_a: min_a, token_min_b: min_b }.data())
    }
}
pub fn ix_increase_by_token_amounts(pos: &PosRef, w: &Wallet, max_a: u64, max_b: u64, min_sqrt_price: u128, max_sqrt_price: u128) -> Instruction {
    ix(
        modify_v2(pos, w, w.owner),
        wi::IncreaseLiquidityByTokenAmountsV2 {
            method: whirlpool::instructions::IncreaseLiquidityMethod::ByTokenAmounts {
                token_max_a: max_a,
                token_max_b: max_b,
                min_sqrt_price,
                max_sqrt_price,
            },
            remaining_accounts_info: None,
        }
        .data(),
    )
}

/// reposition_liquidity_v2 (Pinocchio only): withdraw everything from the current range, re-range, deposit `liquidity`.
pub fn ix_reposition_v2(pos: &PosRef, w: &Wallet, funder: Pubkey, new_lower: i32, new_upper: i32, liquidity: u128, min_a: u64, min_b: u64, max_a: u64, max_b: u64) -> Instruction {
    let p = &pos.pool;
    ix(
        wa::RepositionLiquidityV2 {
            whirlpool: p.addr,
            token_program_a: p.prog_a,
            token_program_b: p.prog_b,
            memo_program: MEMO,
            position_authority: w.owner,
            funder,
            position: pos.addr,
            position_token_account: pos.token_account,
            token_mint_a: p.mint_a,
            token_mint_b: p.mint_b,
            token_owner_account_a: w.acct_a,
            token_owner_account_b: w.acct_b,
            token_vault_a: p.vault_a,
            token_vault_b: p.vault_b,
            existing_tick_array_lower: pos.ta_lower(),
            existing_tick_array_upper: pos.ta_upper(),
            new_tick_array_lower: p.tick_array(p.array_start(new_lower)),
            new_tick_array_upper: p.tick_array(p.array_start(new_upper)),
            system_program: system_program::ID,
        }
        .to_account_metas(None),
        wi::RepositionLiquidityV2 {
            new_tick_lower_index: new_lower,
            new_tick_upper_index: new_upper,
            method: whirlpool::instructions::RepositionLiquidityMethod::ByLiquidity {
                new_liquidity_amount: liquidity,
                existing_range_token_min_a: min_a,
                existing_range_token_min_b: min_b,
                new_range_token_max_a: max_a,
                new_range_token_max_b: max_b,
            },
            remaining_accounts_info: None,
        }
        .data(),
    )
}

pub fn ix_update_fees_and_rewards(pos: &PosRef) -> Instruction {
    ix(
        wa::UpdateFeesAndRewards { whirlpool: pos.pool.addr, position: pos.addr, tick_array_lower: pos.ta_lower(), tick_array_upper: pos.ta_upper() }
            .to_account_metas(None),
        wi::UpdateFeesAndRewards {}.data(),
    )
}

pub fn ix_collect_fees(pos: &PosRef, w: &Wallet, v2: bool) -> Instruction {
    if v2 {
        ix(
            wa::CollectFeesV2 {
                whirlpool: pos.pool.addr,
                position_authority: w.owner,
                position: pos.addr,
                position_token_account: pos.token_account,
                token_mint_a: pos.pool.mint_a,
                token_mint_b: pos.pool.mint_b,
                token_owner_account_a: w.acct_a,
                token_vault_a: pos.pool.vault_a,
                token_owner_account_b: w.acct_b,
                token_vault_b: pos.pool.vault_b,
                token_program_a: pos.pool.prog_a,
                token_program_b: pos.pool.prog_b,
                memo_program: MEMO,
            }
            .to_account_metas(None),
            wi::CollectFeesV2 { remaining_accounts_info: None }.data(),
        )
    } else {
        ix(
            wa::CollectFees {
                whirlpool: pos.pool.addr,
                position_authority: w.owner,
                position: pos.addr,
                position_token_account: pos.token_account,
                token_owner_account_a: w.acct_a,
                token_vault_a: pos.pool.vault_a,
                token_owner_account_b: w.acct_b,
                token_vault_b: pos.pool.vault_b,
                token_program: TOKEN,
            }
            .to_account_metas(None),
            wi::CollectFees {}.data(),
        )
    }
}

pub fn ix_collect_protocol_fees(p: &PoolRef, authority: Pubkey, dest_a: Pubkey, dest_b: Pubkey, v2: bool) -> Instruction {
    if v2 {
        ix(
            wa::CollectProtocolFeesV2 {
                whirlpools_config: p.cfg,
                whirlpool: p.addr,
                collect_protocol_fees_authority: authority,
                token_mint_a: p.mint_a,
                token_mint_b: p.mint_b,
                token_vault_a: p.vault_a,
                token_vault_b: p.vault_b,
                token_destination_a: dest_a,
                token_destination_b: dest_b,
                token_program_a: p.prog_a,
                token_program_b: p.prog_b,
                memo_program: MEMO,
            }
            .to_account_metas(None),
            wi::CollectProtocolFeesV2 { remaining_accounts_info: None }.data(),
        )
    } else {
        ix(
            wa::CollectProtocolFees {
                whirlpools_config: p.cfg,
                whirlpool: p.addr,
                collect_protocol_fees_authority: authority,
                token_vault_a: p.vault_a,
                token_vault_b: p.vault_b,
                token_destination_a: dest_a,
                token_destination_b: dest_b,
                token_program: TOKEN,
            }
            .to_account_metas(None),
            wi::CollectProtocolFees {}.data(),
        )
    }
}

// ------------------------------------------------------------------------------------------------
// swaps
// ------------------------------------------------------------------------------------------------
#[derive(Clone, Copy, Debug, PartialEq, Eq, Hash)]
pub struct SwapArgs {
    pub amount: u64,
    pub other_amount_threshold: u64,
    pub sqrt_price_limit: u128,
    pub amount_specified_is_input: bool,
    pub a_to_b: bool,
}

/// Default tick array triple for a swap, derived (like the SDKs) from the pool's current tick.
pub fn swap_tick_arrays(p: &PoolRef, tick_current: i32, a_to_b: bool) -> [Pubkey; 3] {
    let n = p.ticks_in_array();
    let shift = if a_to_b { 0 } else { p.tick_spacing as i32 };
    let s0 = (tick_current + shift).div_euclid(n) * n;
    let d = if a_to_b { -n } else { n };
    [p.tick_array(s0), p.tick_array(s0 + d), p.tick_array(s0 + 2 * d)]
}

pub fn ix_swap(p: &PoolRef, w: &Wallet, a: SwapArgs, tas: [Pubkey; 3], v2: bool, supplemental: &[Pubkey]) -> Instruction {
    if v2 {
        let mut metas = wa::SwapV2 {
            token_program_a: p.prog_a,
            token_program_b: p.prog_b,
            memo_program: MEMO,
            token_authority: w.owner,
            whirlpool: p.addr,
            token_mint_a: p.mint_a,
            token_mint_b: p.mint_b,
            token_owner_account_a: w.acct_a,
            token_vault_a: p.vault_a,
            token_owner_account_b: w.acct_b,
            token_vault_b: p.vault_b,
            tick_array_0: tas[0],
            tick_array_1: tas[1],
            tick_array_2: tas[2],
            oracle: p.oracle,
        }
        .to_account_metas(None);
        let rai = if supplemental.is_empty() {
            None
        } else {
            for s in supplemental {
                metas.push(AccountMeta::new(*s, false));
            }
            Some(RemainingAccountsInfo {
                slices: vec![whirlpool::util::RemainingAccountsSlice {
                    accounts_type: whirlpool::util::AccountsType::SupplementalTickArrays,
                    length: supplemental.len() as u8,
                }],
            })
        };
        ix(
            metas,
            wi::SwapV2 {
                amount: a.amount,
                other_amount_threshold: a.other_amount_threshold,
                sqrt_price_limit: a.sqrt_price_limit,
                amount_specified_is_input: a.amount_specified_is_input,
                a_to_b: a.a_to_b,
                remaining_accounts_info: rai,
            }
            .data(),
        )
    } else {
        let mut metas = wa::Swap {
            token_program: TOKEN,
            token_authority: w.owner,
            whirlpool: p.addr,
            token_owner_account_a: w.acct_a,
            token_vault_a: p.vault_a,
            token_owner_account_b: w.acct_b,
            token_vault_b: p.vault_b,
            tick_array_0: tas[0],
            tick_array_1: tas[1],
            tick_array_2: tas[2],
            oracle: p.oracle,
        }
        .to_account_metas(None);
        // adaptive-fee pools need the oracle writable: v1 takes it as a remaining account
        for s in supplemental {
            metas.push(AccountMeta::new(*s, false));
        }
        ix(
            metas,
            wi::Swap {
                amount: a.amount,
                other_amount_threshold: a.other_amount_threshold,
                sqrt_price_limit: a.sqrt_price_limit,
                amount_specified_is_input: a.amount_specified_is_input,
                a_to_b: a.a_to_b,
            }
            .data(),
        )
    }
}

// ------------------------------------------------------------------------------------------------
// rewards
// ------------------------------------------------------------------------------------------------
pub fn reward_vault_key(p: &PoolRef, index: u8) -> Pubkey {
    key(&format!("{}/reward_vault/{index}", p.addr))
}

pub fn ix_init_reward(p: &PoolRef, authority: Pubkey, funder: Pubkey, mint: Pubkey, mint_prog: Pubkey, index: u8, v2: bool) -> Instruction {
    let vault = reward_vault_key(p, index);
    if v2 {
        ix(
            wa::InitializeRewardV2 {
                reward_authority: authority,
                funder,
                whirlpool: p.addr,
                reward_mint: mint,
                reward_token_badge: token_badge_addr(&p.cfg, &mint),
                reward_vault: vault,
                reward_token_program: mint_prog,
                system_program: system_program::ID,
                rent: sysvar::rent::ID,
            }
            .to_account_metas(None),
            wi::InitializeRewardV2 { reward_index: index }.data(),
        )
    } else {
        ix(
            wa::InitializeReward {
                reward_authority: authority,
                funder,
                whirlpool: p.addr,
                reward_mint: mint,
                reward_vault: vault,
                token_program: TOKEN,
                system_program: system_program::ID,
                rent: sysvar::rent::ID,
            }
            .to_account_metas(None),
            wi::InitializeReward { reward_index: index }.data(),
        )
    }
}

pub fn ix_set_reward_emissions(p: &PoolRef, authority: Pubkey, vault: Pubkey, index: u8, emissions: u128, v2: bool) -> Instruction {
    if v2 {
        ix(
            wa::SetRewardEmissionsV2 { whirlpool: p.addr, reward_authority: authority, reward_vault: vault }.to_account_metas(None),
            wi::SetRewardEmissionsV2 { reward_index: index, emissions_per_second_x64: emissions }.data(),
        )
    } else {
        ix(
            wa::SetRewardEmissions { whirlpool: p.addr, reward_authority: authority, reward_vault: vault }.to_account_metas(None),
            wi::SetRewardEmissions { reward_index: index, emissions_per_second_x64: emissions }.data(),
        )
    }
}

pub fn ix_collect_reward(pos: &PosRef, authority: Pubkey, owner_account: Pubkey, mint: Pubkey, mint_prog: Pubkey, vault: Pubkey, index: u8, v2: bool) -> Instruction {
    if v2 {
        ix(
            wa::CollectRewardV2 {
                whirlpool: pos.pool.addr,
                position_authority: authority,
                position: pos.addr,
                position_token_account: pos.token_account,
                reward_owner_account: owner_account,
                reward_mint: mint,
                reward_vault: vault,
                reward_token_program: mint_prog,
                memo_program: MEMO,
            }
            .to_account_metas(None),
            wi::CollectRewardV2 { reward_index: index, remaining_accounts_info: None }.data(),
        )
    } else {
        ix(
            wa::CollectReward {
                whirlpool: pos.pool.addr,
                position_authority: authority,
                position: pos.addr,
                position_token_account: pos.token_account,
                reward_owner_account: owner_account,
                reward_vault: vault,
                token_program: TOKEN,
            }
            .to_account_metas(None),
            wi::CollectReward { reward_index: index }.data(),
        )
    }
}

pub fn ix_set_fee_rate(p: &PoolRef, authority: Pubkey, fee_rate: u16) -> Instruction {
    ix(
        wa::SetFeeRate { whirlpools_config: p.cfg, whirlpool: p.addr, fee_authority: authority }.to_account_metas(None),
        wi::SetFeeRate { fee_rate }.data(),
    )
}
pub fn ix_set_protocol_fee_rate(p: &PoolRef, authority: Pubkey, protocol_fee_rate: u16) -> Instruction {
    ix(
        wa::SetProtocolFeeRate { whirlpools_config: p.cfg, whirlpool: p.addr, fee_authority: authority }.to_account_metas(None),
        wi::SetProtocolFeeRate { protocol_fee_rate }.data(),
    )
}

// ------------------------------------------------------------------------------------------------
// W-std: the standard single-pool world
// ------------------------------------------------------------------------------------------------
#[derive(Clone, Copy, Debug, PartialEq, Eq)]
pub enum Enc {
    Fixed,
    Dynamic,
}

#[derive(Clone, Debug)]
pub struct StdSpec {
    pub label: String,
    pub tick_spacing: u16,
    pub fee_rate: u16,
    pub protocol_fee_rate: u16,
    pub sqrt_price: u128,
    /// (array offset relative to array 0, encoding); arrays that exist on chain
    pub arrays: Vec<(i32, Enc)>,
    /// positions (lower, upper, token-extension NFT?)
    pub positions: Vec<(i32, i32, bool)>,
    pub t22_a: Option<Vec<T22Ext>>,
    pub t22_b: Option<Vec<T22Ext>>,
}

#[derive(Clone)]
pub struct StdWorld {
    pub cfg: Config,
    pub pool: PoolRef,
    pub lp: Wallet,
    pub trader: Wallet,
    pub fee_dest: Wallet,
    pub positions: Vec<PosRef>,
    pub funder: Pubkey,
}

pub fn build_std(spec: &StdSpec) -> (Ledger, StdWorld) {
    let mut l = base_ledger();
    let lab = &spec.label;
    let cfg = init_config(&mut l, lab, spec.protocol_fee_rate);
    let funder = key(&format!("{lab}/funder"));
    l.put_system(funder, RICH);
    must("init_fee_tier", svm::process(&mut l, &ix_init_fee_tier(&cfg, funder, spec.tick_spacing, spec.fee_rate)));
    let (m1, m2) = (key(&format!("{lab}/mint1")), key(&format!("{lab}/mint2")));
    let (ma, mb) = if m1 < m2 { (m1, m2) } else { (m2, m1) };
    match &spec.t22_a {
        None => create_spl_mint(&mut l, ma, 6, None),
        Some(e) => create_t22_mint(&mut l, ma, 6, None, e),
    }
    match &spec.t22_b {
        None => create_spl_mint(&mut l, mb, 6, None),
        Some(e) => create_t22_mint(&mut l, mb, 6, None, e),
    }
    let pool = pool_ref(&l, &cfg.addr, lab, ma, mb, spec.tick_spacing, spec.tick_spacing);
    let v1 = pool.is_v1_capable();
    let bump_arg: Option<u8> = lab.rfind("-bump").and_then(|i| lab[i + 5..].parse::<u8>().ok());
    let i = if let (true, Some(b)) = (v1, bump_arg) {
        ix_init_pool_v1_with_bump_arg(&pool, funder, spec.sqrt_price, b)
    } else if v1 {
        ix_init_pool_v1(&pool, funder, spec.sqrt_price)
    } else {
        ix_init_pool_v2(&pool, funder, spec.sqrt_price)
    };
    must("init_pool", svm::process(&mut l, &i));
    for (off, enc) in &spec.arrays {
        let start = off * pool.ticks_in_array();
        must("init_tick_array", svm::process(&mut l, &ix_init_tick_array(&pool, funder, start, *enc == Enc::Dynamic)));
    }
    let lp = create_wallet(&mut l, &format!("{lab}/lp"), &pool, 1 << 62, 1 << 62);
    let trader = create_wallet(&mut l, &format!("{lab}/trader"), &pool, 1 << 62, 1 << 62);
    let fee_dest = create_wallet(&mut l, &format!("{lab}/feedest"), &pool, 0, 0);
    let mut positions = vec![];
    for (i, (lo, hi, t22)) in spec.positions.iter().enumerate() {
        let p = pos_ref(&pool, &format!("{lab}/pos{i}"), lp.owner, *lo, *hi, *t22);
        must("open_position", svm::process(&mut l, &ix_open_position(&p, funder)));
        positions.push(p);
    }
    (l, StdWorld { cfg, pool, lp, trader, fee_dest, positions, funder })
}
