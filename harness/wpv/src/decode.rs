//! The harness's own byte decoders for program accounts (independent of both the Anchor
//! deserialisers and the Pinocchio memory-mapped views, so that a bug in either is visible).
#![allow(dead_code)]
use solana_program::pubkey::Pubkey;

fn u16le(b: &[u8], o: usize) -> u16 {
    u16::from_le_bytes(b[o..o + 2].try_into().unwrap())
}
fn i32le(b: &[u8], o: usize) -> i32 {
    i32::from_le_bytes(b[o..o + 4].try_into().unwrap())
}
fn u64le(b: &[u8], o: usize) -> u64 {
    u64::from_le_bytes(b[o..o + 8].try_into().unwrap())
}
fn u128le(b: &[u8], o: usize) -> u128 {
    u128::from_le_bytes(b[o..o + 16].try_into().unwrap())
}
fn i128le(b: &[u8], o: usize) -> i128 {
    i128::from_le_bytes(b[o..o + 16].try_into().unwrap())
}
fn pk(b: &[u8], o: usize) -> Pubkey {
    Pubkey::new_from_array(b[o..o + 32].try_into().unwrap())
}

#[derive(Clone, Debug, PartialEq, Eq, Default)]
pub struct RewardInfo {
    pub mint: Pubkey,
    pub vault: Pubkey,
    pub extension: [u8; 32],
    pub emissions_per_second_x64: u128,
    pub growth_global_x64: u128,
}

#[derive(Clone, Debug, PartialEq, Eq, Default)]
pub struct Pool {
    pub config: Pubkey,
    pub bump: u8,
    pub tick_spacing: u16,
    pub fee_tier_index_seed: [u8; 2],
    pub fee_rate: u16,
    pub protocol_fee_rate: u16,
    pub liquidity: u128,
    pub sqrt_price: u128,
    pub tick_current_index: i32,
    pub protocol_fee_owed_a: u64,
    pub protocol_fee_owed_b: u64,
    pub token_mint_a: Pubkey,
    pub token_vault_a: Pubkey,
    pub fee_growth_global_a: u128,
    pub token_mint_b: Pubkey,
    pub token_vault_b: Pubkey,
    pub fee_growth_global_b: u128,
    pub reward_last_updated_timestamp: u64,
    pub reward_infos: [RewardInfo; 3],
}

pub const POOL_LEN: usize = 653;
pub mod pool_off {
    pub const CONFIG: usize = 8;
    pub const BUMP: usize = 40;
    pub const TICK_SPACING: usize = 41;
    pub const FEE_TIER_SEED: usize = 43;
    pub const FEE_RATE: usize = 45;
    pub const PROTOCOL_FEE_RATE: usize = 47;
    pub const LIQUIDITY: usize = 49;
    pub const SQRT_PRICE: usize = 65;
    pub const TICK_CURRENT: usize = 81;
    pub const PROTOCOL_FEE_OWED_A: usize = 85;
    pub const PROTOCOL_FEE_OWED_B: usize = 93;
    pub const MINT_A: usize = 101;
    pub const VAULT_A: usize = 133;
    pub const FEE_GROWTH_A: usize = 165;
    pub const MINT_B: usize = 181;
    pub const VAULT_B: usize = 213;
    pub const FEE_GROWTH_B: usize = 245;
    pub const REWARD_TS: usize = 261;
    pub const REWARDS: usize = 269;
    pub const REWARD_LEN: usize = 128;
}

pub fn pool(b: &[u8]) -> Pool {
    use pool_off::*;
    assert_eq!(b.len(), POOL_LEN, "whirlpool account length");
    let ri = |i: usize| {
        let o = REWARDS + i * REWARD_LEN;
        RewardInfo {
            mint: pk(b, o),
            vault: pk(b, o + 32),
            extension: b[o + 64..o + 96].try_into().unwrap(),
            emissions_per_second_x64: u128le(b, o + 96),
            growth_global_x64: u128le(b, o + 112),
        }
    };
    Pool {
        config: pk(b, CONFIG),
        bump: b[BUMP],
        tick_spacing: u16le(b, TICK_SPACING),
        fee_tier_index_seed: [b[FEE_TIER_SEED], b[FEE_TIER_SEED + 1]],
        fee_rate: u16le(b, FEE_RATE),
        protocol_fee_rate: u16le(b, PROTOCOL_FEE_RATE),
        liquidity: u128le(b, LIQUIDITY),
        sqrt_price: u128le(b, SQRT_PRICE),
        tick_current_index: i32le(b, TICK_CURRENT),
        protocol_fee_owed_a: u64le(b, PROTOCOL_FEE_OWED_A),
        protocol_fee_owed_b: u64le(b, PROTOCOL_FEE_OWED_B),
        token_mint_a: pk(b, MINT_A),
        token_vault_a: pk(b, VAULT_A),
        fee_growth_global_a: u128le(b, FEE_GROWTH_A),
        token_mint_b: pk(b, MINT_B),
        token_vault_b: pk(b, VAULT_B),
        fee_growth_global_b: u128le(b, FEE_GROWTH_B),
        reward_last_updated_timestamp: u64le(b, REWARD_TS),
        reward_infos: [ri(0), ri(1), ri(2)],
    }
}

#[derive(Clone, Debug, PartialEq, Eq, Default)]
pub struct PosReward {
    pub growth_inside_checkpoint: u128,
    pub amount_owed: u64,
}

#[derive(Clone, Debug, PartialEq, Eq, Default)]
pub struct Position {
    pub whirlpool: Pubkey,
    pub position_mint: Pubkey,
    pub liquidity: u128,
    pub tick_lower_index: i32,
    pub tick_upper_index: i32,
    pub fee_growth_checkpoint_a: u128,
    pub fee_owed_a: u64,
    pub fee_growth_checkpoint_b: u128,
    pub fee_owed_b: u64,
    pub reward_infos: [PosReward; 3],
}
pub const POSITION_LEN: usize = 216;

pub fn position(b: &[u8]) -> Position {
    assert_eq!(b.len(), POSITION_LEN, "position account length");
    let r = |i: usize| {
        let o = 144 + i * 24;
        PosReward { growth_inside_checkpoint: u128le(b, o), amount_owed: u64le(b, o + 16) }
    };
    Position {
        whirlpool: pk(b, 8),
        position_mint: pk(b, 40),
        liquidity: u128le(b, 72),
        tick_lower_index: i32le(b, 88),
        tick_upper_index: i32le(b, 92),
        fee_growth_checkpoint_a: u128le(b, 96),
        fee_owed_a: u64le(b, 112),
        fee_growth_checkpoint_b: u128le(b, 120),
        fee_owed_b: u64le(b, 136),
        reward_infos: [r(0), r(1), r(2)],
    }
}

#[derive(Clone, Copy, Debug, PartialEq, Eq, Default)]
pub struct Tick {
    pub initialized: bool,
    pub liquidity_net: i128,
    pub liquidity_gross: u128,
    pub fee_growth_outside_a: u128,
    pub fee_growth_outside_b: u128,
    pub reward_growths_outside: [u128; 3],
}

fn tick_body(b: &[u8], o: usize) -> Tick {
    Tick {
        initialized: true,
        liquidity_net: i128le(b, o),
        liquidity_gross: u128le(b, o + 16),
        fee_growth_outside_a: u128le(b, o + 32),
        fee_growth_outside_b: u128le(b, o + 48),
        reward_growths_outside: [u128le(b, o + 64), u128le(b, o + 80), u128le(b, o + 96)],
    }
}

#[derive(Clone, Debug, PartialEq, Eq)]
pub struct TickArray {
    pub dynamic: bool,
    pub start_tick_index: i32,
    pub whirlpool: Pubkey,
    pub ticks: Vec<Tick>, // 88
    /// raw `initialized` bytes (fixed) / tag bytes (dynamic) so that non-boolean values are visible
    pub raw_flags: Vec<u8>,
    pub bitmap: u128, // dynamic only
}

pub const FIXED_TA_LEN: usize = 9988;
pub const DYN_TA_MIN_LEN: usize = 148;
pub const FIXED_TA_DISC: [u8; 8] = [69, 97, 189, 190, 110, 7, 66, 187];
pub const DYN_TA_DISC: [u8; 8] = [17, 216, 246, 142, 225, 199, 218, 56];

/// Decode a tick array account (fixed or dynamic). Returns Err with a description for malformed encodings.
pub fn tick_array(b: &[u8]) -> Result<TickArray, String> {
    if b.len() < 8 {
        return Err("too short".into());
    }
    if b[..8] == FIXED_TA_DISC {
        if b.len() != FIXED_TA_LEN {
            return Err(format!("fixed tick array length {}", b.len()));
        }
        let mut ticks = Vec::with_capacity(88);
        let mut raw = Vec::with_capacity(88);
        for i in 0..88 {
            let o = 12 + i * 113;
            raw.push(b[o]);
            let mut t = tick_body(b, o + 1);
            t.initialized = b[o] != 0;
            ticks.push(t);
        }
        Ok(TickArray { dynamic: false, start_tick_index: i32le(b, 8), whirlpool: pk(b, 12 + 88 * 113), ticks, raw_flags: raw, bitmap: 0 })
    } else if b[..8] == DYN_TA_DISC {
        if b.len() < DYN_TA_MIN_LEN {
            return Err(format!("dynamic tick array length {}", b.len()));
        }
        let bitmap = u128le(b, 44);
        let mut o = 60;
        let mut ticks = Vec::with_capacity(88);
        let mut raw = Vec::with_capacity(88);
        for i in 0..88 {
            if o >= b.len() {
                return Err(format!("dynamic tick array truncated at slot {i}"));
            }
            raw.push(b[o]);
            match b[o] {
                0 => {
                    ticks.push(Tick::default());
                    o += 1;
                }
                1 => {
                    if o + 113 > b.len() {
                        return Err(format!("dynamic tick array truncated inside slot {i}"));
                    }
                    ticks.push(tick_body(b, o + 1));
                    o += 113;
                }
                x => return Err(format!("dynamic tick array: bad tag {x} at slot {i}")),
            }
        }
        if o != b.len() {
            return Err(format!("dynamic tick array: used {} of {} bytes", o, b.len()));
        }
        Ok(TickArray { dynamic: true, start_tick_index: i32le(b, 8), whirlpool: pk(b, 12), ticks, raw_flags: raw, bitmap })
    } else {
        Err("not a tick array discriminator".into())
    }
}

/// SPL token / token-2022 account amount (offset 64) and mint/owner.
pub fn token_amount(b: &[u8]) -> u64 {
    if b.len() < 72 {
        return 0;
    }
    u64le(b, 64)
}
pub fn token_mint(b: &[u8]) -> Pubkey {
    pk(b, 0)
}
pub fn token_owner(b: &[u8]) -> Pubkey {
    pk(b, 32)
}
pub fn token_delegated_amount(b: &[u8]) -> u64 {
    u64le(b, 121)
}
pub fn token_state(b: &[u8]) -> u8 {
    b[108]
}
pub fn mint_supply(b: &[u8]) -> u64 {
    u64le(b, 36)
}
pub fn mint_has_authority(b: &[u8]) -> bool {
    u32::from_le_bytes(b[0..4].try_into().unwrap()) != 0
}

#[derive(Clone, Debug, PartialEq, Eq, Default)]
pub struct Oracle {
    pub whirlpool: Pubkey,
    pub trade_enable_timestamp: u64,
    // constants
    pub filter_period: u16,
    pub decay_period: u16,
    pub reduction_factor: u16,
    pub adaptive_fee_control_factor: u32,
    pub max_volatility_accumulator: u32,
    pub tick_group_size: u16,
    pub major_swap_threshold_ticks: u16,
    // variables
    pub last_reference_update_timestamp: u64,
    pub last_major_swap_timestamp: u64,
    pub volatility_reference: u32,
    pub tick_group_index_reference: i32,
    pub volatility_accumulator: u32,
}

pub fn oracle(b: &[u8]) -> Oracle {
    // disc 8 | whirlpool 32 | trade_enable_timestamp 8 | constants (2+2+2+4+4+2+2 + 16 reserved) | variables (8+8+4+4+4 + 16 reserved) | reserved 128
    let c = 48;
    let v = c + 18 + 16;
    Oracle {
        whirlpool: pk(b, 8),
        trade_enable_timestamp: u64le(b, 40),
        filter_period: u16le(b, c),
        decay_period: u16le(b, c + 2),
        reduction_factor: u16le(b, c + 4),
        adaptive_fee_control_factor: u32::from_le_bytes(b[c + 6..c + 10].try_into().unwrap()),
        max_volatility_accumulator: u32::from_le_bytes(b[c + 10..c + 14].try_into().unwrap()),
        tick_group_size: u16le(b, c + 14),
        major_swap_threshold_ticks: u16le(b, c + 16),
        last_reference_update_timestamp: u64le(b, v),
        last_major_swap_timestamp: u64le(b, v + 8),
        volatility_reference: u32::from_le_bytes(b[v + 16..v + 20].try_into().unwrap()),
        tick_group_index_reference: i32le(b, v + 20),
        volatility_accumulator: u32::from_le_bytes(b[v + 24..v + 28].try_into().unwrap()),
    }
}
