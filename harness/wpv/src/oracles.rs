//! State invariants and per-transition oracles shared by the Engine-A checks (C01, C03, C05, C06 ...).
#![allow(dead_code)]
use crate::decode;
use crate::ops::{self, Op, Stepped};
use crate::refmodel::*;
use crate::world::{self, balance, StdWorld};
use num_bigint::BigUint;
use num_traits::Zero;
use svm::Ledger;
use whirlpool::math::sqrt_price_from_tick_index;
use whirlpool::verif_hooks::SwapTrace;

// ------------------------------------------------------------------------------------------------
// C05: liquidity bookkeeping
// ------------------------------------------------------------------------------------------------
pub struct C05Stats {
    pub in_range_positions: usize,
    pub initialized_ticks: usize,
}

pub fn c05_invariant(l: &Ledger, w: &StdWorld) -> Result<C05Stats, String> {
    let pool = w.pool.state(l);
    let ts = w.pool.tick_spacing as i32;
    let mut sum_in_range: u128 = 0;
    let mut n_in = 0;
    // expected per-tick net/gross from the positions
    let mut exp: std::collections::BTreeMap<i32, (i128, u128)> = Default::default();
    for p in &w.positions {
        if !p.exists(l) {
            continue;
        }
        let ps = p.state(l);
        if ps.whirlpool != w.pool.addr {
            return Err(format!("position {} names pool {}", p.addr, ps.whirlpool));
        }
        if ps.liquidity == 0 {
            continue;
        }
        if ps.tick_lower_index <= pool.tick_current_index && pool.tick_current_index < ps.tick_upper_index {
            sum_in_range = sum_in_range.checked_add(ps.liquidity).ok_or("sum of in-range liquidity overflows u128")?;
            n_in += 1;
        }
        let lo = exp.entry(ps.tick_lower_index).or_insert((0, 0));
        lo.0 += ps.liquidity as i128;
        lo.1 += ps.liquidity;
        let hi = exp.entry(ps.tick_upper_index).or_insert((0, 0));
        hi.0 -= ps.liquidity as i128;
        hi.1 += ps.liquidity;
    }
    if pool.liquidity != sum_in_range {
        return Err(format!(
            "pool.liquidity = {} but positions covering tick {} sum to {}",
            pool.liquidity, pool.tick_current_index, sum_in_range
        ));
    }
    let mut seen = std::collections::BTreeSet::new();
    let mut n_init = 0;
    for (k, a) in l.accts.iter() {
        if a.owner != world::WP || a.data.len() < 8 {
            continue;
        }
        if a.data[..8] != decode::FIXED_TA_DISC && a.data[..8] != decode::DYN_TA_DISC {
            continue;
        }
        let ta = decode::tick_array(&a.data).map_err(|e| format!("tick array {k} malformed: {e}"))?;
        if ta.whirlpool != w.pool.addr {
            continue;
        }
        if ta.dynamic {
            let n = ta.ticks.iter().filter(|t| t.initialized).count();
            if a.data.len() != 148 + 112 * n {
                return Err(format!("dynamic tick array {k}: length {} with {n} initialized ticks", a.data.len()));
            }
            for (i, t) in ta.ticks.iter().enumerate() {
                if ((ta.bitmap >> i) & 1 == 1) != t.initialized {
                    return Err(format!("dynamic tick array {k}: bitmap bit {i} disagrees with slot tag"));
                }
            }
        }
        for (i, t) in ta.ticks.iter().enumerate() {
            let idx = ta.start_tick_index + i as i32 * ts;
            let (net, gross) = exp.get(&idx).copied().unwrap_or((0, 0));
            seen.insert(idx);
            if t.initialized {
                n_init += 1;
            }
            if t.initialized != (gross > 0) {
                return Err(format!("tick {idx}: initialized = {} but gross liquidity of positions bounded by it = {gross}", t.initialized));
            }
            if t.liquidity_gross != gross || t.liquidity_net != net {
                return Err(format!("tick {idx}: stored net/gross = {}/{} but positions give {net}/{gross}", t.liquidity_net, t.liquidity_gross));
            }
            if ta.raw_flags[i] > 1 {
                return Err(format!("tick {idx}: non-boolean initialized byte {}", ta.raw_flags[i]));
            }
        }
    }
    for (idx, (_n, g)) in &exp {
        if *g > 0 && !seen.contains(idx) {
            return Err(format!("positions are bounded by tick {idx} with gross {g} but no tick array holds it"));
        }
    }
    Ok(C05Stats { in_range_positions: n_in, initialized_ticks: n_init })
}

// ------------------------------------------------------------------------------------------------
// C01: solvency
// ------------------------------------------------------------------------------------------------
/// Claims on the vaults with pending (uncredited) fees counted, via a real update_fees_and_rewards on a copy.
pub fn c01_vault_invariant(l: &Ledger, w: &StdWorld) -> Result<(), String> {
    let mut c = l.clone();
    for p in &w.positions {
        if p.exists(&c) && p.state(&c).liquidity > 0 {
            let p = &p.at(&c);
            let o = svm::process(&mut c, &world::ix_update_fees_and_rewards(p));
            if !o.ok() {
                return Err(format!("update_fees_and_rewards on position {}..{} failed: {}", p.lower, p.upper, o.short()));
            }
        }
    }
    let pool = w.pool.state(&c);
    let mut claim_a = bu(pool.protocol_fee_owed_a as u128);
    let mut claim_b = bu(pool.protocol_fee_owed_b as u128);
    for p in &w.positions {
        if !p.exists(&c) {
            continue;
        }
        let ps = p.state(&c);
        claim_a += bu(ps.fee_owed_a as u128);
        claim_b += bu(ps.fee_owed_b as u128);
        if ps.liquidity > 0 && ps.tick_lower_index >= ps.tick_upper_index {
            // not a range: "the tokens returned by withdrawing all of its liquidity at the current price" is then whatever the
            // program pays for it — measured by a real withdrawal on a copy, which must also succeed
            let mut d = c.clone();
            let pr = &p.at(&d);
            let (a0, b0) = (balance(&d, &w.pool.vault_a), balance(&d, &w.pool.vault_b));
            let o = svm::process(&mut d, &world::ix_decrease(pr, &w.lp, ps.liquidity, 0, 0, !w.pool.is_v1_capable()));
            if !o.ok() {
                return Err(format!("position {}..{} (not a valid range) holds liquidity {} that cannot be withdrawn: {}", ps.tick_lower_index, ps.tick_upper_index, ps.liquidity, o.short()));
            }
            claim_a += bu((a0 - balance(&d, &w.pool.vault_a)) as u128);
            claim_b += bu((b0 - balance(&d, &w.pool.vault_b)) as u128);
        } else if ps.liquidity > 0 {
            let (qa, qb) = position_amounts_exact(
                pool.sqrt_price,
                sqrt_price_from_tick_index(ps.tick_lower_index),
                sqrt_price_from_tick_index(ps.tick_upper_index),
                ps.liquidity,
            );
            claim_a += qa.floor();
            claim_b += qb.floor();
        }
    }
    let (va, vb) = (balance(&c, &w.pool.vault_a), balance(&c, &w.pool.vault_b));
    if bu(va as u128) < claim_a {
        return Err(format!("vault A holds {va} but claims (protocol fees + position fees + withdrawable) total {claim_a}"));
    }
    if bu(vb as u128) < claim_b {
        return Err(format!("vault B holds {vb} but claims (protocol fees + position fees + withdrawable) total {claim_b}"));
    }
    Ok(())
}

fn permutations(n: usize) -> Vec<Vec<usize>> {
    fn rec(cur: &mut Vec<usize>, used: &mut Vec<bool>, out: &mut Vec<Vec<usize>>) {
        if cur.len() == used.len() {
            out.push(cur.clone());
            return;
        }
        for i in 0..used.len() {
            if !used[i] {
                used[i] = true;
                cur.push(i);
                rec(cur, used, out);
                cur.pop();
                used[i] = false;
            }
        }
    }
    let mut out = vec![];
    rec(&mut vec![], &mut vec![false; n], &mut out);
    out
}

/// Every order of {close out each position, collect protocol fees} must succeed with real token transfers.
/// Returns the number of instructions executed.
pub fn c01_drain(l: &Ledger, w: &StdWorld) -> Result<u64, String> {
    let live: Vec<usize> = (0..w.positions.len()).filter(|i| w.positions[*i].exists(l)).collect();
    let n = live.len() + 1; // + protocol fee collection
    let mut executed = 0u64;
    for perm in permutations(n) {
        let mut c = l.clone();
        for item in &perm {
            if *item == live.len() {
                let o = svm::process(&mut c, &world::ix_collect_protocol_fees(&w.pool, w.cfg.collect_protocol_fees_authority, w.fee_dest.acct_a, w.fee_dest.acct_b, !w.pool.is_v1_capable()));
                executed += 1;
                if !o.ok() {
                    return Err(format!("drain order {perm:?}: collect_protocol_fees failed: {}", o.short()));
                }
            } else {
                let p = &w.positions[live[*item]].at(&c);
                let v2 = !w.pool.is_v1_capable();
                let liq = p.state(&c).liquidity;
                if liq > 0 {
                    let o = svm::process(&mut c, &world::ix_decrease(p, &w.lp, liq, 0, 0, v2));
                    executed += 1;
                    if !o.ok() {
                        return Err(format!("drain order {perm:?}: decrease_liquidity({liq}) of position {}..{} failed: {}", p.lower, p.upper, o.short()));
                    }
                }
                let o = svm::process(&mut c, &world::ix_collect_fees(p, &w.lp, v2));
                executed += 1;
                if !o.ok() {
                    return Err(format!("drain order {perm:?}: collect_fees of position {}..{} failed: {}", p.lower, p.upper, o.short()));
                }
            }
        }
        // after a full drain nothing is owed any more
        let pool = w.pool.state(&c);
        if pool.liquidity != 0 || pool.protocol_fee_owed_a != 0 || pool.protocol_fee_owed_b != 0 {
            return Err(format!("drain order {perm:?}: pool still has liquidity {} / protocol fees {} {}", pool.liquidity, pool.protocol_fee_owed_a, pool.protocol_fee_owed_b));
        }
    }
    Ok(executed)
}

// ------------------------------------------------------------------------------------------------
// swap observation (shared by C03 / C06)
// ------------------------------------------------------------------------------------------------
#[derive(Clone, Debug, Default)]
pub struct Traded {
    pub whirlpool: [u8; 32],
    pub a_to_b: bool,
    pub pre_sqrt_price: u128,
    pub post_sqrt_price: u128,
    pub input_amount: u64,
    pub output_amount: u64,
    pub input_transfer_fee: u64,
    pub output_transfer_fee: u64,
    pub lp_fee: u64,
    pub protocol_fee: u64,
}

pub fn decode_traded(ev: &[u8]) -> Option<Traded> {
    use anchor_lang::Discriminator;
    let d = whirlpool::events::Traded::DISCRIMINATOR;
    if ev.len() != 8 + 32 + 1 + 16 + 16 + 8 * 6 || &ev[..8] != d {
        return None;
    }
    let u64at = |o: usize| u64::from_le_bytes(ev[o..o + 8].try_into().unwrap());
    let u128at = |o: usize| u128::from_le_bytes(ev[o..o + 16].try_into().unwrap());
    Some(Traded {
        whirlpool: ev[8..40].try_into().unwrap(),
        a_to_b: ev[40] != 0,
        pre_sqrt_price: u128at(41),
        post_sqrt_price: u128at(57),
        input_amount: u64at(73),
        output_amount: u64at(81),
        input_transfer_fee: u64at(89),
        output_transfer_fee: u64at(97),
        lp_fee: u64at(105),
        protocol_fee: u64at(113),
    })
}

#[derive(Clone, Debug)]
pub struct SwapObs {
    pub a_to_b: bool,
    pub exact_in: bool,
    pub amount: u64,
    pub limit: u128,
    pub trader_in: u64,  // what left the trader's input account
    pub trader_out: u64, // what arrived in the trader's output account
    pub vault_in: u64,   // what arrived in the input vault
    pub vault_out: u64,  // what left the output vault
    pub other_trader_delta: i128, // change of any other trader account (must be 0)
}

pub fn observe_swap(pre: &Ledger, post: &Ledger, w: &StdWorld, a_to_b: bool, exact_in: bool, amount: u64, limit: u128) -> SwapObs {
    let (tin, tout) = if a_to_b { (w.trader.acct_a, w.trader.acct_b) } else { (w.trader.acct_b, w.trader.acct_a) };
    let (vin, vout) = if a_to_b { (w.pool.vault_a, w.pool.vault_b) } else { (w.pool.vault_b, w.pool.vault_a) };
    SwapObs {
        a_to_b,
        exact_in,
        amount,
        limit,
        trader_in: balance(pre, &tin).wrapping_sub(balance(post, &tin)),
        trader_out: balance(post, &tout).wrapping_sub(balance(pre, &tout)),
        vault_in: balance(post, &vin).wrapping_sub(balance(pre, &vin)),
        vault_out: balance(pre, &vout).wrapping_sub(balance(post, &vout)),
        other_trader_delta: 0,
    }
}

// ------------------------------------------------------------------------------------------------
// C06: fee split
// ------------------------------------------------------------------------------------------------
#[derive(Default, Debug, Clone)]
pub struct C06Stats {
    pub steps: u64,
    pub partial_exact_in_steps: u64,
    pub zero_liquidity_steps: u64,
    pub steps_with_fee: u64,
    pub crossings: u64,
    pub nonzero_protocol_cut: u64,
    /// steps whose protocol share is non-zero while the LP share is below one ulp of the growth accumulator
    pub cut_without_growth: u64,
    /// steps charged a total rate above 65 535 (only adaptive-fee pools get there) with a non-zero fee
    pub steps_rate_above_16_bits: u64,
}

pub fn c06_swap_oracle(pre: &Ledger, st: &Stepped, w: &StdWorld, a_to_b: bool, exact_in: bool, amount: u64, limit: u128, stats: &mut C06Stats) -> Result<(), String> {
    let post = &st.ledger;
    let adaptive = pre.get(&w.pool.oracle).map(|a| a.owner == world::WP).unwrap_or(false);
    let p0 = w.pool.state(pre);
    let p1 = w.pool.state(post);
    let mut sum_in = BigUint::zero();
    let mut sum_fee = BigUint::zero();
    let mut sum_out = BigUint::zero();
    let mut sum_cut = BigUint::zero();
    let mut growth: u128 = 0;
    let mut began = false;
    for t in &st.trace {
        match t {
            SwapTrace::Begin { .. } => {
                if began {
                    return Err("two swap computations recorded for one single-pool swap instruction".into());
                }
                began = true;
            }
            SwapTrace::Cross(_) => stats.crossings += 1,
            SwapTrace::Step(s) => {
                stats.steps += 1;
                let r = s.total_fee_rate as u128;
                if r > 65_535 && s.fee_amount > 0 {
                    stats.steps_rate_above_16_bits += 1;
                }
                if r > 100_000 {
                    return Err(format!("step charged fee rate {r} above the 10% hard limit"));
                }
                // the rate and the liquidity are not taken on trust from the step record: the rate of a static-fee pool is the one
                // stored in the pool (an adaptive pool never charges less; its schedule is C14's), and "the liquidity in range at
                // that step" is the sum over the positions whose price range contains the step's price interval
                if !adaptive && r != p0.fee_rate as u128 {
                    return Err(format!("step charged fee rate {r} but the pool's fee rate is {}", p0.fee_rate));
                }
                if adaptive && r < p0.fee_rate as u128 {
                    return Err(format!("step charged fee rate {r}, below the pool's static rate {}", p0.fee_rate));
                }
                if s.next_price != s.sqrt_price_before {
                    let (lo, hi) = (s.next_price.min(s.sqrt_price_before), s.next_price.max(s.sqrt_price_before));
                    let mut in_range: u128 = 0;
                    for p in &w.positions {
                        if !p.exists(pre) {
                            continue;
                        }
                        let ps = p.state(pre);
                        if ps.liquidity > 0 && ps.tick_lower_index < ps.tick_upper_index && sqrt_price_from_tick_index(ps.tick_lower_index) <= lo && hi <= sqrt_price_from_tick_index(ps.tick_upper_index) {
                            in_range += ps.liquidity;
                        }
                    }
                    if in_range != s.liquidity {
                        return Err(format!(
                            "step over the price interval [{lo}, {hi}] traded against liquidity {} but the positions whose range contains that interval sum to {in_range}",
                            s.liquidity
                        ));
                    }
                }
                let is_max = s.next_price == s.bounded_sqrt_price_target;
                let expect_fee = if exact_in && !is_max {
                    stats.partial_exact_in_steps += 1;
                    bu(s.amount_remaining_before as u128) - bu(s.amount_in as u128)
                } else {
                    ceil_div(&(bu(s.amount_in as u128) * bu(r)), &bu(1_000_000 - r))
                };
                if bu(s.fee_amount as u128) != expect_fee {
                    return Err(format!(
                        "step fee {} != expected {} (in {}, rate {}, max-step {}, remaining {})",
                        s.fee_amount, expect_fee, s.amount_in, r, is_max, s.amount_remaining_before
                    ));
                }
                if s.fee_amount > 0 {
                    stats.steps_with_fee += 1;
                }
                let cut = (bu(s.fee_amount as u128) * bu(p0.protocol_fee_rate as u128)) / bu(10_000);
                if !cut.is_zero() {
                    stats.nonzero_protocol_cut += 1;
                }
                if s.liquidity > 0 {
                    let g = ((bu(s.fee_amount as u128) - &cut) << 64) / bu(s.liquidity);
                    // growth accumulates modulo 2^128
                    let g128: u128 = to_u128(&(g % pow2(128))).unwrap();
                    if g128 == 0 && !cut.is_zero() {
                        stats.cut_without_growth += 1;
                    }
                    growth = growth.wrapping_add(g128);
                } else {
                    stats.zero_liquidity_steps += 1;
                }
                sum_in += bu(s.amount_in as u128);
                sum_fee += bu(s.fee_amount as u128);
                sum_out += bu(s.amount_out as u128);
                sum_cut += cut;
            }
        }
    }
    if !began {
        return Err("hook H2 recorded no swap computation for a successful swap".into());
    }
    let o = observe_swap(pre, post, w, a_to_b, exact_in, amount, limit);
    // what the trader pays is exactly curve amount + fee, and nothing else leaves their accounts. Where a mint withholds a transfer
    // fee (Token-2022 worlds) the relation holds at the VAULTS — the pool receives curve amount + fee and gives out the curve output —
    // and the trader's side differs from it by what the mint withheld (whose size is C16's subject, not this check's)
    let paid = &sum_in + &sum_fee;
    let withholds = pre.get(&w.pool.mint_a).map(|a| a.owner == world::T22).unwrap_or(false) || pre.get(&w.pool.mint_b).map(|a| a.owner == world::T22).unwrap_or(false);
    if bu(o.vault_in as u128) != paid {
        return Err(format!("the input vault received {} but curve input + fees = {} (in {}, fee {})", o.vault_in, paid, sum_in, sum_fee));
    }
    if bu(o.vault_out as u128) != sum_out {
        return Err(format!("the output vault gave out {} but curve output = {}", o.vault_out, sum_out));
    }
    if withholds {
        if o.trader_in < o.vault_in || o.trader_out > o.vault_out {
            return Err(format!("vault deltas (+{} / -{}) against trader deltas (-{} / +{}): a transfer fee cannot be negative", o.vault_in, o.vault_out, o.trader_in, o.trader_out));
        }
    } else if o.vault_in != o.trader_in || o.vault_out != o.trader_out {
        return Err(format!("vault deltas (+{} / -{}) differ from trader deltas (-{} / +{})", o.vault_in, o.vault_out, o.trader_in, o.trader_out));
    }
    let (tf_in, tf_out) = (o.trader_in - o.vault_in, o.vault_out - o.trader_out);
    let (owed0_in, owed1_in, owed0_out, owed1_out, g0_in, g1_in, g0_out, g1_out) = if a_to_b {
        (p0.protocol_fee_owed_a, p1.protocol_fee_owed_a, p0.protocol_fee_owed_b, p1.protocol_fee_owed_b, p0.fee_growth_global_a, p1.fee_growth_global_a, p0.fee_growth_global_b, p1.fee_growth_global_b)
    } else {
        (p0.protocol_fee_owed_b, p1.protocol_fee_owed_b, p0.protocol_fee_owed_a, p1.protocol_fee_owed_a, p0.fee_growth_global_b, p1.fee_growth_global_b, p0.fee_growth_global_a, p1.fee_growth_global_a)
    };
    if bu(owed1_in as u128) != bu(owed0_in as u128) + &sum_cut {
        return Err(format!("protocol fees owed went {owed0_in} -> {owed1_in}, expected +{sum_cut}"));
    }
    if owed0_out != owed1_out || g0_out != g1_out {
        return Err("output-side protocol fee / fee growth changed during a swap".into());
    }
    if g1_in != g0_in.wrapping_add(growth) {
        return Err(format!("fee growth global went {g0_in} -> {g1_in}, expected +{growth} (mod 2^128)"));
    }
    // "all the rest accrues to the liquidity in range at that step": what the positions can newly claim after the swap (each brought
    // up to date by a real update_fees_and_rewards on copies of the pre- and the post-state) is the LP share of the steps that had
    // liquidity — never more, and less only by rounding (one growth ulp per step for every unit of 2^64 liquidity, one unit per
    // position and token)
    {
        let claims = |l: &Ledger| -> Result<(BigUint, u64), String> {
            let mut c = l.clone();
            let mut tot = BigUint::zero();
            let mut n = 0u64;
            for p in &w.positions {
                if !p.exists(&c) {
                    continue;
                }
                if p.state(&c).liquidity > 0 {
                    let upd = world::ix_update_fees_and_rewards(&p.at(&c));
                    let o = svm::process(&mut c, &upd);
                    if !o.ok() {
                        return Err(format!("update_fees_and_rewards failed: {}", o.short()));
                    }
                    n += 1;
                }
                let ps = p.state(&c);
                tot += bu(if a_to_b { ps.fee_owed_a } else { ps.fee_owed_b } as u128);
            }
            Ok((tot, n))
        };
        let (c0, _) = claims(pre)?;
        let (c1, n1) = claims(post)?;
        let mut lp_with_liquidity = BigUint::zero();
        let mut slack = bu(n1 as u128 + 1);
        for t in &st.trace {
            if let SwapTrace::Step(x) = t {
                if x.liquidity > 0 {
                    let cut = (bu(x.fee_amount as u128) * bu(p0.protocol_fee_rate as u128)) / bu(10_000);
                    lp_with_liquidity += bu(x.fee_amount as u128) - cut;
                    slack += bu(x.liquidity >> 64) + bu(n1 as u128 + 1);
                }
            }
        }
        if c1 < c0 {
            return Err(format!("the positions' claimable fees in the input token fell from {c0} to {c1} across a swap"));
        }
        let newly = &c1 - &c0;
        // (the two virtual updates floor separately: a fraction of a unit that was pending before the swap may complete to a whole
        // unit with it — at most one unit per funded position)
        if newly > &lp_with_liquidity + bu(n1 as u128) {
            return Err(format!("after the swap the positions can claim {newly} more of the input token, but the LP share of its steps is only {lp_with_liquidity}"));
        }
        if &newly + &slack < lp_with_liquidity {
            return Err(format!("after the swap the positions can claim only {newly} more of the input token; the LP share of its steps is {lp_with_liquidity} (rounding allowance {slack})"));
        }
    }
    // the emitted trade record
    let evs: Vec<Traded> = st.outcome.events.iter().filter_map(|e| decode_traded(e)).collect();
    if evs.len() != 1 {
        return Err(format!("{} Traded events emitted for one swap", evs.len()));
    }
    let e = &evs[0];
    let lp = &sum_fee - &sum_cut;
    if e.whirlpool != w.pool.addr.to_bytes()
        || e.a_to_b != a_to_b
        || e.pre_sqrt_price != p0.sqrt_price
        || e.post_sqrt_price != p1.sqrt_price
        || e.input_amount != o.trader_in
        || bu(e.output_amount as u128) != sum_out
        || bu(e.lp_fee as u128) != lp
        || bu(e.protocol_fee as u128) != sum_cut
        || e.input_transfer_fee != tf_in
        || e.output_transfer_fee != tf_out
    {
        return Err(format!("Traded event {e:?} does not match amounts moved: in {paid} (+ transfer fee {tf_in}) out {sum_out} (- transfer fee {tf_out}) lp_fee {lp} protocol_fee {sum_cut} price {} -> {}", p0.sqrt_price, p1.sqrt_price));
    }
    Ok(())
}

pub fn c06_collect_protocol_oracle(pre: &Ledger, post: &Ledger, w: &StdWorld) -> Result<(), String> {
    let p0 = w.pool.state(pre);
    let p1 = w.pool.state(post);
    let da = balance(post, &w.fee_dest.acct_a) - balance(pre, &w.fee_dest.acct_a);
    let db = balance(post, &w.fee_dest.acct_b) - balance(pre, &w.fee_dest.acct_b);
    let va = balance(pre, &w.pool.vault_a) - balance(post, &w.pool.vault_a);
    let vb = balance(pre, &w.pool.vault_b) - balance(post, &w.pool.vault_b);
    // (a Token-2022 mint may withhold a transfer fee from what the destination receives: the vault side is then the exact one)
    let t22 = |m: &solana_program::pubkey::Pubkey| pre.get(m).map(|a| a.owner == world::T22).unwrap_or(false);
    let (ok_a, ok_b) = (if t22(&w.pool.mint_a) { da <= va } else { da == va }, if t22(&w.pool.mint_b) { db <= vb } else { db == vb });
    if va != p0.protocol_fee_owed_a || vb != p0.protocol_fee_owed_b || !ok_a || !ok_b {
        return Err(format!("collect_protocol_fees paid {da}/{db} (vault -{va}/-{vb}) but {} / {} were owed", p0.protocol_fee_owed_a, p0.protocol_fee_owed_b));
    }
    if p1.protocol_fee_owed_a != 0 || p1.protocol_fee_owed_b != 0 {
        return Err(format!("protocol fees owed not reset: {} / {}", p1.protocol_fee_owed_a, p1.protocol_fee_owed_b));
    }
    Ok(())
}

// ------------------------------------------------------------------------------------------------
// C03: trader bounds
// ------------------------------------------------------------------------------------------------
#[derive(Default, Debug, Clone)]
pub struct C03Stats {
    pub swaps_ok: u64,
    pub partial_fills: u64,
    pub threshold_reruns: u64,
    pub threshold_failures_seen: u64,
    pub must_fail_variants: u64,
}

pub fn ec(e: whirlpool::errors::ErrorCode) -> u32 {
    6000 + e as u32
}

/// Oracle for one successful swap built from `ix_of(threshold)`; re-executes it with thresholds realised-1, realised, realised+1.
pub fn c03_swap_oracle(
    pre: &Ledger,
    post: &Ledger,
    w: &StdWorld,
    a_to_b: bool,
    exact_in: bool,
    amount: u64,
    limit: u128,
    ix_of: &dyn Fn(u64) -> solana_program::instruction::Instruction,
    stats: &mut C03Stats,
) -> Result<(), String> {
    let p0 = w.pool.state(pre);
    let p1 = w.pool.state(post);
    let o = observe_swap(pre, post, w, a_to_b, exact_in, amount, limit);
    stats.swaps_ok += 1;
    if exact_in && o.trader_in > amount {
        return Err(format!("exact-in swap of {amount} took {} from the trader", o.trader_in));
    }
    if !exact_in && o.trader_out > amount {
        return Err(format!("exact-out swap of {amount} delivered {}", o.trader_out));
    }
    if a_to_b && p1.sqrt_price > p0.sqrt_price || !a_to_b && p1.sqrt_price < p0.sqrt_price {
        return Err(format!("price moved against the trade direction: {} -> {}", p0.sqrt_price, p1.sqrt_price));
    }
    if p1.sqrt_price < MIN_SQRT_PRICE || p1.sqrt_price > MAX_SQRT_PRICE {
        return Err(format!("price {} outside the protocol bounds", p1.sqrt_price));
    }
    let eff_limit = if limit == 0 {
        if a_to_b {
            MIN_SQRT_PRICE
        } else {
            MAX_SQRT_PRICE
        }
    } else {
        limit
    };
    if a_to_b && p1.sqrt_price < eff_limit || !a_to_b && p1.sqrt_price > eff_limit {
        return Err(format!("price {} moved beyond the limit {}", p1.sqrt_price, eff_limit));
    }
    let used = if exact_in { o.trader_in } else { o.trader_out };
    if used < amount {
        stats.partial_fills += 1;
        if p1.sqrt_price != eff_limit {
            return Err(format!("swap used {used} of {amount} but stopped at {} which is not the limit/bound {eff_limit}", p1.sqrt_price));
        }
        if !exact_in && limit == 0 {
            return Err(format!("exact-out swap without a limit delivered only {used} of {amount}"));
        }
    }
    // thresholds: one below, equal to, one above the realised other amount
    let x = if exact_in { o.trader_out } else { o.trader_in };
    for th in [x.checked_sub(1), Some(x), x.checked_add(1)].into_iter().flatten() {
        let mut c = pre.clone();
        let r = svm::process(&mut c, &ix_of(th));
        stats.threshold_reruns += 1;
        let should_succeed = if exact_in { th <= x } else { th >= x };
        if r.ok() != should_succeed {
            return Err(format!(
                "{} swap realising {x}: threshold {th} gave {} (expected {})",
                if exact_in { "exact-in" } else { "exact-out" },
                r.short(),
                if should_succeed { "success" } else { "failure" }
            ));
        }
        if !r.ok() {
            stats.threshold_failures_seen += 1;
            let want = if exact_in { ec(whirlpool::errors::ErrorCode::AmountOutBelowMinimum) } else { ec(whirlpool::errors::ErrorCode::AmountInAboveMaximum) };
            if r.code() != Some(want) {
                return Err(format!("threshold {th} vs realised {x} failed with {} instead of error {want}", r.short()));
            }
        } else if c.fingerprint() != post.fingerprint() {
            return Err(format!("swap outcome depends on the threshold value ({th})"));
        }
    }
    Ok(())
}

pub fn is_swap(op: &Op) -> bool {
    matches!(op, Op::Swap { .. })
}

pub fn swap_limit_of(pre: &Ledger, w: &StdWorld, op: &Op) -> u128 {
    match op {
        Op::Swap { a_to_b, lim, .. } => ops::resolve_limit(pre, &w.pool, *a_to_b, *lim),
        _ => 0,
    }
}
