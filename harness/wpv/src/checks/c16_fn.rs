//! C16 (function level) — Token-2022 transfer-fee arithmetic and the Pinocchio TLV parser (DESIGN §C16, Engine B).
//!
//! Code under test (called directly, on mint byte images produced with the real Token-2022 processor / extension API):
//!   Anchor   : `whirlpool::util::{calculate_transfer_fee_excluded_amount, calculate_transfer_fee_included_amount}`
//!              (through `get_epoch_transfer_fee`, `StateWithExtensions`, `Clock::get()`)
//!   Pinocchio: `ported::util_token::{pino_calculate_transfer_fee_excluded_amount, pino_calculate_transfer_fee_included_amount}`
//!              (through the hand-written `parse_token_extensions`, the private `pino_get_epoch_transfer_fee`, pinocchio's Clock)
//!
//! Reference (exact, num-bigint):  fee(x) = 0 if bps = 0 or x = 0, else min(ceil(x*bps/10^4), max);  g(x) = x - fee(x).
//!   excluded(x) must succeed with (amount, fee) = (g(x), fee(x))           [so amount + fee = x]
//!   included(y) = Ok(x, f): f = fee(x), x - f = y, and x = 0 or g(x-1) < y  [x is THE least amount whose fee-reduced value is y]
//!               = Err     : only allowed when no x in u64 has g(x) = y. Because fee(x+1)-fee(x) is 0 or 1 for bps <= 10^4
//!                           (asserted on every evaluated pair), g is monotone with unit steps from g(0) = 0, so a solution
//!                           exists iff y <= g(u64::MAX).
//!   Anchor result == Pinocchio result on every input (values, success/failure, error code).
//!   epoch rule: the newer schedule applies iff clock epoch >= newer.epoch (what Token-2022's `get_epoch_fee` does).
//!
//! Part (a): bps x maximum-fee alphabet x amount alphabet x {epoch before / equal / after newer.epoch}.
//! Part (b): TLV layouts built by the real processor (subsets x insertion position of TransferFeeConfig, all orders of <= 3
//!           extensions, TokenMetadata (variable length) appended where a metadata pointer exists, no fee config, plain mints);
//!           the Pinocchio parser's view and the fee it applies must equal `StateWithExtensions<Mint>` + `get_epoch_fee`.
use crate::report::{Ctx, Report};
use crate::world::{base_ledger, mint_authority, T22Ext, T22, TOKEN};
use anchor_lang::prelude::{AccountInfo, InterfaceAccount, Pubkey};
use anchor_spl::token_2022_extensions::spl_token_metadata_interface;
use anchor_spl::token_interface::Mint;
use num_bigint::BigUint;
use num_integer::Integer;
use num_traits::{ToPrimitive, Zero};
use rayon::prelude::*;
use serde_json::{json, Value};
use spl_token_2022::extension::transfer_fee::TransferFeeConfig;
use spl_token_2022::extension::{BaseStateWithExtensions, BaseStateWithExtensionsMut, StateWithExtensions, StateWithExtensionsMut};
use std::panic::{catch_unwind, AssertUnwindSafe};
use std::sync::atomic::{AtomicBool, AtomicU64, Ordering};
use svm::keys::key;
use svm::{Acct, Ledger};
use whirlpool::pinocchio::verif_export::ported::util_token as pino;
use whirlpool::pinocchio::verif_export::state::token::extensions::parse_token_extensions;
use whirlpool::util::{calculate_transfer_fee_excluded_amount, calculate_transfer_fee_included_amount};

const OLDER_EPOCH: u64 = 98;
const NEWER_EPOCH: u64 = 100;
const MAX_FEES: [u64; 7] = [0, 1, 2, 1000, 1_000_000_000, u64::MAX - 1, u64::MAX];
/// thorough tier adds these maximum fees
const MAX_FEES_MORE: [u64; 4] = [3, 255, 1 << 32, 1 << 63];
/// (upper end of the dense small-amount range, radius around each boundary amount)
#[derive(Clone, Copy)]
struct Grid {
    small_hi: u64,
    radius: i128,
}
const GRID_QUICK: Grid = Grid { small_hi: 256, radius: 2 };
const GRID_THOROUGH: Grid = Grid { small_hi: 512, radius: 8 };
const BPS_ALPHABET: [u16; 8] = [0, 1, 2, 50, 100, 5000, 9999, 10000];

// ------------------------------------------------------------------------------------------------
// exact reference
// ------------------------------------------------------------------------------------------------
#[derive(Clone, Copy, Debug, PartialEq, Eq)]
struct Fee {
    bps: u16,
    max: u64,
}
/// raw (uncapped) fee ceil(x*bps/10^4), exact
fn ref_raw_fee(f: Fee, x: u64) -> BigUint {
    let n = BigUint::from(x) * BigUint::from(f.bps);
    let (q, r) = n.div_rem(&BigUint::from(10_000u32));
    if r.is_zero() {
        q
    } else {
        q + 1u32
    }
}
fn ref_fee(f: Fee, x: u64) -> u64 {
    if f.bps == 0 || x == 0 {
        return 0;
    }
    let raw = ref_raw_fee(f, x);
    let m = BigUint::from(f.max);
    if raw < m {
        raw.to_u64().unwrap()
    } else {
        f.max
    }
}
fn ref_g(f: Fee, x: u64) -> u64 {
    x - ref_fee(f, x) // fee(x) <= x because bps <= 10^4
}
/// least x with g(x) >= y (only used to print the expected value of a violation)
fn ref_least_preimage(f: Fee, y: u64) -> Option<u64> {
    if ref_g(f, u64::MAX) < y {
        return None;
    }
    let (mut lo, mut hi) = (0u64, u64::MAX);
    while lo < hi {
        let mid = lo + (hi - lo) / 2;
        if ref_g(f, mid) >= y {
            hi = mid
        } else {
            lo = mid + 1
        }
    }
    Some(lo)
}

// ------------------------------------------------------------------------------------------------
// calling the two implementations
// ------------------------------------------------------------------------------------------------
#[derive(Clone, Copy, Debug, PartialEq, Eq)]
enum Out {
    Ok(u64, u64), // (amount, transfer_fee)
    Err(u64),     // program error code as returned to the runtime
    Panic,
}
impl Out {
    fn show(&self) -> String {
        match self {
            Out::Ok(a, f) => format!("Ok(amount={a}, fee={f})"),
            Out::Err(c) => format!("Err({c:#x})"),
            Out::Panic => "panic".into(),
        }
    }
}

fn anchor_err(e: anchor_lang::error::Error) -> u64 {
    let pe: solana_program::program_error::ProgramError = e.into();
    pe.into()
}

/// Pinocchio account: loader-format header (88 bytes) followed by the data, 8-byte aligned.
struct PinoAcct {
    buf: Vec<u64>,
}
impl PinoAcct {
    fn new(key: &Pubkey, owner: &Pubkey, data: &[u8]) -> Self {
        let total = 88 + data.len();
        let mut buf = vec![0u64; total / 8 + 2];
        let p = buf.as_mut_ptr() as *mut u8;
        unsafe {
            *p = 0xff; // NON_DUP_MARKER: nothing borrowed
            std::ptr::copy_nonoverlapping(key.as_ref().as_ptr(), p.add(8), 32);
            std::ptr::copy_nonoverlapping(owner.as_ref().as_ptr(), p.add(40), 32);
            *(p.add(72) as *mut u64) = 1; // lamports
            *(p.add(80) as *mut u64) = data.len() as u64;
            std::ptr::copy_nonoverlapping(data.as_ptr(), p.add(88), data.len());
        }
        PinoAcct { buf }
    }
    fn info(&mut self) -> pinocchio::account_info::AccountInfo {
        // AccountInfo is #[repr(C)] { raw: *mut Account }
        unsafe { std::mem::transmute::<*mut u8, pinocchio::account_info::AccountInfo>(self.buf.as_mut_ptr() as *mut u8) }
    }
    fn borrow_state(&self) -> u8 {
        (self.buf[0] & 0xff) as u8
    }
}

/// One mint image seen by both implementations.
struct Both<'a> {
    anchor: InterfaceAccount<'a, Mint>,
    pino: pinocchio::account_info::AccountInfo,
}
impl Both<'_> {
    fn excluded(&self, x: u64) -> (Out, Out) {
        let a = match catch_unwind(AssertUnwindSafe(|| calculate_transfer_fee_excluded_amount(&self.anchor, x))) {
            Ok(Ok(v)) => Out::Ok(v.amount, v.transfer_fee),
            Ok(Err(e)) => Out::Err(anchor_err(e)),
            Err(_) => Out::Panic,
        };
        let p = match catch_unwind(AssertUnwindSafe(|| pino::pino_calculate_transfer_fee_excluded_amount(&self.pino, x))) {
            Ok(Ok(v)) => Out::Ok(v.amount, v.transfer_fee),
            Ok(Err(e)) => Out::Err(e.into()),
            Err(_) => Out::Panic,
        };
        (a, p)
    }
    fn included(&self, y: u64) -> (Out, Out) {
        let a = match catch_unwind(AssertUnwindSafe(|| calculate_transfer_fee_included_amount(&self.anchor, y))) {
            Ok(Ok(v)) => Out::Ok(v.amount, v.transfer_fee),
            Ok(Err(e)) => Out::Err(anchor_err(e)),
            Err(_) => Out::Panic,
        };
        let p = match catch_unwind(AssertUnwindSafe(|| pino::pino_calculate_transfer_fee_included_amount(&self.pino, y))) {
            Ok(Ok(v)) => Out::Ok(v.amount, v.transfer_fee),
            Ok(Err(e)) => Out::Err(e.into()),
            Err(_) => Out::Panic,
        };
        (a, p)
    }
}

/// Run `f` with both views of the mint image `data` owned by `owner`, clock epoch `epoch` (this thread).
fn with_mint<T>(data: &[u8], owner: Pubkey, epoch: u64, f: impl FnOnce(&Both) -> T) -> Result<T, String> {
    svm::set_clock(1_700_000_000, epoch);
    let k = key("c16_fn_mint");
    let mut lamports = 1u64;
    let mut d = data.to_vec();
    let info = AccountInfo::new(&k, false, false, &mut lamports, &mut d, &owner, false, 0);
    let anchor = InterfaceAccount::<Mint>::try_from(&info).map_err(|e| format!("InterfaceAccount<Mint>::try_from failed: {e:?}"))?;
    let mut pa = PinoAcct::new(&k, &owner, data);
    let both = Both { anchor, pino: pa.info() };
    let out = f(&both);
    if pa.borrow_state() != 0xff {
        return Err("pinocchio account left borrowed".into());
    }
    Ok(out)
}

// ------------------------------------------------------------------------------------------------
// oracle for one amount
// ------------------------------------------------------------------------------------------------
#[derive(Default, Clone)]
struct Stats {
    evaluations: u64,
    nontrivial: u64,
    cap_binds: u64,
    cap_exact: u64,
    cap_not_binding: u64,
    fee_zero: u64,
    older_selected: u64,
    cap_only: u64,
    newer_equal: u64,
    newer_after: u64,
    bps10000_inc_ok: u64,
    bps10000_inc_err: u64,
    inc_ok: u64,
    inc_err: u64,
    inc_not_unique: u64,
    inc_minimality_checked: u64,
    configs: u64,
    bad: Vec<(String, String, Value)>,
}
impl Stats {
    fn merge(mut self, o: Stats) -> Stats {
        self.evaluations += o.evaluations;
        self.nontrivial += o.nontrivial;
        self.cap_binds += o.cap_binds;
        self.cap_exact += o.cap_exact;
        self.cap_not_binding += o.cap_not_binding;
        self.fee_zero += o.fee_zero;
        self.older_selected += o.older_selected;
        self.cap_only += o.cap_only;
        self.newer_equal += o.newer_equal;
        self.newer_after += o.newer_after;
        self.bps10000_inc_ok += o.bps10000_inc_ok;
        self.bps10000_inc_err += o.bps10000_inc_err;
        self.inc_ok += o.inc_ok;
        self.inc_err += o.inc_err;
        self.inc_not_unique += o.inc_not_unique;
        self.inc_minimality_checked += o.inc_minimality_checked;
        self.configs += o.configs;
        for b in o.bad {
            if self.bad.len() < 16 {
                self.bad.push(b);
            }
        }
        self
    }
}

/// `excluded(x)` against the reference. Returns Err(detail) on a violation.
fn check_excluded(f: Option<Fee>, x: u64, a: Out, p: Out, st: &mut Stats) -> Result<(), String> {
    st.evaluations += 1;
    if a != p {
        return Err(format!("excluded({x}): Anchor {} != Pinocchio {}", a.show(), p.show()));
    }
    let fee = match f {
        None => 0,
        Some(f) => {
            let fee = ref_fee(f, x);
            if f.bps > 0 && x > 0 {
                let raw = ref_raw_fee(f, x);
                let m = BigUint::from(f.max);
                if raw > m {
                    st.cap_binds += 1
                } else if raw == m {
                    st.cap_exact += 1
                } else {
                    st.cap_not_binding += 1
                }
            }
            fee
        }
    };
    if fee > 0 {
        st.nontrivial += 1
    } else {
        st.fee_zero += 1
    }
    match a {
        Out::Ok(amount, tf) => {
            if tf != fee {
                return Err(format!("excluded({x}): fee {tf}, reference min(ceil(x*bps/10^4), max) = {fee}"));
            }
            if amount as u128 + tf as u128 != x as u128 {
                return Err(format!("excluded({x}): amount {amount} + fee {tf} != {x}"));
            }
            Ok(())
        }
        other => Err(format!("excluded({x}) did not succeed: {} (reference: amount {}, fee {fee})", other.show(), x - fee)),
    }
}

/// `included(y)` against the reference; `g_max` = g(u64::MAX) for this fee.
fn check_included(f: Option<Fee>, y: u64, g_max: u64, a: Out, p: Out, st: &mut Stats) -> Result<(), String> {
    st.evaluations += 1;
    if a != p {
        return Err(format!("included({y}): Anchor {} != Pinocchio {}", a.show(), p.show()));
    }
    let fz = f.unwrap_or(Fee { bps: 0, max: 0 });
    match a {
        Out::Ok(x, tf) => {
            st.inc_ok += 1;
            if fz.bps == 10_000 && y > 0 {
                st.bps10000_inc_ok += 1;
            }
            let fx = ref_fee(fz, x);
            if fx > 0 {
                st.nontrivial += 1;
            }
            if tf != fx {
                return Err(format!("included({y}) = (amount {x}, fee {tf}) but the reference fee of {x} is {fx}"));
            }
            if x < tf || x - tf != y {
                return Err(format!("included({y}) = (amount {x}, fee {tf}): fee-reduced value is {} not {y}", x as i128 - tf as i128));
            }
            if x > 0 {
                st.inc_minimality_checked += 1;
                let gp = ref_g(fz, x - 1);
                if gp + 1 != y && gp != y {
                    return Err(format!("oracle sanity: g({}) = {gp}, g({x}) = {y} is not a unit step", x - 1));
                }
                if gp >= y {
                    let least = ref_least_preimage(fz, y);
                    return Err(format!("included({y}) = {x} is not the smallest: {} - fee({}) = {gp} as well; least amount is {least:?}", x - 1, x - 1));
                }
                if x < u64::MAX && ref_g(fz, x + 1) == y {
                    st.inc_not_unique += 1;
                }
            }
            Ok(())
        }
        Out::Err(code) => {
            st.inc_err += 1;
            st.nontrivial += 1;
            if fz.bps == 10_000 {
                st.bps10000_inc_err += 1;
            }
            if y <= g_max {
                let least = ref_least_preimage(fz, y);
                return Err(format!("included({y}) failed with {code:#x} although amount {least:?} has fee-reduced value {y} and fits in u64"));
            }
            Ok(())
        }
        Out::Panic => {
            st.inc_err += 1;
            if y <= g_max {
                return Err(format!("included({y}) panicked although a u64 solution exists ({:?})", ref_least_preimage(fz, y)));
            }
            Ok(())
        }
    }
}

// ------------------------------------------------------------------------------------------------
// mint images
// ------------------------------------------------------------------------------------------------
fn builtin(l: &mut Ledger, ix: &solana_program::instruction::Instruction, what: &str) -> Result<(), String> {
    svm::process_builtin(l, ix).map_err(|m| format!("{what}: {m}"))
}

/// Token-2022 mint through the real processor: extension initialisers in the given order (= TLV order), then InitializeMint2.
fn build_t22_mint(l: &mut Ledger, k: Pubkey, ext: &[T22Ext]) -> Result<(), String> {
    use spl_token_2022::extension::ExtensionType;
    if l.get(&mint_authority()).is_none() {
        l.put_system(mint_authority(), crate::world::RICH);
    }
    let types: Vec<ExtensionType> = ext.iter().map(|e| e.ext_type()).collect();
    let space = ExtensionType::try_calculate_account_len::<spl_token_2022::state::Mint>(&types).map_err(|e| format!("{e:?}"))?;
    l.put(k, Acct { lamports: 1_000_000_000, data: vec![0u8; space], owner: T22, executable: false });
    for e in ext {
        builtin(l, &e.init_ix(&k), &format!("init {e:?}"))?;
    }
    let freeze = key("c16_fn_freeze");
    let i = spl_token_2022::instruction::initialize_mint2(&T22, &k, &mint_authority(), Some(&freeze), 6).map_err(|e| format!("{e:?}"))?;
    builtin(l, &i, "initialize_mint2")
}

/// Mint with TransferFeeConfig whose two schedules were produced by the REAL instructions:
/// InitializeTransferFeeConfig at epoch OLDER_EPOCH, then SetTransferFee at the same epoch (effective NEWER_EPOCH = +2).
fn real_two_schedule_image(older: Fee, newer: Fee) -> Result<Vec<u8>, String> {
    let mut l = base_ledger();
    l.epoch = OLDER_EPOCH;
    let k = key("c16_fn_real_mint");
    build_t22_mint(&mut l, k, &[T22Ext::TransferFee { bps: older.bps, max: older.max }])?;
    let i = spl_token_2022::extension::transfer_fee::instruction::set_transfer_fee(&T22, &k, &mint_authority(), &[], newer.bps, newer.max)
        .map_err(|e| format!("{e:?}"))?;
    builtin(&mut l, &i, "set_transfer_fee")?;
    Ok(l.data(&k).to_vec())
}

/// Write both schedules with the real extension API (`StateWithExtensionsMut::get_extension_mut::<TransferFeeConfig>`).
fn patch_fee_config(image: &mut [u8], older: Fee, newer: Fee) {
    let mut st = StateWithExtensionsMut::<spl_token_2022::state::Mint>::unpack(image).expect("template mint unpacks");
    let c = st.get_extension_mut::<TransferFeeConfig>().expect("template has TransferFeeConfig");
    c.older_transfer_fee.epoch = OLDER_EPOCH.into();
    c.older_transfer_fee.transfer_fee_basis_points = older.bps.into();
    c.older_transfer_fee.maximum_fee = older.max.into();
    c.newer_transfer_fee.epoch = NEWER_EPOCH.into();
    c.newer_transfer_fee.transfer_fee_basis_points = newer.bps.into();
    c.newer_transfer_fee.maximum_fee = newer.max.into();
}

/// The schedule entry that is NOT in force. kind 0: rate and cap both differ; kind 1: the same rate, only the cap differs
/// (a cap-only change is pending / has happened); kind 2: the same cap, only the rate differs.
fn decoy(f: Fee, kind: u8) -> Fee {
    let bps = ((f.bps as u32 + 3333) % 10_001) as u16;
    let max = f.max ^ 0x5555;
    match kind {
        0 => Fee { bps, max },
        1 => Fee { bps: f.bps, max },
        _ => Fee { bps, max: f.max },
    }
}
/// scenario % 3 = 0: clock epoch NEWER-1, the fee under test sits in the OLDER slot (decoy in newer);
/// 1: clock epoch == NEWER; 2: NEWER+1 — the fee under test sits in the NEWER slot (decoy in older). scenario / 3 = decoy kind.
fn scenario_image(template: &[u8], f: Fee, scenario: u8) -> (Vec<u8>, u64) {
    let mut img = template.to_vec();
    let d = decoy(f, scenario / 3);
    match scenario % 3 {
        0 => {
            patch_fee_config(&mut img, f, d);
            (img, NEWER_EPOCH - 1)
        }
        1 => {
            patch_fee_config(&mut img, d, f);
            (img, NEWER_EPOCH)
        }
        _ => {
            patch_fee_config(&mut img, d, f);
            (img, NEWER_EPOCH + 1)
        }
    }
}

fn amounts_for(f: Fee, grid: Grid) -> Vec<u64> {
    let mut v: Vec<u64> = (0..=grid.small_hi).collect();
    let m = u64::MAX;
    v.extend([(1u64 << 32) - 1, 1 << 32, (1 << 32) + 1, (1u64 << 63) - 1, 1 << 63, (1u64 << 63) + 1, m - 2, m - 1, m]);
    let mut around = |c: u128| {
        for d in -grid.radius..=grid.radius {
            let x = c as i128 + d;
            if x >= 0 && x <= m as i128 {
                v.push(x as u64);
            }
        }
    };
    if f.bps > 0 {
        // gross amount at which the cap starts to bind, and the corresponding net amount
        let xc = f.max as u128 * 10_000 / f.bps as u128;
        around(xc);
        around(xc.saturating_sub(f.max as u128));
    }
    // included(): y + max overflows beyond this point
    around((m - f.max) as u128);
    if f.bps < 10_000 {
        // included(): the uncapped inverse ceil(y*10^4/(10^4-bps)) overflows beyond this point
        around(m as u128 * (10_000 - f.bps as u128) / 10_000);
    }
    v.sort_unstable();
    v.dedup();
    v
}

fn case_amount(f: Fee, scenario: u8, func: &str, amount: u64) -> Value {
    json!({"kind":"fn_amount","bps":f.bps,"max":f.max.to_string(),"scenario":scenario,"func":func,"amount":amount.to_string()})
}

/// All amounts for one (fee, scenario).
fn eval_config(template: &[u8], f: Fee, scenario: u8, grid: Grid, st: &mut Stats) {
    let (img, epoch) = scenario_image(template, f, scenario);
    let amounts = amounts_for(f, grid);
    let g_max = ref_g(f, u64::MAX);
    st.configs += 1;
    let r = with_mint(&img, T22, epoch, |b| {
        for &x in &amounts {
            match scenario % 3 {
                0 => st.older_selected += 2,
                1 => st.newer_equal += 2,
                _ => st.newer_after += 2,
            }
            if scenario / 3 == 1 {
                st.cap_only += 2;
            }
            let (a, p) = b.excluded(x);
            if let Err(d) = check_excluded(Some(f), x, a, p, st) {
                if st.bad.len() < 4 {
                    st.bad.push((
                        format!("fn:excluded:bps={},max={},sc={scenario},x={x}", f.bps, f.max),
                        format!("bps={} max={} epoch={epoch} (newer.epoch={NEWER_EPOCH}): {d}", f.bps, f.max),
                        case_amount(f, scenario, "excluded", x),
                    ));
                }
            }
            let (a, p) = b.included(x);
            if let Err(d) = check_included(Some(f), x, g_max, a, p, st) {
                if st.bad.len() < 4 {
                    st.bad.push((
                        format!("fn:included:bps={},max={},sc={scenario},y={x}", f.bps, f.max),
                        format!("bps={} max={} epoch={epoch} (newer.epoch={NEWER_EPOCH}): {d}", f.bps, f.max),
                        case_amount(f, scenario, "included", x),
                    ));
                }
            }
        }
    });
    if let Err(e) = r {
        st.bad.push((format!("fn:machinery:bps={},max={}", f.bps, f.max), e, case_amount(f, scenario, "excluded", 0)));
    }
}

fn template_image() -> Vec<u8> {
    real_two_schedule_image(Fee { bps: 0, max: 0 }, Fee { bps: 0, max: 0 }).expect("template mint builds with the real processor")
}

// ------------------------------------------------------------------------------------------------
// part (b): TLV layouts
// ------------------------------------------------------------------------------------------------
const TLV_OLD: Fee = Fee { bps: 123, max: 4567 };
const TLV_NEW: Fee = Fee { bps: 250, max: 9000 };
const TLV_INIT_EPOCH: u64 = 10;
const TLV_SET_EPOCH: u64 = 20; // newer.epoch = 22
const TLV_OTHERS: [&str; 10] = [
    "MintCloseAuthority",
    "PermanentDelegate",
    "InterestBearing",
    "MetadataPointer",
    "DefaultAccountState",
    "TransferHook",
    "GroupPointer",
    "Pausable",
    "GroupMemberPointer",
    "NonTransferable",
];
const FEE: &str = "TransferFeeConfig";
const META: &str = "+TokenMetadata"; // variable-length entry appended by the real TokenMetadata Initialize instruction

fn ext_by_name(n: &str) -> Option<T22Ext> {
    Some(match n {
        "TransferFeeConfig" => T22Ext::TransferFee { bps: TLV_OLD.bps, max: TLV_OLD.max },
        "MintCloseAuthority" => T22Ext::MintCloseAuthority(key("c16_fn_close")),
        "PermanentDelegate" => T22Ext::PermanentDelegate(key("c16_fn_delegate")),
        "InterestBearing" => T22Ext::InterestBearing(77),
        "MetadataPointer" => T22Ext::MetadataPointer,
        "DefaultAccountState" => T22Ext::DefaultAccountState(2),
        "TransferHook" => T22Ext::TransferHook(Some(key("c16_fn_hook"))),
        // a hook extension whose program id is unset (authority only, or program cleared later): present in the TLV, inert
        "TransferHookNoProgram" => T22Ext::TransferHook(None),
        "GroupPointer" => T22Ext::GroupPointer,
        "Pausable" => T22Ext::Pausable,
        "GroupMemberPointer" => T22Ext::GroupMemberPointer,
        "NonTransferable" => T22Ext::NonTransferable,
        _ => return None,
    })
}

/// Build the layout through the real processor. `names` is the TLV order; a trailing "+TokenMetadata" appends real metadata.
fn build_layout(names: &[String]) -> Result<Vec<u8>, String> {
    let mut l = base_ledger();
    l.epoch = TLV_INIT_EPOCH;
    let k = key("c16_fn_tlv_mint");
    let with_meta = names.last().map(|s| s == META).unwrap_or(false);
    let core: &[String] = if with_meta { &names[..names.len() - 1] } else { names };
    let exts: Vec<T22Ext> = core.iter().map(|n| ext_by_name(n).ok_or(format!("unknown extension {n}"))).collect::<Result<_, _>>()?;
    build_t22_mint(&mut l, k, &exts)?;
    if core.iter().any(|n| n == FEE) {
        l.epoch = TLV_SET_EPOCH;
        let i = spl_token_2022::extension::transfer_fee::instruction::set_transfer_fee(&T22, &k, &mint_authority(), &[], TLV_NEW.bps, TLV_NEW.max)
            .map_err(|e| format!("{e:?}"))?;
        builtin(&mut l, &i, "set_transfer_fee")?;
    }
    if with_meta {
        let i = spl_token_metadata_interface::instruction::initialize(
            &T22,
            &k,
            &mint_authority(),
            &k,
            &mint_authority(),
            "C16 verification token".to_string(),
            "C16".to_string(),
            "https://example.invalid/c16.json".to_string(),
        );
        builtin(&mut l, &i, "token metadata initialize")?;
    }
    Ok(l.data(&k).to_vec())
}

#[derive(Default, Clone)]
struct TlvStats {
    layouts: u64,
    unbuildable: u64,
    evaluations: u64,
    nontrivial: u64,
    fee_first: u64,
    fee_middle: u64,
    fee_last: u64,
    fee_absent: u64,
    with_metadata: u64,
    older: u64,
    newer: u64,
    bad: Vec<(String, String, Value)>,
}
impl TlvStats {
    fn merge(mut self, o: TlvStats) -> TlvStats {
        self.layouts += o.layouts;
        self.unbuildable += o.unbuildable;
        self.evaluations += o.evaluations;
        self.nontrivial += o.nontrivial;
        self.fee_first += o.fee_first;
        self.fee_middle += o.fee_middle;
        self.fee_last += o.fee_last;
        self.fee_absent += o.fee_absent;
        self.with_metadata += o.with_metadata;
        self.older += o.older;
        self.newer += o.newer;
        for b in o.bad {
            if self.bad.len() < 8 {
                self.bad.push(b);
            }
        }
        self
    }
}

const TLV_PROBES: [u64; 9] = [0, 1, 2, 99, 10_000, 12_345, 1_000_000_007, u64::MAX - 1, u64::MAX];

/// Everything compared for one mint image at one clock epoch. `Err` = violation detail.
fn check_image(data: &[u8], owner: Pubkey, epoch: u64, st: &mut TlvStats) -> Result<(), String> {
    // what Token-2022 itself says
    let real: Option<(TransferFeeConfig, Fee)> = if owner == TOKEN {
        None
    } else {
        let s = StateWithExtensions::<spl_token_2022::state::Mint>::unpack(data).map_err(|e| format!("machinery: real unpack failed {e:?}"))?;
        match s.get_extension::<TransferFeeConfig>() {
            Ok(c) => {
                let ef = c.get_epoch_fee(epoch);
                Some((*c, Fee { bps: u16::from(ef.transfer_fee_basis_points), max: u64::from(ef.maximum_fee) }))
            }
            Err(_) => None,
        }
    };
    // the hand-written parser's view, field by field
    let tlv: &[u8] = if data.len() <= 166 { &[] } else { &data[166..] };
    match catch_unwind(AssertUnwindSafe(|| parse_token_extensions(tlv))) {
        Err(_) => return Err("parse_token_extensions panicked".into()),
        Ok(Err(e)) => return Err(format!("parse_token_extensions failed with {:#x} on a mint Token-2022 accepts", u64::from(e))),
        Ok(Ok(x)) => match (x.transfer_fee_config, &real) {
            (None, None) => {}
            (Some(_), None) => return Err("Pinocchio parser finds a TransferFeeConfig, Token-2022 does not".into()),
            (None, Some(_)) => return Err("Pinocchio parser misses the TransferFeeConfig that Token-2022 finds".into()),
            (Some(c), Some((rc, _))) => {
                let mine = [
                    c.older_transfer_fee_epoch(),
                    c.older_transfer_fee_maximum_fee(),
                    c.older_transfer_fee_transfer_fee_basis_points() as u64,
                    c.newer_transfer_fee_epoch(),
                    c.newer_transfer_fee_maximum_fee(),
                    c.newer_transfer_fee_transfer_fee_basis_points() as u64,
                ];
                let theirs = [
                    u64::from(rc.older_transfer_fee.epoch),
                    u64::from(rc.older_transfer_fee.maximum_fee),
                    u16::from(rc.older_transfer_fee.transfer_fee_basis_points) as u64,
                    u64::from(rc.newer_transfer_fee.epoch),
                    u64::from(rc.newer_transfer_fee.maximum_fee),
                    u16::from(rc.newer_transfer_fee.transfer_fee_basis_points) as u64,
                ];
                if mine != theirs {
                    return Err(format!(
                        "Pinocchio view of TransferFeeConfig (older epoch/max/bps, newer epoch/max/bps) = {mine:?}, Token-2022 = {theirs:?}"
                    ));
                }
            }
        },
    }
    st.evaluations += 1;
    // the fee actually applied by both implementations (probes 10^4 and u64::MAX reveal bps and max: bps <= max <= cap point)
    let f = real.as_ref().map(|r| r.1);
    let g_max = f.map(|f| ref_g(f, u64::MAX)).unwrap_or(u64::MAX);
    let mut tmp = Stats::default();
    let res = with_mint(data, owner, epoch, |b| -> Result<(), String> {
        for &x in &TLV_PROBES {
            let (a, p) = b.excluded(x);
            check_excluded(f, x, a, p, &mut tmp).map_err(|d| format!("epoch fee {f:?}: {d}"))?;
            let (a, p) = b.included(x);
            check_included(f, x, g_max, a, p, &mut tmp).map_err(|d| format!("epoch fee {f:?}: {d}"))?;
        }
        Ok(())
    })?;
    st.evaluations += tmp.evaluations;
    st.nontrivial += tmp.nontrivial;
    res
}

fn layout_case(names: &[String], epoch: u64) -> Value {
    json!({"kind":"fn_tlv","layout":names,"epoch":epoch})
}

fn eval_layout(names: &[String], st: &mut TlvStats) {
    let data = match build_layout(names) {
        Ok(d) => d,
        Err(_) => {
            st.unbuildable += 1;
            return;
        }
    };
    st.layouts += 1;
    let n = names.len();
    match names.iter().position(|s| s == FEE) {
        None => st.fee_absent += 1,
        Some(0) if n > 1 => st.fee_first += 1,
        Some(i) if i == n - 1 && n > 1 => st.fee_last += 1,
        Some(_) if n > 1 => st.fee_middle += 1,
        Some(_) => {}
    }
    if names.last().map(|s| s == META).unwrap_or(false) {
        st.with_metadata += 1;
    }
    let newer = TLV_SET_EPOCH + 2;
    for epoch in [newer - 1, newer, newer + 1] {
        if names.iter().any(|s| s == FEE) {
            if epoch < newer {
                st.older += 1
            } else {
                st.newer += 1
            }
        }
        if let Err(d) = check_image(&data, T22, epoch, st) {
            if st.bad.len() < 4 {
                st.bad.push((format!("fn:tlv:{}:e{epoch}", names.join(",")), format!("TLV order {names:?}, clock epoch {epoch} (newer.epoch {newer}): {d}"), layout_case(names, epoch)));
            }
        }
    }
}

fn tlv_layouts(n_others: usize) -> Vec<Vec<String>> {
    let others = &TLV_OTHERS[..n_others];
    let mut out: Vec<Vec<String>> = vec![];
    // every subset of the other extensions (canonical order), the fee config absent or inserted at every position
    for mask in 0u32..(1 << n_others) {
        let sub: Vec<String> = others.iter().enumerate().filter(|(i, _)| mask >> i & 1 == 1).map(|(_, s)| s.to_string()).collect();
        out.push(sub.clone());
        for pos in 0..=sub.len() {
            let mut v = sub.clone();
            v.insert(pos, FEE.to_string());
            out.push(v);
        }
    }
    // every ordered selection of <= 3 distinct extensions from {fee config} + others
    let mut uni: Vec<&str> = vec![FEE];
    uni.extend_from_slice(others);
    for a in 0..uni.len() {
        out.push(vec![uni[a].to_string()]);
        for b in 0..uni.len() {
            if b == a {
                continue;
            }
            out.push(vec![uni[a].to_string(), uni[b].to_string()]);
            for c in 0..uni.len() {
                if c == a || c == b {
                    continue;
                }
                out.push(vec![uni[a].to_string(), uni[b].to_string(), uni[c].to_string()]);
            }
        }
    }
    out.sort();
    out.dedup();
    // real variable-length TokenMetadata appended wherever the mint points at itself for metadata
    let with_meta: Vec<Vec<String>> = out
        .iter()
        .filter(|v| v.iter().any(|s| s == "MetadataPointer"))
        .map(|v| {
            let mut w = v.clone();
            w.push(META.to_string());
            w
        })
        .collect();
    out.extend(with_meta);
    // the same layouts with the hook's program id unset, for every layout of at most four entries that carries a hook
    let with_inert: Vec<Vec<String>> = out
        .iter()
        .filter(|v| v.len() <= 4 && v.iter().any(|n| n == "TransferHook"))
        .map(|v| v.iter().map(|n| if n == "TransferHook" { "TransferHookNoProgram".to_string() } else { n.clone() }).collect())
        .collect();
    out.extend(with_inert);
    out
}

fn plain_mint_image() -> Vec<u8> {
    use solana_program::program_option::COption;
    use solana_program::program_pack::Pack;
    let mut d = vec![0u8; spl_token::state::Mint::LEN];
    spl_token::state::Mint { mint_authority: COption::Some(mint_authority()), supply: 0, decimals: 6, is_initialized: true, freeze_authority: COption::None }
        .pack_into_slice(&mut d);
    d
}

// ------------------------------------------------------------------------------------------------
// entry points
// ------------------------------------------------------------------------------------------------
pub fn run_fn(ctx: &Ctx, r: &mut Report) {
    let t0 = ctx.elapsed();
    let template = template_image();

    // ---- the patched images are what the real instructions produce (InitializeTransferFeeConfig + SetTransferFee) ----
    let mut real_images = 0u64;
    for &b_new in &BPS_ALPHABET {
        for &m_new in &MAX_FEES {
            let newer = Fee { bps: b_new, max: m_new };
            let older = decoy(newer, 0);
            match real_two_schedule_image(older, newer) {
                Ok(real) => {
                    let mut p = template.clone();
                    patch_fee_config(&mut p, older, newer);
                    if p != real {
                        r.violation(
                            format!("fn:machinery:image:{b_new}:{m_new}"),
                            format!("machinery: extension-API image differs from the image made by the real SetTransferFee instruction (older {older:?}, newer {newer:?})"),
                            json!({"kind":"fn_image","bps":b_new,"max":m_new.to_string()}),
                        );
                    }
                    real_images += 1;
                }
                Err(e) => r.violation(format!("fn:machinery:image:{b_new}:{m_new}"), format!("machinery: {e}"), json!({"kind":"fn_image","bps":b_new,"max":m_new.to_string()})),
            }
        }
    }

    // ---- part (a) ----
    let bps_list: Vec<u16> = if ctx.tier.is_quick() {
        let mut v: Vec<u16> = BPS_ALPHABET.to_vec();
        v.extend((0..=10_000u16).step_by(10)); // a regular grid on top of the boundary alphabet
        v.extend([3, 9, 10, 25, 30, 1000, 2500, 3333, 7500, 9000, 9900, 9990, 9998]);
        v.sort_unstable();
        v.dedup();
        v
    } else {
        (0..=10_000u16).collect()
    };
    let grid = ctx.pick(GRID_QUICK, GRID_THOROUGH);
    let mut max_fees: Vec<u64> = MAX_FEES.to_vec();
    if !ctx.tier.is_quick() {
        max_fees.extend(MAX_FEES_MORE);
        max_fees.sort_unstable();
    }
    let stop = AtomicBool::new(false);
    let skipped = AtomicU64::new(0);
    let st = bps_list
        .par_iter()
        .fold(Stats::default, |mut st, &bps| {
            if stop.load(Ordering::Relaxed) || ctx.left() <= 0.0 {
                skipped.fetch_add(1, Ordering::Relaxed);
                return st;
            }
            for &max in &max_fees {
                for sc in 0u8..9 {
                    eval_config(&template, Fee { bps, max }, sc, grid, &mut st);
                }
            }
            if st.bad.len() >= 4 {
                stop.store(true, Ordering::Relaxed);
            }
            st
        })
        .reduce(Stats::default, Stats::merge);
    let t_a = ctx.elapsed() - t0;

    // ---- part (b) ----
    let n_others = ctx.pick(8, 10);
    let layouts = tlv_layouts(n_others);
    let mut ts = layouts
        .par_iter()
        .fold(TlvStats::default, |mut st, names| {
            eval_layout(names, &mut st);
            st
        })
        .reduce(TlvStats::default, TlvStats::merge);
    // mints without any extension: Token-2022-owned and plain SPL Token
    let mut plain = 0u64;
    for (owner, name) in [(T22, "t22_plain"), (TOKEN, "spl_plain")] {
        for epoch in [0u64, 21, 22, 23] {
            plain += 1;
            if let Err(d) = check_image(&plain_mint_image(), owner, epoch, &mut ts) {
                ts.bad.push((format!("fn:tlv:{name}:e{epoch}"), format!("{name} mint (82 bytes), epoch {epoch}: {d}"), json!({"kind":"fn_tlv","layout":[name],"epoch":epoch})));
            }
        }
    }
    let t_b = ctx.elapsed() - t0 - t_a;

    for (k, d, c) in st.bad.iter().take(4).chain(ts.bad.iter().take(4)) {
        r.violation(k.clone(), d.clone(), c.clone());
    }

    // ---- report ----
    r.add("evaluations", st.evaluations + ts.evaluations);
    r.add("distinct_nontrivial", st.nontrivial + ts.nontrivial);
    r.set("fn_evaluations", st.evaluations + ts.evaluations);
    r.set("fn_distinct_nontrivial", st.nontrivial + ts.nontrivial);
    r.set(
        "fn_rule",
        "one evaluation = one (fee bps, maximum fee, epoch scenario, amount, function) tuple evaluated on BOTH implementations and the exact reference \
         (amount lists are de-duplicated per fee, so tuples are distinct); non-trivial = the reference fee of the tuple is > 0 or the computation must fail (no u64 solution); \
         TLV part: one evaluation = one (layout, epoch) parser comparison or one probe amount on it",
    );
    r.set("fn_bps_values", bps_list.len() as u64);
    r.set("fn_bps_all_0_to_10000", bps_list.len() == 10_001);
    r.set("fn_max_fee_alphabet", json!(max_fees.iter().map(|m| m.to_string()).collect::<Vec<_>>()));
    r.set("fn_amount_grid", format!("0..={} + powers of two +-1 + u64 top + cap/overflow boundaries +-{}", grid.small_hi, grid.radius));
    r.set("fn_fee_configs", st.configs);
    r.set("fn_bps_skipped_budget_or_stop", skipped.load(Ordering::Relaxed));
    r.set("fn_space_completed", skipped.load(Ordering::Relaxed) == 0);
    r.set("fn_fee_zero_cases", st.fee_zero);
    r.set("fn_included_minimality_checks", st.inc_minimality_checked);
    r.set("fn_tlv_layouts", ts.layouts);
    r.set("fn_tlv_layouts_rejected_by_token2022", ts.unbuildable);
    r.set("fn_tlv_other_extensions", json!(&TLV_OTHERS[..n_others]));
    r.set("fn_tlv_evaluations", ts.evaluations);
    r.set("fn_plain_mint_cases", plain);
    r.set("fn_wall_s_amounts", (t_a * 100.0).round() / 100.0);
    r.set("fn_wall_s_tlv", (t_b * 100.0).round() / 100.0);

    r.guard("fn_real_set_transfer_fee_images", real_images);
    r.guard("fn_cap_binds", st.cap_binds);
    r.guard("fn_cap_exactly_reached", st.cap_exact);
    r.guard("fn_cap_not_binding", st.cap_not_binding);
    r.guard("fn_epoch_before_older_selected", st.older_selected);
    r.guard("fn_schedule_entries_differing_only_in_the_cap", st.cap_only);
    r.guard("fn_epoch_equal_newer_selected", st.newer_equal);
    r.guard("fn_epoch_after_newer_selected", st.newer_after);
    r.guard("fn_bps10000_included_ok", st.bps10000_inc_ok);
    r.guard("fn_bps10000_included_overflow_err", st.bps10000_inc_err);
    r.guard("fn_included_ok", st.inc_ok);
    r.guard("fn_included_overflow_err", st.inc_err);
    r.guard("fn_included_preimage_not_unique", st.inc_not_unique);
    r.guard("fn_tlv_fee_first", ts.fee_first);
    r.guard("fn_tlv_fee_middle", ts.fee_middle);
    r.guard("fn_tlv_fee_last", ts.fee_last);
    r.guard("fn_tlv_fee_absent", ts.fee_absent);
    r.guard("fn_tlv_variable_length_metadata", ts.with_metadata);
    r.guard("fn_tlv_older_epoch", ts.older);
    r.guard("fn_tlv_newer_epoch", ts.newer);
    r.guard("fn_plain_mints", plain);

    // a few actual cases
    for (f, sc, x) in [(Fee { bps: 100, max: 1000 }, 1u8, 12_345u64), (Fee { bps: 10_000, max: 1000 }, 2, 77), (Fee { bps: 9999, max: u64::MAX }, 0, 3)] {
        let (img, epoch) = scenario_image(&template, f, sc);
        if let Ok((e, i)) = with_mint(&img, T22, epoch, |b| (b.excluded(x), b.included(x))) {
            r.sample(json!({"fn":"fee","bps":f.bps,"max":f.max.to_string(),"clock_epoch":epoch,"newer_epoch":NEWER_EPOCH,"amount":x.to_string(),
                "excluded_anchor":e.0.show(),"excluded_pinocchio":e.1.show(),"included_anchor":i.0.show(),"included_pinocchio":i.1.show()}));
        }
    }
    r.assume("fn: a mint account's TransferFeeConfig holds bps <= 10000 (enforced by Token-2022's InitializeTransferFeeConfig / SetTransferFee; checked on the real processor images)");
    r.assume("fn: amounts are an alphabet (dense small range, powers of two +-1, u64 top, cap / overflow boundaries +-radius; see fn_amount_grid), not all of u64");
}

pub fn replay_fn(case: &Value) -> Option<Result<(), String>> {
    match case["kind"].as_str() {
        Some("fn_amount") => Some((|| {
            let f = Fee { bps: case["bps"].as_u64().ok_or("bps")? as u16, max: case["max"].as_str().ok_or("max")?.parse::<u64>().map_err(|e| e.to_string())? };
            let sc = case["scenario"].as_u64().ok_or("scenario")? as u8;
            let x: u64 = case["amount"].as_str().ok_or("amount")?.parse().map_err(|e: std::num::ParseIntError| e.to_string())?;
            let func = case["func"].as_str().ok_or("func")?.to_string();
            let template = template_image();
            let (img, epoch) = scenario_image(&template, f, sc);
            let mut st = Stats::default();
            with_mint(&img, T22, epoch, |b| {
                if func == "excluded" {
                    let (a, p) = b.excluded(x);
                    check_excluded(Some(f), x, a, p, &mut st)
                } else {
                    let (a, p) = b.included(x);
                    check_included(Some(f), x, ref_g(f, u64::MAX), a, p, &mut st)
                }
            })?
            .map_err(|d| format!("bps={} max={} epoch={epoch} (newer.epoch={NEWER_EPOCH}): {d}", f.bps, f.max))
        })()),
        Some("fn_tlv") => Some((|| {
            let names: Vec<String> = case["layout"].as_array().ok_or("layout")?.iter().filter_map(|v| v.as_str().map(|s| s.to_string())).collect();
            let epoch = case["epoch"].as_u64().ok_or("epoch")?;
            let mut st = TlvStats::default();
            let r = if names == ["t22_plain"] {
                check_image(&plain_mint_image(), T22, epoch, &mut st)
            } else if names == ["spl_plain"] {
                check_image(&plain_mint_image(), TOKEN, epoch, &mut st)
            } else {
                check_image(&build_layout(&names)?, T22, epoch, &mut st)
            };
            r.map_err(|d| format!("TLV order {names:?}, clock epoch {epoch}: {d}"))
        })()),
        Some("fn_image") => Some((|| {
            let newer = Fee { bps: case["bps"].as_u64().ok_or("bps")? as u16, max: case["max"].as_str().ok_or("max")?.parse::<u64>().map_err(|e| e.to_string())? };
            let older = decoy(newer, 0);
            let real = real_two_schedule_image(older, newer)?;
            let mut p = template_image();
            patch_fee_config(&mut p, older, newer);
            if p == real {
                Ok(())
            } else {
                Err("machinery: extension-API image differs from the real SetTransferFee image".to_string())
            }
        })()),
        _ => None,
    }
}
