//! C08 — function-level part (Engine B): liquidity <-> token amounts, exact rounding, both implementations.
//!
//! Code under test (real, unmodified): `calculate_liquidity_token_deltas` (Anchor),
//! `pino_calculate_liquidity_token_deltas` (Pinocchio port, called on a 216-byte Position account image),
//! `estimate_max_liquidity_from_token_amounts` (and through the first two `get_amount_delta_a/b`).
//!
//! Enumeration (deterministic, no sampling). Tick spacing is not an input of these functions; it only
//! selects which ticks are usable, so the (lower, upper) pairs of all spacings are united and deduplicated.
//!   pairs    : all lower<upper from a per-spacing alphabet of usable ticks (0, +-1, +-2 steps, +-87/88/89 steps = tick
//!              array edges, full-range bounds and their neighbours; thorough: ~60 ticks per spacing),
//!              spacings {1, 8, 64, 128, 32768}
//!   states   : consistent (tick_current, sqrt_price): natural (tick = floor tick of the price) for prices
//!              p(lower)-1, p(lower), p(lower)+1, p(mid), p(upper)-1, p(upper), p(upper)+1, MIN, MAX, 2^64 (thorough: a few
//!              more) and the shifted state (tick = T-1, price = p(T)) for T in {lower, upper, mid}
//!   liquidity: boundary magnitudes x both signs (thorough: 2^k-1, 2^k, 2^k+1 for every k), i128::MIN, zero once per
//!              state, and per state the u64 boundary of each involved token: the largest liquidity whose deposit /
//!              withdrawal amount still fits u64, -1, +1 (the +1 must be an error, never a wrapped value)
//!   maxima   : boundary token maxima squared, for the estimate
//!   plus a complete small box: ticks -3..=3 (thorough -6..=6), prices p(t), p(t)+-1 around them (natural and shifted),
//!   L in 1..=64 (256), maxima 0..=8 (16) squared.
//!
//! Oracle (num-bigint, refmodel::position_amounts_exact / exact_delta_a/b): deposit = ceil, withdrawal = floor of the
//! exact rational amounts; one-sidedness outside the range; the case split by tick (the program's input) and by price
//! must give the same exact amounts (asserted per state); amount > u64::MAX must be an error; Anchor == Pinocchio
//! (result and error code); add-then-remove at the same state returns <= paid and loses <= 1 per token; zero
//! liquidity is LiquidityZero in both; estimate L*: cost(L*) fits both maxima and cost(L*+1) does not (exact cost,
//! and the program's own cost function in both implementations; an error of cost(L*+1) counts as "does not fit").
//! Only successful computations are constrained: an error or panic where the exact amounts would fit is counted
//! and an example is put into the evidence (`fn_panic_example`, `fn_error_though_exact_fits_example`,
//! `fn_est_err_example`), not flagged. Vacuity guards require successes on every branch, including exactly on both
//! range bounds and in the shifted states.
use crate::refmodel::{bu, exact_delta_a, exact_delta_b, position_amounts_exact, Q, MAX_SQRT_PRICE, MAX_TICK, MIN_SQRT_PRICE, MIN_TICK};
use crate::report::{Ctx, Report};
use num_bigint::BigUint;
use num_integer::Integer;
use num_traits::{One, ToPrimitive, Zero};
use rayon::prelude::*;
use serde_json::{json, Value};
use std::collections::{BTreeMap, BTreeSet};
use std::panic::{catch_unwind, AssertUnwindSafe};
use whirlpool::manager::liquidity_manager::calculate_liquidity_token_deltas;
use whirlpool::math::{estimate_max_liquidity_from_token_amounts, sqrt_price_from_tick_index, tick_index_from_sqrt_price};
use whirlpool::pinocchio::verif_export::errors::UnifiedError;
use whirlpool::pinocchio::verif_export::ported::manager_liquidity_manager::pino_calculate_liquidity_token_deltas;
use whirlpool::pinocchio::verif_export::state::whirlpool::MemoryMappedPosition;
use whirlpool::state::Position;

// ------------------------------------------------------------------------------------------------ calling the code

#[derive(Clone, Copy, PartialEq, Eq, Debug)]
enum Res {
    Ok(u64, u64),
    Err(u32),
    Panic,
}

fn anchor_code(e: &anchor_lang::error::Error) -> u32 {
    match e {
        anchor_lang::error::Error::AnchorError(a) => a.error_code_number,
        anchor_lang::error::Error::ProgramError(_) => u32::MAX - 1,
    }
}

fn liquidity_zero_code() -> u32 {
    u32::from(whirlpool::errors::ErrorCode::LiquidityZero)
}

fn call_anchor(tick: i32, price: u128, lower: i32, upper: i32, liq: i128) -> Res {
    let pos = Position { tick_lower_index: lower, tick_upper_index: upper, ..Default::default() };
    match catch_unwind(AssertUnwindSafe(|| calculate_liquidity_token_deltas(tick, price, &pos, liq))) {
        Ok(Ok((a, b))) => Res::Ok(a, b),
        Ok(Err(e)) => Res::Err(anchor_code(&e)),
        Err(_) => Res::Panic,
    }
}

const POSITION_LEN: usize = 216;

fn position_image(lower: i32, upper: i32) -> [u8; POSITION_LEN] {
    // discriminator 0..8, whirlpool 8..40, position_mint 40..72, liquidity 72..88, tick_lower 88..92, tick_upper 92..96
    let mut buf = [0u8; POSITION_LEN];
    buf[0..8].copy_from_slice(&[0xaa, 0xbc, 0x8f, 0xe4, 0x7a, 0x40, 0xf7, 0xd0]);
    buf[88..92].copy_from_slice(&lower.to_le_bytes());
    buf[92..96].copy_from_slice(&upper.to_le_bytes());
    buf
}

fn call_pino(tick: i32, price: u128, lower: i32, upper: i32, liq: i128) -> Res {
    let buf = position_image(lower, upper);
    // MemoryMappedPosition is repr(C) over byte arrays only: size 216, alignment 1 (asserted in run_fn / replay_fn).
    let pos: &MemoryMappedPosition = unsafe { &*(buf.as_ptr() as *const MemoryMappedPosition) };
    match catch_unwind(AssertUnwindSafe(|| pino_calculate_liquidity_token_deltas(tick, price, pos, liq))) {
        Ok(Ok((a, b))) => Res::Ok(a, b),
        Ok(Err(UnifiedError::Anchor(e))) => Res::Err(anchor_code(&e)),
        Ok(Err(UnifiedError::Pinocchio(_))) => Res::Err(u32::MAX),
        Err(_) => Res::Panic,
    }
}

fn layout_ok() -> bool {
    std::mem::size_of::<MemoryMappedPosition>() == POSITION_LEN && std::mem::align_of::<MemoryMappedPosition>() == 1 && {
        let buf = position_image(-12345, 67890);
        let pos: &MemoryMappedPosition = unsafe { &*(buf.as_ptr() as *const MemoryMappedPosition) };
        pos.tick_lower_index() == -12345 && pos.tick_upper_index() == 67890 && pos.liquidity() == 0
    }
}

#[derive(Clone, Copy, PartialEq, Eq, Debug)]
enum EstRes {
    Ok(u128),
    Err(u32),
    Panic,
}

fn call_estimate(price: u128, lower: i32, upper: i32, max_a: u64, max_b: u64) -> EstRes {
    match catch_unwind(AssertUnwindSafe(|| estimate_max_liquidity_from_token_amounts(price, lower, upper, max_a, max_b))) {
        Ok(Ok(l)) => EstRes::Ok(l),
        Ok(Err(e)) => EstRes::Err(u32::from(e)),
        Err(_) => EstRes::Panic,
    }
}

// ------------------------------------------------------------------------------------------------ exact reference

#[derive(Clone, Copy, PartialEq, Eq, Debug)]
enum Region {
    Below,
    In,
    Above,
}

fn region_by_tick(tick: i32, lower: i32, upper: i32) -> Region {
    if tick < lower {
        Region::Below
    } else if tick < upper {
        Region::In
    } else {
        Region::Above
    }
}
fn region_by_price(p: u128, pl: u128, pu: u128) -> Region {
    if p < pl {
        Region::Below
    } else if p < pu {
        Region::In
    } else {
        Region::Above
    }
}

/// Exact token amounts per unit of liquidity in one (tick, price, range) state.
struct Units {
    ua: Q,
    ub: Q,
    region_t: Region,
    pl: u128,
    pu: u128,
}

fn q_eq(x: &Q, y: &Q) -> bool {
    &x.n * &y.d == &y.n * &x.d
}

/// Err when the case split by tick and the case split by price disagree on the exact amounts (inconsistent state).
fn units(tick: i32, price: u128, lower: i32, upper: i32) -> Result<Units, String> {
    let pl = sqrt_price_from_tick_index(lower);
    let pu = sqrt_price_from_tick_index(upper);
    let region_t = region_by_tick(tick, lower, upper);
    let (ua, ub) = match region_t {
        Region::Below => (exact_delta_a(pl, pu, 1), Q::zero()),
        Region::In => (exact_delta_a(price, pu, 1), exact_delta_b(pl, price, 1)),
        Region::Above => (Q::zero(), exact_delta_b(pl, pu, 1)),
    };
    if region_t != region_by_price(price, pl, pu) || (region_t == Region::In && !(pl <= price && price <= pu)) {
        let (pa, pb) = position_amounts_exact(price, pl, pu, 1);
        if !(q_eq(&ua, &pa) && q_eq(&ub, &pb)) {
            return Err(format!(
                "case split by tick ({region_t:?}, tick {tick}) and by price ({:?}, price {price}) give different exact amounts for range [{lower},{upper}) — inconsistent (tick, price) state",
                region_by_price(price, pl, pu)
            ));
        }
    }
    Ok(Units { ua, ub, region_t, pl, pu })
}

/// (floor(u * mag), remainder non-zero)
fn scaled(u: &Q, mag: &BigUint) -> (BigUint, bool) {
    if u.n.is_zero() {
        return (BigUint::zero(), false);
    }
    let (q, r) = (&u.n * mag).div_rem(&u.d);
    (q, !r.is_zero())
}

fn up(x: &(BigUint, bool)) -> BigUint {
    if x.1 {
        &x.0 + 1u32
    } else {
        x.0.clone()
    }
}

/// Judge one signed evaluation. `fa`, `fb`: (floor, remainder non-zero) of the exact amounts.
fn judge(liq: i128, ra: Res, rp: Res, fa: &(BigUint, bool), fb: &(BigUint, bool), u: &Units, price: u128) -> Result<(), String> {
    if ra != rp {
        return Err(format!("Anchor and Pinocchio disagree: anchor {ra:?}, pinocchio {rp:?}"));
    }
    let deposit = liq > 0;
    let (ea, eb) = if deposit { (up(fa), up(fb)) } else { (fa.0.clone(), fb.0.clone()) };
    let fits = ea.to_u64().zip(eb.to_u64());
    match ra {
        Res::Ok(a, b) => {
            match u.region_t {
                Region::Below if b != 0 => return Err(format!("current tick below the range but token B amount {b} != 0")),
                Region::Above if a != 0 => return Err(format!("current tick at/above the upper bound but token A amount {a} != 0")),
                _ => {}
            }
            if price < u.pl && b != 0 {
                return Err(format!("price below the range but token B amount {b} != 0"));
            }
            if price >= u.pu && a != 0 {
                return Err(format!("price at/above the range but token A amount {a} != 0"));
            }
            match fits {
                None => Err(format!("exact amounts ({ea}, {eb}) exceed u64 but the call succeeded with ({a}, {b}) — wrapped value")),
                Some((xa, xb)) => {
                    if (a, b) != (xa, xb) {
                        Err(format!(
                            "{} amounts ({a}, {b}) != {} of exact ({xa}, {xb}) [exact floor ({}, {}), remainders non-zero ({}, {})]",
                            if deposit { "deposit" } else { "withdrawal" },
                            if deposit { "ceil" } else { "floor" },
                            fa.0,
                            fb.0,
                            fa.1,
                            fb.1
                        ))
                    } else {
                        Ok(())
                    }
                }
            }
        }
        Res::Err(_) | Res::Panic => Ok(()), // failed computations are not constrained (overflow must fail: it did)
    }
}

fn judge_roundtrip(dep: Res, wd: Res) -> Result<(), String> {
    if let (Res::Ok(a1, b1), Res::Ok(a0, b0)) = (dep, wd) {
        if a0 > a1 || b0 > b1 {
            return Err(format!("add-then-remove returns more than paid: paid ({a1}, {b1}), returned ({a0}, {b0})"));
        }
        if a1 - a0 > 1 || b1 - b0 > 1 {
            return Err(format!("add-then-remove loses more than one unit: paid ({a1}, {b1}), returned ({a0}, {b0})"));
        }
    }
    Ok(())
}

// ------------------------------------------------------------------------------------------------ statistics

macro_rules! counters {
    ($($name:ident),* $(,)?) => {
        #[allow(non_camel_case_types, dead_code)]
        #[derive(Clone, Copy)]
        #[repr(usize)]
        enum C { $($name),*, _N }
        const C_NAMES: [&str; C::_N as usize] = [$(stringify!($name)),*];
    };
}
counters!(
    delta_evals,
    delta_ok,
    delta_err,
    delta_panic,
    below,
    in_range,
    above,
    shifted,
    shifted_at_lower,
    shifted_at_upper,
    shifted_between,
    price_on_lower,
    price_on_upper,
    rem_a_zero,
    rem_a_nonzero,
    rem_b_zero,
    rem_b_nonzero,
    deposit_rounded_up,
    overflow_is_error,
    error_though_exact_fits,
    errors_agree,
    roundtrips,
    roundtrip_loss_a,
    roundtrip_loss_b,
    roundtrip_lossless,
    withdraw_fails_after_deposit_ok,
    zero_liquidity,
    nontrivial,
    est_evals,
    est_ok,
    est_err,
    est_panic,
    est_zero,
    est_bind_a,
    est_bind_b,
    est_bind_tie,
    est_only_a,
    est_only_b,
    est_next_is_error,
    est_next_exceeds,
    est_over_i128,
    est_err_though_exact_fits_u128,
    est_nontrivial,
    program_calls,
    states,
    inconsistent_state_skipped,
    u64_boundary_magnitudes,
    panic_though_exact_fits,
    ok_on_lower,
    ok_on_upper,
    ok_shifted,
    est_ok_on_lower,
    est_ok_on_upper,
);

#[derive(Clone)]
struct Viol {
    key: String,
    detail: String,
    case: Value,
}

#[derive(Clone)]
struct Acc {
    c: [u64; C::_N as usize],
    v: Vec<Viol>,
    /// first estimate call that failed although the exact answer fits u128 (not constrained by the property; reported)
    est_err_example: Option<Value>,
    /// first inputs on which the program panicked / failed although the exact amounts fit u64 (not constrained; reported)
    panic_example: Option<Value>,
    err_fits_example: Option<Value>,
}
const MAX_VIOL: usize = 6;
impl Acc {
    fn new() -> Acc {
        Acc { c: [0; C::_N as usize], v: vec![], est_err_example: None, panic_example: None, err_fits_example: None }
    }
    #[inline]
    fn inc(&mut self, k: C) {
        self.c[k as usize] += 1;
    }
    fn get(&self, k: C) -> u64 {
        self.c[k as usize]
    }
    fn viol(&mut self, key: String, detail: String, case: Value) {
        if self.v.len() < MAX_VIOL {
            self.v.push(Viol { key, detail, case });
        }
    }
    fn merge(mut self, o: Acc) -> Acc {
        for i in 0..self.c.len() {
            self.c[i] += o.c[i];
        }
        for x in o.v {
            if self.v.len() < MAX_VIOL {
                self.v.push(x);
            }
        }
        if self.est_err_example.is_none() {
            self.est_err_example = o.est_err_example;
        }
        if self.panic_example.is_none() {
            self.panic_example = o.panic_example;
        }
        if self.err_fits_example.is_none() {
            self.err_fits_example = o.err_fits_example;
        }
        self
    }
}

// ------------------------------------------------------------------------------------------------ alphabets

fn usable(t: i32, ts: i32) -> bool {
    t >= MIN_TICK && t <= MAX_TICK && t % ts == 0
}

const SPACINGS: [u16; 5] = [1, 8, 64, 128, 32768];

fn tick_alphabet(ts: u16, quick: bool) -> Vec<i32> {
    let s = ts as i32;
    let lo = MIN_TICK / s * s;
    let hi = MAX_TICK / s * s;
    let mut ks: Vec<i32> = vec![0, 1, 2, 87, 88, 89];
    if !quick {
        ks.extend([3, 4, 5, 7, 8, 16, 43, 44, 45, 86, 90, 131, 132, 175, 176, 177, 263, 264, 500, 1000, 2000, 3000, 5000]);
        ks.extend([hi / s / 4, hi / s / 2, hi / s / 4 * 3, hi / s - 2, hi / s - 3, hi / s - 88, hi / s - 89]);
    }
    let mut v: Vec<i32> = vec![lo, lo + s, hi - s, hi];
    for k in ks {
        v.push(k.saturating_mul(s));
        v.push(-(k.saturating_mul(s)));
    }
    let mut v: Vec<i32> = v.into_iter().filter(|t| usable(*t, s)).collect();
    v.sort();
    v.dedup();
    v
}

/// (lower, upper) -> first spacing that produced it
fn build_pairs(quick: bool) -> Vec<(i32, i32, u16)> {
    let mut m: BTreeMap<(i32, i32), u16> = BTreeMap::new();
    for ts in SPACINGS {
        let a = tick_alphabet(ts, quick);
        for (i, &l) in a.iter().enumerate() {
            for &u in &a[i + 1..] {
                m.entry((l, u)).or_insert(ts);
            }
        }
    }
    m.into_iter().map(|((l, u), ts)| (l, u, ts)).collect()
}

fn liq_alphabet(quick: bool) -> Vec<u128> {
    let mut v: Vec<u128> = vec![1, 2, 3, 1000, 1_000_000_000, 1 << 32, u64::MAX as u128, 1 << 64, (1 << 64) + 1, 1 << 96, i128::MAX as u128];
    v.extend([1u128 << 16, 1 << 48, 1 << 80, 1 << 112, 1 << 126, 10u128.pow(6), 10u128.pow(12), 10u128.pow(18)]);
    if !quick {
        for k in 0..=126u32 {
            let x = 1u128 << k;
            v.extend([x - 1, x, x + 1]);
        }
        v.extend([10u128.pow(6), 10u128.pow(12), 10u128.pow(18), 10u128.pow(27), 10u128.pow(38), 12345678901234567890u128, (1 << 127) - 2]);
    }
    v.retain(|x| *x >= 1 && *x <= i128::MAX as u128);
    v.sort();
    v.dedup();
    v
}

fn max_alphabet(quick: bool) -> Vec<u64> {
    let mut v: Vec<u64> = vec![0, 1, 2, 1000, 1_000_000_000, 1 << 32, 1 << 63, u64::MAX];
    v.extend([3, 1_000_000, 10u64.pow(18), u64::MAX - 1]);
    if !quick {
        v.extend([4, 5, 7, 100, 65_535, 10u64.pow(12), 10u64.pow(15), (1 << 32) - 1, (1 << 32) + 1, 1 << 48, (1 << 63) - 1, (1 << 63) + 1]);
    }
    v.sort();
    v.dedup();
    v
}

/// kind: 0 natural, 1 shifted at lower, 2 shifted at upper, 3 shifted at a tick between, 4 shifted elsewhere
#[derive(Clone, Copy, Debug)]
struct St {
    tick: i32,
    price: u128,
    kind: u8,
}

/// The floor tick of a price via the program's function; None if that is not consistent (C09's business).
fn natural_tick(price: u128) -> Option<i32> {
    if price < MIN_SQRT_PRICE || price > MAX_SQRT_PRICE {
        return None;
    }
    let t = tick_index_from_sqrt_price(&price);
    if t < MIN_TICK || t > MAX_TICK || sqrt_price_from_tick_index(t) > price {
        return None;
    }
    if t < MAX_TICK && sqrt_price_from_tick_index(t + 1) <= price {
        return None;
    }
    Some(t)
}

fn states_for(lower: i32, upper: i32, quick: bool, acc: Option<&mut Acc>) -> Vec<St> {
    let pl = sqrt_price_from_tick_index(lower);
    let pu = sqrt_price_from_tick_index(upper);
    let mid = lower + (upper - lower) / 2;
    let has_mid = mid > lower && mid < upper;
    let mut prices: Vec<u128> = vec![pl.wrapping_sub(1), pl, pl + 1, pu - 1, pu, pu + 1, MIN_SQRT_PRICE, MAX_SQRT_PRICE, 1 << 64];
    if has_mid {
        prices.push(sqrt_price_from_tick_index(mid));
    }
    if !quick {
        prices.extend([MIN_SQRT_PRICE + 1, MAX_SQRT_PRICE - 1, (1 << 64) - 1, (1 << 64) + 1]);
        if has_mid {
            let pm = sqrt_price_from_tick_index(mid);
            prices.extend([pm - 1, pm + 1]);
        }
        if lower > MIN_TICK {
            prices.push(sqrt_price_from_tick_index(lower - 1));
        }
        if upper < MAX_TICK {
            prices.push(sqrt_price_from_tick_index(upper + 1));
        }
    }
    prices.retain(|p| *p >= MIN_SQRT_PRICE && *p <= MAX_SQRT_PRICE);
    prices.sort();
    prices.dedup();
    let mut out = vec![];
    let mut skipped = 0;
    for p in prices {
        match natural_tick(p) {
            Some(t) => out.push(St { tick: t, price: p, kind: 0 }),
            None => skipped += 1,
        }
    }
    // shifted state after a downward crossing of T: tick_current = T-1 while sqrt_price = p(T)
    out.push(St { tick: lower - 1, price: pl, kind: 1 });
    out.push(St { tick: upper - 1, price: pu, kind: 2 });
    if has_mid {
        out.push(St { tick: mid - 1, price: sqrt_price_from_tick_index(mid), kind: 3 });
    }
    if let Some(a) = acc {
        a.c[C::inconsistent_state_skipped as usize] += skipped;
    }
    out
}

/// (tick half-width, largest liquidity, largest token maximum) of the complete small box
fn box_dims(quick: bool) -> (i32, u128, u64) {
    if quick {
        (3, 64, 8)
    } else {
        (6, 256, 16)
    }
}

fn box_states(lower: i32, upper: i32, box_t: i32) -> Vec<St> {
    let mut out = vec![];
    for t in -(box_t + 1)..=(box_t + 1) {
        let p = sqrt_price_from_tick_index(t);
        for q in [p - 1, p, p + 1] {
            if let Some(nt) = natural_tick(q) {
                out.push(St { tick: nt, price: q, kind: 0 });
            }
        }
        let kind = if t == lower {
            1
        } else if t == upper {
            2
        } else if t > lower && t < upper {
            3
        } else {
            4
        };
        out.push(St { tick: t - 1, price: p, kind });
    }
    out
}

// ------------------------------------------------------------------------------------------------ evaluation

fn case_delta(st: &St, lower: i32, upper: i32, liq: i128) -> Value {
    json!({"kind":"fn_delta","tick":st.tick,"price":st.price.to_string(),"lower":lower,"upper":upper,"liq":liq.to_string()})
}

/// One signed evaluation in both implementations; updates counters; returns the (Anchor) result.
fn eval_signed(st: &St, lower: i32, upper: i32, liq: i128, u: &Units, fa: &(BigUint, bool), fb: &(BigUint, bool), count_nontrivial: bool, acc: &mut Acc) -> Res {
    let ra = call_anchor(st.tick, st.price, lower, upper, liq);
    let rp = call_pino(st.tick, st.price, lower, upper, liq);
    acc.c[C::program_calls as usize] += 2;
    acc.inc(C::delta_evals);
    acc.inc(match u.region_t {
        Region::Below => C::below,
        Region::In => C::in_range,
        Region::Above => C::above,
    });
    if st.kind != 0 {
        acc.inc(C::shifted);
        match st.kind {
            1 => acc.inc(C::shifted_at_lower),
            2 => acc.inc(C::shifted_at_upper),
            3 => acc.inc(C::shifted_between),
            _ => {}
        }
    }
    if st.price == u.pl {
        acc.inc(C::price_on_lower);
    }
    if st.price == u.pu {
        acc.inc(C::price_on_upper);
    }
    let deposit = liq > 0;
    let exact_fits = if deposit { up(fa).to_u64().is_some() && up(fb).to_u64().is_some() } else { fa.0.to_u64().is_some() && fb.0.to_u64().is_some() };
    match ra {
        Res::Ok(a, b) => {
            acc.inc(C::delta_ok);
            if st.price == u.pl {
                acc.inc(C::ok_on_lower);
            }
            if st.price == u.pu {
                acc.inc(C::ok_on_upper);
            }
            if st.kind != 0 {
                acc.inc(C::ok_shifted);
            }
            if !u.ua.n.is_zero() {
                acc.inc(if fa.1 { C::rem_a_nonzero } else { C::rem_a_zero });
            }
            if !u.ub.n.is_zero() {
                acc.inc(if fb.1 { C::rem_b_nonzero } else { C::rem_b_zero });
            }
            if deposit && (fa.1 || fb.1) {
                acc.inc(C::deposit_rounded_up);
            }
            if count_nontrivial && (a != 0 || b != 0) {
                acc.inc(C::nontrivial);
            }
        }
        Res::Err(_) => {
            acc.inc(C::delta_err);
            if ra == rp {
                acc.inc(C::errors_agree);
            }
            if exact_fits {
                acc.inc(C::error_though_exact_fits);
                if acc.err_fits_example.is_none() {
                    acc.err_fits_example = Some(json!({"input": case_delta(st, lower, upper, liq), "anchor": format!("{ra:?}"), "exact_floor": [fa.0.to_string(), fb.0.to_string()]}));
                }
            } else {
                acc.inc(C::overflow_is_error);
            }
        }
        Res::Panic => {
            acc.inc(C::delta_panic);
            if acc.panic_example.is_none() {
                acc.panic_example = Some(json!({"input": case_delta(st, lower, upper, liq), "exact_floor": [fa.0.to_string(), fb.0.to_string()], "exact_fits_u64": exact_fits}));
            }
            if exact_fits {
                acc.inc(C::panic_though_exact_fits);
                if acc.err_fits_example.is_none() {
                    acc.err_fits_example = Some(json!({"input": case_delta(st, lower, upper, liq), "anchor": "Panic", "exact_floor": [fa.0.to_string(), fb.0.to_string()], "remainders_nonzero": [fa.1, fb.1]}));
                }
            }
        }
    }
    if let Err(d) = judge(liq, ra, rp, fa, fb, u, st.price) {
        acc.viol(format!("fn_delta:{}:{}:{}:{}:{}", st.tick, st.price, lower, upper, liq), format!("tick_current={} sqrt_price={} range=[{},{}) liquidity_delta={}: {}", st.tick, st.price, lower, upper, liq, d), case_delta(st, lower, upper, liq));
    }
    ra
}

/// Both signs of one magnitude + the add-then-remove clause.
fn eval_mag(st: &St, lower: i32, upper: i32, mag: u128, u: &Units, count_nontrivial: bool, acc: &mut Acc) {
    let m = bu(mag);
    let fa = scaled(&u.ua, &m);
    let fb = scaled(&u.ub, &m);
    let dep = eval_signed(st, lower, upper, mag as i128, u, &fa, &fb, count_nontrivial, acc);
    let wd = eval_signed(st, lower, upper, -(mag as i128), u, &fa, &fb, count_nontrivial, acc);
    if let (Res::Ok(a1, b1), Res::Ok(a0, b0)) = (dep, wd) {
        acc.inc(C::roundtrips);
        if a1 > a0 {
            acc.inc(C::roundtrip_loss_a);
        }
        if b1 > b0 {
            acc.inc(C::roundtrip_loss_b);
        }
        if a1 == a0 && b1 == b0 {
            acc.inc(C::roundtrip_lossless);
        }
    }
    if matches!(dep, Res::Ok(..)) && !matches!(wd, Res::Ok(..)) {
        acc.inc(C::withdraw_fails_after_deposit_ok);
    }
    if let Err(d) = judge_roundtrip(dep, wd) {
        acc.viol(
            format!("fn_roundtrip:{}:{}:{}:{}:{}", st.tick, st.price, lower, upper, mag),
            format!("tick_current={} sqrt_price={} range=[{},{}) liquidity={}: {}", st.tick, st.price, lower, upper, mag, d),
            json!({"kind":"fn_roundtrip","tick":st.tick,"price":st.price.to_string(),"lower":lower,"upper":upper,"liq":mag.to_string()}),
        );
    }
}

fn eval_zero(st: &St, lower: i32, upper: i32, acc: &mut Acc) {
    let ra = call_anchor(st.tick, st.price, lower, upper, 0);
    let rp = call_pino(st.tick, st.price, lower, upper, 0);
    acc.c[C::program_calls as usize] += 2;
    acc.inc(C::zero_liquidity);
    if let Err(d) = judge_zero(ra, rp) {
        acc.viol(
            format!("fn_zero:{}:{}:{}:{}", st.tick, st.price, lower, upper),
            format!("tick_current={} sqrt_price={} range=[{},{}): {}", st.tick, st.price, lower, upper, d),
            json!({"kind":"fn_zero","tick":st.tick,"price":st.price.to_string(),"lower":lower,"upper":upper}),
        );
    }
}

fn judge_zero(ra: Res, rp: Res) -> Result<(), String> {
    let want = Res::Err(liquidity_zero_code());
    if ra != want || rp != want {
        return Err(format!("zero liquidity_delta must fail with LiquidityZero in both: anchor {ra:?}, pinocchio {rp:?}"));
    }
    Ok(())
}

fn cost_exact(u: &Units, l: &BigUint) -> (BigUint, BigUint) {
    (up(&scaled(&u.ua, l)), up(&scaled(&u.ub, l)))
}

/// floor(max * d / n): the largest L with ceil(L * n/d) <= max; None when the token is not involved (unbounded)
fn largest_fitting(u: &Q, max: u64) -> Option<BigUint> {
    if u.n.is_zero() {
        None
    } else {
        Some((BigUint::from(max) * &u.d) / &u.n)
    }
}

struct EstOutcome {
    res: EstRes,
    next_is_error: bool,
    next_exceeds: bool,
}

fn judge_estimate(st: &St, lower: i32, upper: i32, max_a: u64, max_b: u64, u: &Units, calls: &mut u64) -> Result<EstOutcome, String> {
    let res = call_estimate(st.price, lower, upper, max_a, max_b);
    *calls += 1;
    let mut out = EstOutcome { res, next_is_error: false, next_exceeds: false };
    let l = match res {
        EstRes::Ok(l) => l,
        _ => {
            // Failed computations are not constrained — except in the small-budget box: with both maxima below 2^40 every
            // intermediate product of the estimate stays far below the widths the program uses (max * sqrt-price < 2^137 is the
            // only wide product and is held in 256 bits), so no overflow exit can apply; the statement's "the result is the
            // largest liquidity whose cost fits both maxima" then has a well-defined value (`best`), and the
            // quantifier names these prices explicitly ("including exactly on a range bound and the shifted-tick state"). A
            // failure here is a wrong result, not an unconstrained computation. (Pinned tree: 0 such failures; all 19 572
            // failing estimates of the quick alphabet have a maximum above 2^63.)
            if max_a < (1u64 << 40) && max_b < (1u64 << 40) {
                let (la, lb) = (largest_fitting(&u.ua, max_a), largest_fitting(&u.ub, max_b));
                // each side's own budget must also be far from the u128 limit (the program computes both sides before taking the
                // minimum, and one unit of token A next to the upper bound of a high-priced range buys more than 2^128 liquidity)
                let sides_small = la.iter().chain(lb.iter()).all(|x| x.bits() < 120);
                let best = match (la, lb) {
                    (Some(x), Some(y)) => Some(x.min(y)),
                    (x, None) => x,
                    (None, y) => y,
                };
                if let Some(b) = best.filter(|_| sides_small) {
                    return Err(format!("liquidity from token maxima fails ({res:?}) although both maxima are below 2^40 and the largest liquidity whose cost fits them is {b}"));
                }
            }
            return Ok(out);
        }
    };
    let (ma, mb) = (BigUint::from(max_a), BigUint::from(max_b));
    let lb = bu(l);
    // exact cost of L*
    let (ca, cb) = cost_exact(u, &lb);
    if ca > ma || cb > mb {
        return Err(format!("estimate L*={l}: exact deposit cost ({ca}, {cb}) exceeds the maxima ({max_a}, {max_b})"));
    }
    // exact cost of L*+1
    let l1 = &lb + BigUint::one();
    let (na, nb) = cost_exact(u, &l1);
    if na <= ma && nb <= mb {
        return Err(format!("estimate L*={l} is not the largest: exact deposit cost of L*+1 is ({na}, {nb}) and still fits the maxima ({max_a}, {max_b})"));
    }
    // the program's own cost function, both implementations
    if l >= 1 && l <= i128::MAX as u128 {
        let ra = call_anchor(st.tick, st.price, lower, upper, l as i128);
        let rp = call_pino(st.tick, st.price, lower, upper, l as i128);
        *calls += 2;
        for (name, rr) in [("anchor", ra), ("pinocchio", rp)] {
            match rr {
                Res::Ok(a, b) if a <= max_a && b <= max_b => {}
                _ => return Err(format!("estimate L*={l}: the program's deposit cost ({name}) is {rr:?}, does not fit the maxima ({max_a}, {max_b})")),
            }
        }
    }
    if l < i128::MAX as u128 {
        let ra = call_anchor(st.tick, st.price, lower, upper, (l + 1) as i128);
        let rp = call_pino(st.tick, st.price, lower, upper, (l + 1) as i128);
        *calls += 2;
        for (name, rr) in [("anchor", ra), ("pinocchio", rp)] {
            match rr {
                Res::Ok(a, b) if a <= max_a && b <= max_b => {
                    return Err(format!("estimate L*={l} is not the largest: the program's deposit cost ({name}) of L*+1 is ({a}, {b}) and still fits the maxima ({max_a}, {max_b})"))
                }
                Res::Ok(..) => out.next_exceeds = true,
                _ => out.next_is_error = true,
            }
        }
    }
    Ok(out)
}

fn eval_estimate(st: &St, lower: i32, upper: i32, max_a: u64, max_b: u64, u: &Units, count_nontrivial: bool, acc: &mut Acc) {
    acc.inc(C::est_evals);
    let mut calls = 0;
    let j = judge_estimate(st, lower, upper, max_a, max_b, u, &mut calls);
    acc.c[C::program_calls as usize] += calls;
    match j {
        Err(d) => acc.viol(
            format!("fn_estimate:{}:{}:{}:{}:{}:{}", st.tick, st.price, lower, upper, max_a, max_b),
            format!("tick_current={} sqrt_price={} range=[{},{}) max_a={} max_b={}: {}", st.tick, st.price, lower, upper, max_a, max_b, d),
            json!({"kind":"fn_estimate","tick":st.tick,"price":st.price.to_string(),"lower":lower,"upper":upper,"max_a":max_a,"max_b":max_b}),
        ),
        Ok(o) => {
            let la = largest_fitting(&u.ua, max_a);
            let lb = largest_fitting(&u.ub, max_b);
            match o.res {
                EstRes::Ok(l) => {
                    acc.inc(C::est_ok);
                    if st.price == u.pl {
                        acc.inc(C::est_ok_on_lower);
                    }
                    if st.price == u.pu {
                        acc.inc(C::est_ok_on_upper);
                    }
                    if l == 0 {
                        acc.inc(C::est_zero);
                    } else if count_nontrivial {
                        acc.inc(C::est_nontrivial);
                    }
                    if l > i128::MAX as u128 {
                        acc.inc(C::est_over_i128);
                    }
                    match (&la, &lb) {
                        (Some(x), Some(y)) => acc.inc(if x < y {
                            C::est_bind_a
                        } else if y < x {
                            C::est_bind_b
                        } else {
                            C::est_bind_tie
                        }),
                        (Some(_), None) => acc.inc(C::est_only_a),
                        (None, Some(_)) => acc.inc(C::est_only_b),
                        (None, None) => {}
                    }
                    if o.next_is_error {
                        acc.inc(C::est_next_is_error);
                    }
                    if o.next_exceeds {
                        acc.inc(C::est_next_exceeds);
                    }
                }
                EstRes::Err(_) | EstRes::Panic => {
                    acc.inc(if matches!(o.res, EstRes::Panic) { C::est_panic } else { C::est_err });
                    let best = match (la, lb) {
                        (Some(x), Some(y)) => Some(x.min(y)),
                        (x, None) => x,
                        (None, y) => y,
                    };
                    if let Some(b) = best.filter(|b| b.to_u128().is_some()) {
                        acc.inc(C::est_err_though_exact_fits_u128);
                        if acc.est_err_example.is_none() {
                            acc.est_err_example = Some(json!({"tick_current":st.tick,"sqrt_price":st.price.to_string(),"lower":lower,"upper":upper,"max_a":max_a,"max_b":max_b,
                                "result":format!("{:?}", o.res),"exact_largest_fitting_liquidity":b.to_string()}));
                        }
                    }
                }
            }
        }
    }
}

/// Everything for one (lower, upper) pair over a list of states.
#[allow(clippy::too_many_arguments)]
fn eval_pair(lower: i32, upper: i32, states: &[St], mags: &[u128], maxes: &[u64], with_min: bool, dup: &dyn Fn(&St, u128) -> bool, dup_est: &dyn Fn(&St, u64, u64) -> bool, acc: &mut Acc) {
    for st in states {
        acc.inc(C::states);
        let u = match units(st.tick, st.price, lower, upper) {
            Ok(u) => u,
            Err(d) => {
                acc.viol(
                    format!("fn_split:{}:{}:{}:{}", st.tick, st.price, lower, upper),
                    d,
                    json!({"kind":"fn_split","tick":st.tick,"price":st.price.to_string(),"lower":lower,"upper":upper}),
                );
                continue;
            }
        };
        eval_zero(st, lower, upper, acc);
        for &m in mags {
            eval_mag(st, lower, upper, m, &u, !dup(st, m), acc);
        }
        if with_min {
            // the u64 boundary of each involved token: the largest liquidity whose deposit (ceil) / withdrawal (floor)
            // amount still fits u64, and its neighbours — the next one must be an error, never a wrapped value
            let mut extra: Vec<u128> = vec![];
            for q in [&u.ua, &u.ub] {
                if q.n.is_zero() {
                    continue;
                }
                let dep_max = (BigUint::from(u64::MAX) * &q.d) / &q.n; // ceil(L n/d) <= u64::MAX  <=>  L <= this
                let wd_max = crate::refmodel::ceil_div(&(&q.d << 64u32), &q.n) - 1u32; // floor(L n/d) <= u64::MAX  <=>  L <= this
                for b in [dep_max, wd_max] {
                    if let Some(x) = b.to_u128() {
                        extra.extend([x.saturating_sub(1), x, x.saturating_add(1)]);
                    }
                }
            }
            // the boundaries of the 256-bit intermediate products: liquidity x (sqrt-price width of the token's part of the range)
            // around 2^128, 2^191, 2^192 and 2^193 — the exact amounts there exceed u64 by far, every one must be refused
            let widths: [u128; 2] = match u.region_t {
                Region::Below => [u.pu - u.pl, 0],
                Region::In => [u.pu.saturating_sub(st.price), st.price.saturating_sub(u.pl)],
                Region::Above => [0, u.pu - u.pl],
            };
            for w in widths {
                if w == 0 {
                    continue;
                }
                for e in [128u32, 191, 192, 193] {
                    let x = crate::refmodel::ceil_div(&(BigUint::one() << e), &bu(w));
                    if let Some(x) = x.to_u128() {
                        extra.extend([x.saturating_sub(1), x, x.saturating_add(1)]);
                    }
                }
                // inside the band [2^192, 2^193) / width
                if let Some(x) = ((BigUint::from(3u32) << 191u32) / bu(w)).to_u128() {
                    extra.push(x);
                }
            }
            extra.retain(|x| *x >= 1 && *x <= i128::MAX as u128 && mags.binary_search(x).is_err());
            extra.sort();
            extra.dedup();
            for &m in &extra {
                acc.inc(C::u64_boundary_magnitudes);
                eval_mag(st, lower, upper, m, &u, true, acc);
            }
        }
        if with_min {
            // i128::MIN: magnitude 2^127, withdrawal only
            let m = bu(1u128 << 127);
            let fa = scaled(&u.ua, &m);
            let fb = scaled(&u.ub, &m);
            eval_signed(st, lower, upper, i128::MIN, &u, &fa, &fb, true, acc);
        }
        for &ma in maxes {
            for &mb in maxes {
                eval_estimate(st, lower, upper, ma, mb, &u, !dup_est(st, ma, mb), acc);
            }
        }
    }
}

// ------------------------------------------------------------------------------------------------ run / replay

pub fn run_fn(ctx: &Ctx, r: &mut Report) {
    if !layout_ok() {
        r.violation("fn_layout".into(), "MemoryMappedPosition is not a 216-byte, align-1 view with ticks at 88/92".into(), json!({"kind":"fn_layout"}));
        return;
    }
    // panics of the code under test are caught and counted; keep their backtraces out of the log, delegate all others
    let prev_hook = std::sync::Arc::new(std::panic::take_hook());
    {
        let prev = prev_hook.clone();
        std::panic::set_hook(Box::new(move |info| {
            if info.location().map(|l| l.file().contains("programs/whirlpool/")).unwrap_or(false) {
                return;
            }
            prev(info)
        }));
    }
    let quick = ctx.tier.is_quick();
    let pairs = build_pairs(quick);
    let mags = liq_alphabet(quick);
    let maxes = max_alphabet(quick);
    let pair_set: BTreeSet<(i32, i32)> = pairs.iter().map(|p| (p.0, p.1)).collect();

    // the alphabet product, in batches so that the wall-clock cap can stop it between batches
    let mut total = Acc::new();
    let mut capped = false;
    let mut pairs_done = 0u64;
    // leave room for the handler-level part run by the same check: at most half of what is left, <= 15 s / 300 s
    let deadline = ctx.elapsed() + (ctx.left() * 0.5).clamp(1.0, ctx.pick(15.0, 300.0));
    for batch in pairs.chunks(128) {
        if ctx.elapsed() > deadline {
            capped = true;
            break;
        }
        let a = batch
            .par_iter()
            .map(|&(lower, upper, _ts)| {
                let mut acc = Acc::new();
                let states = states_for(lower, upper, quick, Some(&mut acc));
                eval_pair(lower, upper, &states, &mags, &maxes, true, &|_, _| false, &|_, _, _| false, &mut acc);
                acc
            })
            .reduce(Acc::new, Acc::merge);
        total = total.merge(a);
        pairs_done += batch.len() as u64;
    }

    // the complete small box
    let (box_t, box_l, box_max) = box_dims(quick);
    let box_pairs: Vec<(i32, i32)> = (-box_t..=box_t).flat_map(|l| ((l + 1)..=box_t).map(move |u| (l, u))).collect();
    let box_mags: Vec<u128> = (1..=box_l).collect();
    let box_maxes: Vec<u64> = (0..=box_max).collect();
    let box_acc = box_pairs
        .par_iter()
        .map(|&(lower, upper)| {
            let mut acc = Acc::new();
            let states = box_states(lower, upper, box_t);
            // tuples already enumerated by the alphabet product do not count again as distinct
            let alpha: Option<BTreeSet<(i32, u128)>> =
                if pair_set.contains(&(lower, upper)) && !capped { Some(states_for(lower, upper, quick, None).iter().map(|s| (s.tick, s.price)).collect()) } else { None };
            let dup = |st: &St, m: u128| alpha.as_ref().map(|a| a.contains(&(st.tick, st.price)) && mags.binary_search(&m).is_ok()).unwrap_or(false);
            let dup_est = |st: &St, ma: u64, mb: u64| alpha.as_ref().map(|a| a.contains(&(st.tick, st.price)) && maxes.binary_search(&ma).is_ok() && maxes.binary_search(&mb).is_ok()).unwrap_or(false);
            eval_pair(lower, upper, &states, &box_mags, &box_maxes, false, &dup, &dup_est, &mut acc);
            acc
        })
        .reduce(Acc::new, Acc::merge);
    let box_evals = box_acc.get(C::delta_evals) + box_acc.get(C::est_evals) + box_acc.get(C::zero_liquidity);
    total = total.merge(box_acc);
    std::panic::set_hook(Box::new(move |info| prev_hook(info)));

    // ---- report ----
    let evals = total.get(C::delta_evals) + total.get(C::est_evals) + total.get(C::zero_liquidity);
    r.add("evaluations", evals);
    r.add("distinct_nontrivial", total.get(C::nontrivial) + total.get(C::est_nontrivial));
    for (i, name) in C_NAMES.iter().enumerate() {
        r.set(&format!("fn_{name}"), total.c[i]);
    }
    r.set("fn_evaluations", evals);
    r.set("fn_pairs", pairs.len() as u64);
    r.set("fn_pairs_done", pairs_done);
    r.set("fn_capped_by_budget", capped);
    r.set("fn_liquidity_magnitudes", mags.len() as u64);
    r.set("fn_token_maxima", maxes.len() as u64);
    r.set("fn_small_box_evaluations", box_evals);
    r.set("fn_small_box_complete", true);
    if let Some(e) = &total.est_err_example {
        r.set("fn_est_err_example", e.clone());
    }
    if let Some(e) = &total.panic_example {
        r.set("fn_panic_example", e.clone());
    }
    if let Some(e) = &total.err_fits_example {
        r.set("fn_error_though_exact_fits_example", e.clone());
    }
    r.set("fn_small_box", format!("ticks -{box_t}..={box_t} all pairs, prices p(t), p(t)+-1 for t in -{}..={} natural + shifted, L in 1..={box_l} both signs, maxima 0..={box_max} squared", box_t + 1, box_t + 1));
    r.set(
        "fn_rule",
        "function level: distinct (tick_current, sqrt_price, lower, upper, liquidity_delta) tuples on which both implementations succeed with a non-zero amount, \
         plus distinct (tick_current, sqrt_price, lower, upper, max_a, max_b) tuples with a non-zero estimate. Distinct by construction: pairs of all spacings are \
         united, every alphabet is sorted+deduplicated, and small-box tuples that the alphabet product also contains are not counted again",
    );

    r.guard("fn_below_range", total.get(C::below));
    r.guard("fn_in_range", total.get(C::in_range));
    r.guard("fn_above_range", total.get(C::above));
    r.guard("fn_shifted_at_lower", total.get(C::shifted_at_lower));
    r.guard("fn_shifted_at_upper", total.get(C::shifted_at_upper));
    r.guard("fn_shifted_between", total.get(C::shifted_between));
    r.guard("fn_price_on_lower", total.get(C::price_on_lower));
    r.guard("fn_price_on_upper", total.get(C::price_on_upper));
    r.guard("fn_ok_on_lower", total.get(C::ok_on_lower));
    r.guard("fn_ok_on_upper", total.get(C::ok_on_upper));
    r.guard("fn_ok_shifted", total.get(C::ok_shifted));
    r.guard("fn_est_ok_on_lower", total.get(C::est_ok_on_lower));
    r.guard("fn_est_ok_on_upper", total.get(C::est_ok_on_upper));
    r.guard("fn_rem_a_zero", total.get(C::rem_a_zero));
    r.guard("fn_rem_a_nonzero", total.get(C::rem_a_nonzero));
    r.guard("fn_rem_b_zero", total.get(C::rem_b_zero));
    r.guard("fn_rem_b_nonzero", total.get(C::rem_b_nonzero));
    r.guard("fn_deposit_rounded_up", total.get(C::deposit_rounded_up));
    r.guard("fn_overflow_is_error", total.get(C::overflow_is_error));
    r.guard("fn_errors_agree", total.get(C::errors_agree));
    r.guard("fn_roundtrips", total.get(C::roundtrips));
    r.guard("fn_roundtrip_loss_a", total.get(C::roundtrip_loss_a));
    r.guard("fn_roundtrip_loss_b", total.get(C::roundtrip_loss_b));
    r.guard("fn_roundtrip_lossless", total.get(C::roundtrip_lossless));
    r.guard("fn_zero_liquidity", total.get(C::zero_liquidity));
    r.guard("fn_est_ok", total.get(C::est_ok));
    r.guard("fn_est_bind_a", total.get(C::est_bind_a));
    r.guard("fn_est_bind_b", total.get(C::est_bind_b));
    r.guard("fn_est_only_a", total.get(C::est_only_a));
    r.guard("fn_est_only_b", total.get(C::est_only_b));
    r.guard("fn_est_zero", total.get(C::est_zero));
    r.guard("fn_est_next_exceeds", total.get(C::est_next_exceeds));

    for v in total.v.iter().take(MAX_VIOL) {
        r.violation(v.key.clone(), v.detail.clone(), v.case.clone());
    }

    // a few actual cases
    for (tick, price, lower, upper, liq) in [
        (0i32, sqrt_price_from_tick_index(0) + 1, -64i32, 64i32, 1_000_000_000i128),
        (-1, sqrt_price_from_tick_index(0), 0, 64, 1_000_000_000),
        (63, sqrt_price_from_tick_index(64), -64, 64, -((1i128 << 64) + 1)),
        (MIN_TICK - 1, MIN_SQRT_PRICE, MIN_TICK, MAX_TICK, 3),
    ] {
        r.sample(json!({"fn":"calculate_liquidity_token_deltas","tick_current":tick,"sqrt_price":price.to_string(),"lower":lower,"upper":upper,
            "liquidity_delta":liq.to_string(),"anchor":format!("{:?}", call_anchor(tick, price, lower, upper, liq)),"pinocchio":format!("{:?}", call_pino(tick, price, lower, upper, liq))}));
    }
    r.sample(json!({"fn":"estimate_max_liquidity_from_token_amounts","sqrt_price":(1u128<<64).to_string(),"lower":-128,"upper":128,"max_a":1000,"max_b":1_000_000_000u64,
        "result":format!("{:?}", call_estimate(1u128<<64, -128, 128, 1000, 1_000_000_000))}));

    r.assume("function level: (tick_current, sqrt_price) inputs are the consistent states only — natural (tick = floor tick of the price, via the program's tick_index_from_sqrt_price, cross-checked against p(t) <= price < p(t+1)) and shifted (tick = T-1, price = p(T))");
    r.assume("function level: the estimate is checked as a pure function; the caller's liquidity_amount == 0 rejection and sqrt-price slippage bounds belong to the handler-level part");
}

fn parse_u128(v: &Value) -> u128 {
    v.as_str().map(|s| s.parse().unwrap()).unwrap_or_else(|| v.as_u64().unwrap() as u128)
}

pub fn replay_fn(case: &Value) -> Option<Result<(), String>> {
    let kind = case["kind"].as_str()?;
    if !kind.starts_with("fn_") {
        return None;
    }
    if kind == "fn_layout" {
        return Some(if layout_ok() { Ok(()) } else { Err("MemoryMappedPosition layout".into()) });
    }
    if !layout_ok() {
        return Some(Err("MemoryMappedPosition layout".into()));
    }
    let tick = case["tick"].as_i64()? as i32;
    let price = parse_u128(&case["price"]);
    let lower = case["lower"].as_i64()? as i32;
    let upper = case["upper"].as_i64()? as i32;
    let st = St { tick, price, kind: 0 };
    let u = match units(tick, price, lower, upper) {
        Ok(u) => u,
        Err(d) => return Some(Err(d)),
    };
    Some(match kind {
        "fn_split" => Ok(()),
        "fn_zero" => judge_zero(call_anchor(tick, price, lower, upper, 0), call_pino(tick, price, lower, upper, 0)),
        "fn_delta" => {
            let liq: i128 = case["liq"].as_str()?.parse().ok()?;
            let m = bu(liq.unsigned_abs());
            judge(liq, call_anchor(tick, price, lower, upper, liq), call_pino(tick, price, lower, upper, liq), &scaled(&u.ua, &m), &scaled(&u.ub, &m), &u, price)
        }
        "fn_roundtrip" => {
            let mag = parse_u128(&case["liq"]) as i128;
            judge_roundtrip(call_anchor(tick, price, lower, upper, mag), call_anchor(tick, price, lower, upper, -mag))
                .and_then(|_| judge_roundtrip(call_pino(tick, price, lower, upper, mag), call_pino(tick, price, lower, upper, -mag)))
        }
        "fn_estimate" => {
            let mut calls = 0;
            judge_estimate(&st, lower, upper, case["max_a"].as_u64()?, case["max_b"].as_u64()?, &u, &mut calls).map(|_| ())
        }
        _ => return None,
    })
}
