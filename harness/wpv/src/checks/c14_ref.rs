//! C14 reference model: the documented adaptive-fee rules, written independently of the program (exact integers,
//! BigUint where a product could exceed 64 bits). NO skip optimisation: the rate of a tick group is a pure function
//! of (constants, reference, group).
#![allow(dead_code)]
use super::c14_world::{floor_div, price_of_tick};
use crate::refmodel::{bu, MAX_TICK, MIN_TICK};
use num_bigint::BigUint;
use whirlpool::math::tick_index_from_sqrt_price;

pub const SCALE: u64 = 10_000; // volatility accumulator scale factor == reduction denominator
pub const CONTROL_DEN: u64 = 100_000;
pub const HARD_LIMIT: u64 = 100_000;
pub const MAX_REFERENCE_AGE: u64 = 3_600;

#[derive(Clone, Copy, Debug, PartialEq, Eq)]
pub struct RC {
    pub filter: u64,
    pub decay: u64,
    pub reduction: u64,
    pub control: u64,
    pub max_acc: u64,
    pub group: i64,
    pub threshold: u16,
}

#[derive(Clone, Copy, Debug, PartialEq, Eq)]
pub struct RV {
    pub lru: u64,
    pub lms: u64,
    pub vref: u64,
    pub gref: i64,
    pub acc: u64,
}

#[derive(Clone, Copy, Debug, PartialEq, Eq)]
pub enum RefClass {
    Unchanged,
    Decayed,
    Reset,
    /// the reference is older than MAX_REFERENCE_AGE; `overrides` = the ordinary rule would NOT have reset it
    Forced { overrides: bool },
}

/// Documented rules (comments of state/oracle.rs): the reference is reset when it is older than one hour; otherwise
/// elapsed (measured from the later of last reference update / last major swap) < filter => unchanged;
/// filter <= elapsed < decay => group := current, volatility_reference := floor(accumulator * reduction / 10^4);
/// elapsed >= decay => group := current, volatility_reference := 0. None = timestamp went backwards (not in the quantifier).
pub fn update_reference(c: &RC, v: &RV, g: i64, now: u64) -> Option<(RV, RefClass)> {
    let latest = v.lru.max(v.lms);
    if now < latest {
        return None;
    }
    let mut n = *v;
    let elapsed = now - latest;
    if now - v.lru > MAX_REFERENCE_AGE {
        n.gref = g;
        n.vref = 0;
        n.lru = now;
        return Some((n, RefClass::Forced { overrides: elapsed < c.decay }));
    }
    if elapsed < c.filter {
        Some((n, RefClass::Unchanged))
    } else if elapsed < c.decay {
        n.gref = g;
        n.vref = ((v.acc as u128).checked_mul(c.reduction as u128).unwrap() / SCALE as u128) as u64;
        n.lru = now;
        Some((n, RefClass::Decayed))
    } else {
        n.gref = g;
        n.vref = 0;
        n.lru = now;
        Some((n, RefClass::Reset))
    }
}

/// accumulator of group g: min(vref + |g - gref| * 10^4, max)   (u128, checked: exact)
pub fn acc_of(c: &RC, vref: u64, gref: i64, g: i64) -> u64 {
    let d = (g as i128 - gref as i128).unsigned_abs();
    let raw = (vref as u128).checked_add(d.checked_mul(SCALE as u128).unwrap()).unwrap();
    raw.min(c.max_acc as u128) as u64
}

/// ceil(control * (acc * group_size)^2 / (10^5 * 10^4 * 10^4))   (u128, checked: exact)
pub fn adaptive_rate(c: &RC, acc: u64) -> u128 {
    let crossed = (acc as u128).checked_mul(c.group as u128).unwrap();
    let num = (c.control as u128).checked_mul(crossed.checked_mul(crossed).unwrap()).unwrap();
    let den = CONTROL_DEN as u128 * SCALE as u128 * SCALE as u128;
    let q = num / den;
    if q * den == num {
        q
    } else {
        q + 1
    }
}

/// min(static + adaptive, 100000)
pub fn total_rate(c: &RC, static_rate: u64, acc: u64) -> u64 {
    let t = (static_rate as u128).checked_add(adaptive_rate(c, acc)).unwrap();
    t.min(HARD_LIMIT as u128) as u64
}

pub fn rate_of_group(c: &RC, static_rate: u64, vref: u64, gref: i64, g: i64) -> u64 {
    total_rate(c, static_rate, acc_of(c, vref, gref, g))
}

/// documented threshold test: larger >= floor(smaller * p(threshold) / 2^64). None = the target does not fit 128 bits.
pub fn is_major(pre: u128, post: u128, threshold: u16) -> Option<bool> {
    let (lo, hi) = if pre <= post { (pre, post) } else { (post, pre) };
    let target: BigUint = (bu(lo) * bu(price_of_tick(threshold as i64))) >> 64u32;
    if target.bits() > 128 {
        return None;
    }
    Some(bu(hi) >= target)
}

// ------------------------------------------------------------------------------------------------
// price intervals -> tick groups
// ------------------------------------------------------------------------------------------------
/// floor tick group of a price and whether the price is exactly the group's lower boundary price
pub fn group_floor(p: u128, gs: i64) -> (i64, bool) {
    let t = tick_index_from_sqrt_price(&p) as i64;
    let g = floor_div(t, gs);
    let on = g * gs >= MIN_TICK as i64 && g * gs <= MAX_TICK as i64 && price_of_tick(g * gs) == p;
    (g, on)
}

/// Inclusive range of tick groups whose price range intersects the part of the curve a step trades on.
/// moved step: groups meeting the open interval (min, max); zero-move step (everything went to fees): the group the
/// swap trades in at that price — for a price exactly on a boundary that is the group on the trade-direction side.
pub fn groups_touched(p0: u128, p1: u128, a_to_b: bool, gs: i64) -> (i64, i64) {
    if p0 == p1 {
        let (g, on) = group_floor(p0, gs);
        let g = if a_to_b && on { g - 1 } else { g };
        return (g, g);
    }
    let (lo, hi) = if p0 < p1 { (p0, p1) } else { (p1, p0) };
    let (g_lo, _) = group_floor(lo, gs);
    let (g_hi, on_hi) = group_floor(hi, gs);
    let g_hi = if on_hi { g_hi - 1 } else { g_hi };
    (g_lo, g_hi.max(g_lo))
}

/// Tick group(s) "where the swap ended": a price strictly inside a group belongs to that group only; a price exactly
/// on the boundary between groups k-1 and k belongs to both closed ranges. The program stores the accumulator of the
/// last group it traversed (k when coming from above, k-1 when coming from below), or of the next group in the trade
/// direction when one more (fee-only) step ran at the boundary — the statement allows all of these, so at a boundary
/// price both neighbours are accepted and nothing else. Returns (k, on_boundary).
pub fn end_groups(p_end: u128, gs: i64) -> (i64, bool) {
    group_floor(p_end, gs)
}
