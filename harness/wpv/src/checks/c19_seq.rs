//! C19, instruction-sequence part (Engine A): all sequences up to a depth bound of initialise / set instructions with
//! bound-straddling arguments, interleaved with swaps that push a pool's price to either protocol bound. In every reachable
//! state every Whirlpool, FeeTier, AdaptiveFeeTier, Oracle and WhirlpoolsConfig account of the ledger (found by scanning for
//! the discriminators, decoded by the harness) satisfies the published bounds; every setter / initialiser called with an
//! out-of-bound argument is refused.
use crate::decode;
use crate::explore::{self, Limits, Model};
use crate::ops::{self, Lim, Op};
use crate::refmodel::{MAX_SQRT_PRICE, MIN_SQRT_PRICE};
use crate::report::{Ctx, Report};
use crate::stdworlds;
use crate::world::{self, ix, pda, Config, PoolRef, StdWorld, WP};
use anchor_lang::{InstructionData, ToAccountMetas};
use serde::{Deserialize, Serialize};
use serde_json::{json, Value};
use solana_program::{instruction::Instruction, pubkey::Pubkey, system_program, sysvar};
use std::collections::BTreeMap;
use std::sync::Mutex;
use svm::{keys::key, Ledger};
use whirlpool::accounts as wa;
use whirlpool::instruction as wi;

#[derive(Clone, Copy, Debug, PartialEq, Eq, Serialize, Deserialize)]
pub enum Price {
    BelowMin,
    Min,
    One,
    Max,
    AboveMax,
}
impl Price {
    fn value(&self) -> u128 {
        match self {
            Price::BelowMin => MIN_SQRT_PRICE - 1,
            Price::Min => MIN_SQRT_PRICE,
            Price::One => 1u128 << 64,
            Price::Max => MAX_SQRT_PRICE,
            Price::AboveMax => MAX_SQRT_PRICE + 1,
        }
    }
    fn valid(&self) -> bool {
        !matches!(self, Price::BelowMin | Price::AboveMax)
    }
}

/// (filter, decay, reduction, control, max accumulator, group size, major swap threshold)
type Consts = (u16, u16, u16, u32, u32, u16, u16);
const CONSTS: [(&str, Consts); 8] = [
    ("valid", (30, 600, 5000, 1500, 350_000, 64, 64)),
    ("valid-edge", (1, 2, 9999, 99_999, 67_108_863, 64, 5632)), // 67108863 * 64 = 2^32 - 64 <= u32::MAX
    ("filter>=decay", (600, 600, 5000, 1500, 350_000, 64, 64)),
    ("filter=0", (0, 600, 5000, 1500, 350_000, 64, 64)),
    ("reduction=denominator", (30, 600, 10_000, 1500, 350_000, 64, 64)),
    ("control=denominator", (30, 600, 5000, 100_000, 350_000, 64, 64)),
    ("group-not-dividing", (30, 600, 5000, 1500, 350_000, 48, 64)),
    ("acc*group>32bit", (30, 600, 5000, 1500, 67_108_864, 64, 64)),
];
fn consts_valid(tick_spacing: u16, c: &Consts) -> bool {
    let (filter, decay, reduction, control, maxacc, group, _major) = *c;
    filter >= 1 && decay > filter && reduction < 10_000 && control < 100_000 && group >= 1 && group <= tick_spacing && tick_spacing % group == 0 && (maxacc as u64) * (group as u64) <= u32::MAX as u64
}

#[derive(Clone, Debug, PartialEq, Eq, Serialize, Deserialize)]
pub enum A {
    SetFeeRate(u16),
    SetProtocolFeeRate(u16),
    SetDefaultProtocolFeeRate(u16),
    InitFeeTier { ts: u16, rate: u16 },
    SetDefaultFeeRate { ts: u16, rate: u16 },
    InitPool { pair: u8, ts: u16, price: Price, swapped: bool, v2: bool },
    InitAdaptiveTier { index: u16, consts: u8, base: u16 },
    SetPreset { index: u16, consts: u8 },
    SetDefaultBaseFeeRate { index: u16, rate: u16 },
    InitAdaptivePool { pair: u8, index: u16, price: Price },
    SetOracleConsts { pair: u8, index: u16, consts: u8 },
    SetFeeRateByDelegate { pair: u8, index: u16, rate: u16 },
    SwapToBound { a_to_b: bool },
}

pub struct W {
    pub std: StdWorld,
    pub mints: Vec<(Pubkey, Pubkey)>, // extra mint pairs (a < b)
    pub base: Ledger,
}

const ADAPTIVE_TS: u16 = 64;

pub fn build() -> W {
    let spec = stdworlds::splash_spec("c19-seq");
    let (l, w) = world::build_std(&spec);
    let fund = vec![Op::Inc { pos: 0, liq: 1_000_000, v2: false }];
    let mut l = stdworlds::apply_all(&l, &w, &fund);
    let mut mints = vec![];
    for i in 0..2 {
        let (m1, m2) = (key(&format!("c19-seq/x{i}a")), key(&format!("c19-seq/x{i}b")));
        let (a, b) = if m1 < m2 { (m1, m2) } else { (m2, m1) };
        world::create_spl_mint(&mut l, a, 6, None);
        world::create_spl_mint(&mut l, b, 6, None);
        mints.push((a, b));
    }
    W { std: w, mints, base: l }
}

fn adaptive_tier_addr(cfg: &Pubkey, index: u16) -> Pubkey {
    world::fee_tier_addr(cfg, index)
}
fn pool_for(w: &W, l: &Ledger, pair: u8, index: u16, ts: u16, swapped: bool, label: &str) -> PoolRef {
    let (a, b) = w.mints[pair as usize];
    let (a, b) = if swapped { (b, a) } else { (a, b) };
    world::pool_ref(l, &w.std.cfg.addr, &format!("c19-seq/{label}/{pair}/{index}/{swapped}"), a, b, ts, index)
}

pub fn build_ix(w: &W, l: &Ledger, op: &A) -> Option<Instruction> {
    let cfg: &Config = &w.std.cfg;
    let funder = w.std.funder;
    Some(match op {
        A::SetFeeRate(x) => world::ix_set_fee_rate(&w.std.pool, cfg.fee_authority, *x),
        A::SetProtocolFeeRate(x) => world::ix_set_protocol_fee_rate(&w.std.pool, cfg.fee_authority, *x),
        A::SetDefaultProtocolFeeRate(x) => ix(
            wa::SetDefaultProtocolFeeRate { whirlpools_config: cfg.addr, fee_authority: cfg.fee_authority }.to_account_metas(None),
            wi::SetDefaultProtocolFeeRate { default_protocol_fee_rate: *x }.data(),
        ),
        A::InitFeeTier { ts, rate } => world::ix_init_fee_tier(cfg, funder, *ts, *rate),
        A::SetDefaultFeeRate { ts, rate } => ix(
            wa::SetDefaultFeeRate { whirlpools_config: cfg.addr, fee_tier: world::fee_tier_addr(&cfg.addr, *ts), fee_authority: cfg.fee_authority }.to_account_metas(None),
            wi::SetDefaultFeeRate { default_fee_rate: *rate }.data(),
        ),
        A::InitPool { pair, ts, price, swapped, v2 } => {
            let p = pool_for(w, l, *pair, *ts, *ts, *swapped, "pool");
            if *v2 {
                world::ix_init_pool_v2(&p, funder, price.value())
            } else {
                world::ix_init_pool_v1(&p, funder, price.value())
            }
        }
        A::InitAdaptiveTier { index, consts, base } => {
            let c = CONSTS[*consts as usize].1;
            ix(
                wa::InitializeAdaptiveFeeTier {
                    whirlpools_config: cfg.addr,
                    adaptive_fee_tier: adaptive_tier_addr(&cfg.addr, *index),
                    funder,
                    fee_authority: cfg.fee_authority,
                    system_program: system_program::ID,
                }
                .to_account_metas(None),
                wi::InitializeAdaptiveFeeTier {
                    fee_tier_index: *index,
                    tick_spacing: ADAPTIVE_TS,
                    initialize_pool_authority: Pubkey::default(),
                    delegated_fee_authority: cfg.fee_authority,
                    default_base_fee_rate: *base,
                    filter_period: c.0,
                    decay_period: c.1,
                    reduction_factor: c.2,
                    adaptive_fee_control_factor: c.3,
                    max_volatility_accumulator: c.4,
                    tick_group_size: c.5,
                    major_swap_threshold_ticks: c.6,
                }
                .data(),
            )
        }
        A::SetPreset { index, consts } => {
            let c = CONSTS[*consts as usize].1;
            ix(
                wa::SetPresetAdaptiveFeeConstants { whirlpools_config: cfg.addr, adaptive_fee_tier: adaptive_tier_addr(&cfg.addr, *index), fee_authority: cfg.fee_authority }
                    .to_account_metas(None),
                wi::SetPresetAdaptiveFeeConstants {
                    filter_period: c.0,
                    decay_period: c.1,
                    reduction_factor: c.2,
                    adaptive_fee_control_factor: c.3,
                    max_volatility_accumulator: c.4,
                    tick_group_size: c.5,
                    major_swap_threshold_ticks: c.6,
                }
                .data(),
            )
        }
        A::SetDefaultBaseFeeRate { index, rate } => ix(
            wa::SetDefaultBaseFeeRate { whirlpools_config: cfg.addr, adaptive_fee_tier: adaptive_tier_addr(&cfg.addr, *index), fee_authority: cfg.fee_authority }
                .to_account_metas(None),
            wi::SetDefaultBaseFeeRate { default_base_fee_rate: *rate }.data(),
        ),
        A::InitAdaptivePool { pair, index, price } => {
            let p = pool_for(w, l, *pair, *index, ADAPTIVE_TS, false, "apool");
            ix(
                wa::InitializePoolWithAdaptiveFee {
                    whirlpools_config: cfg.addr,
                    token_mint_a: p.mint_a,
                    token_mint_b: p.mint_b,
                    token_badge_a: world::token_badge_addr(&cfg.addr, &p.mint_a),
                    token_badge_b: world::token_badge_addr(&cfg.addr, &p.mint_b),
                    funder,
                    initialize_pool_authority: funder,
                    whirlpool: p.addr,
                    oracle: p.oracle,
                    token_vault_a: p.vault_a,
                    token_vault_b: p.vault_b,
                    adaptive_fee_tier: adaptive_tier_addr(&cfg.addr, *index),
                    token_program_a: p.prog_a,
                    token_program_b: p.prog_b,
                    system_program: system_program::ID,
                    rent: sysvar::rent::ID,
                }
                .to_account_metas(None),
                wi::InitializePoolWithAdaptiveFee { initial_sqrt_price: price.value(), trade_enable_timestamp: None }.data(),
            )
        }
        A::SetOracleConsts { pair, index, consts } => {
            let p = pool_for(w, l, *pair, *index, ADAPTIVE_TS, false, "apool");
            let c = CONSTS[*consts as usize].1;
            ix(
                wa::SetAdaptiveFeeConstants { whirlpool: p.addr, whirlpools_config: cfg.addr, oracle: p.oracle, fee_authority: cfg.fee_authority }.to_account_metas(None),
                wi::SetAdaptiveFeeConstants {
                    filter_period: Some(c.0),
                    decay_period: Some(c.1),
                    reduction_factor: Some(c.2),
                    adaptive_fee_control_factor: Some(c.3),
                    max_volatility_accumulator: Some(c.4),
                    tick_group_size: Some(c.5),
                    major_swap_threshold_ticks: None,
                }
                .data(),
            )
        }
        A::SetFeeRateByDelegate { pair, index, rate } => {
            let p = pool_for(w, l, *pair, *index, ADAPTIVE_TS, false, "apool");
            ix(
                wa::SetFeeRateByDelegatedFeeAuthority { whirlpool: p.addr, adaptive_fee_tier: adaptive_tier_addr(&cfg.addr, *index), delegated_fee_authority: cfg.fee_authority }
                    .to_account_metas(None),
                wi::SetFeeRateByDelegatedFeeAuthority { fee_rate: *rate }.data(),
            )
        }
        A::SwapToBound { a_to_b } => ops::build(l, &w.std, &Op::Swap { a_to_b: *a_to_b, exact_in: true, amount: u64::MAX >> 4, lim: Lim::Bound, v2: *a_to_b })?,
    })
}

pub fn alphabet() -> Vec<A> {
    let mut a = vec![];
    for x in [0u16, 60_000, 60_001, u16::MAX] {
        a.push(A::SetFeeRate(x));
    }
    for x in [0u16, 2_500, 2_501, u16::MAX] {
        a.push(A::SetProtocolFeeRate(x));
        a.push(A::SetDefaultProtocolFeeRate(x));
    }
    a.push(A::InitFeeTier { ts: 8, rate: 60_000 });
    a.push(A::InitFeeTier { ts: 8, rate: 60_001 });
    a.push(A::InitFeeTier { ts: 0, rate: 100 });
    a.push(A::SetDefaultFeeRate { ts: 32768, rate: 60_000 });
    a.push(A::SetDefaultFeeRate { ts: 32768, rate: 60_001 });
    a.push(A::SetDefaultFeeRate { ts: 8, rate: u16::MAX });
    for price in [Price::BelowMin, Price::Min, Price::One, Price::Max, Price::AboveMax] {
        a.push(A::InitPool { pair: 0, ts: 32768, price, swapped: false, v2: false });
        a.push(A::InitPool { pair: 1, ts: 8, price, swapped: false, v2: true });
    }
    a.push(A::InitPool { pair: 0, ts: 32768, price: Price::One, swapped: true, v2: true });
    a.push(A::InitPool { pair: 1, ts: 8, price: Price::One, swapped: true, v2: false });
    for (i, _) in CONSTS.iter().enumerate() {
        a.push(A::InitAdaptiveTier { index: 1024, consts: i as u8, base: 3000 });
        a.push(A::SetPreset { index: 1024, consts: i as u8 });
        a.push(A::SetOracleConsts { pair: 0, index: 1024, consts: i as u8 });
    }
    a.push(A::InitAdaptiveTier { index: 1025, consts: 0, base: 60_001 });
    a.push(A::InitAdaptiveTier { index: 1025, consts: 1, base: 60_000 });
    a.push(A::SetDefaultBaseFeeRate { index: 1024, rate: 60_000 });
    a.push(A::SetDefaultBaseFeeRate { index: 1024, rate: 60_001 });
    for price in [Price::BelowMin, Price::One, Price::Max, Price::AboveMax] {
        a.push(A::InitAdaptivePool { pair: 0, index: 1024, price });
    }
    a.push(A::InitAdaptivePool { pair: 1, index: 1025, price: Price::Min });
    a.push(A::SetFeeRateByDelegate { pair: 0, index: 1024, rate: 60_000 });
    a.push(A::SetFeeRateByDelegate { pair: 0, index: 1024, rate: 60_001 });
    a.push(A::SwapToBound { a_to_b: true });
    a.push(A::SwapToBound { a_to_b: false });
    a
}

/// Does the statement require this op to be refused because of an out-of-bound argument?
fn must_fail(op: &A) -> Option<&'static str> {
    match op {
        A::SetFeeRate(x) if *x > 60_000 => Some("fee rate above 6%"),
        A::SetProtocolFeeRate(x) | A::SetDefaultProtocolFeeRate(x) if *x > 2_500 => Some("protocol fee rate above 25%"),
        A::InitFeeTier { rate, .. } | A::SetDefaultFeeRate { rate, .. } if *rate > 60_000 => Some("fee tier rate above 6%"),
        A::InitFeeTier { ts: 0, .. } => Some("tick spacing zero"),
        A::InitPool { price, .. } | A::InitAdaptivePool { price, .. } if !price.valid() => Some("initial sqrt-price outside the protocol bounds"),
        A::InitPool { swapped: true, .. } => Some("token mints not in canonical order"),
        A::InitAdaptiveTier { base, .. } if *base > 60_000 => Some("base fee rate above 6%"),
        A::InitAdaptiveTier { consts, .. } | A::SetPreset { consts, .. } | A::SetOracleConsts { consts, .. } if !consts_valid(ADAPTIVE_TS, &CONSTS[*consts as usize].1) => {
            Some("adaptive-fee constants violate the published rules")
        }
        A::SetDefaultBaseFeeRate { rate, .. } | A::SetFeeRateByDelegate { rate, .. } if *rate > 60_000 => Some("fee rate above 6%"),
        _ => None,
    }
}

const D_POOL: [u8; 8] = [63, 149, 209, 12, 225, 128, 99, 9];

fn disc(name: &str) -> [u8; 8] {
    use sha2::{Digest, Sha256};
    let h = Sha256::digest(format!("account:{name}").as_bytes());
    h[..8].try_into().unwrap()
}

#[derive(Default, Clone, Debug)]
pub struct Seen {
    pools: u64,
    pools_at_min: u64,
    pools_at_max: u64,
    adaptive_pools: u64,
    fee_tiers: u64,
    adaptive_tiers: u64,
    oracles: u64,
    refused_out_of_bound: u64,
}

pub fn invariant(l: &Ledger, s: &mut Seen) -> Result<(), String> {
    let (d_ft, d_aft, d_or, d_cfg) = (disc("FeeTier"), disc("AdaptiveFeeTier"), disc("Oracle"), disc("WhirlpoolsConfig"));
    let u16at = |b: &[u8], o: usize| u16::from_le_bytes(b[o..o + 2].try_into().unwrap());
    let u32at = |b: &[u8], o: usize| u32::from_le_bytes(b[o..o + 4].try_into().unwrap());
    let mut pool_ts: BTreeMap<Pubkey, u16> = BTreeMap::new();
    for (k, a) in l.accts.iter() {
        if a.owner != WP || a.data.len() < 8 {
            continue;
        }
        let b = &a.data[..];
        if b[..8] == D_POOL {
            let p = decode::pool(b);
            s.pools += 1;
            pool_ts.insert(*k, p.tick_spacing);
            if p.fee_rate > 60_000 {
                return Err(format!("pool {k}: fee rate {} above 6%", p.fee_rate));
            }
            if p.protocol_fee_rate > 2_500 {
                return Err(format!("pool {k}: protocol fee rate {} above 25%", p.protocol_fee_rate));
            }
            if p.sqrt_price < MIN_SQRT_PRICE || p.sqrt_price > MAX_SQRT_PRICE {
                return Err(format!("pool {k}: sqrt price {} outside the protocol bounds", p.sqrt_price));
            }
            if p.sqrt_price == MIN_SQRT_PRICE {
                s.pools_at_min += 1;
            }
            if p.sqrt_price == MAX_SQRT_PRICE {
                s.pools_at_max += 1;
            }
            if p.tick_spacing == 0 {
                return Err(format!("pool {k}: tick spacing 0"));
            }
            if p.token_mint_a >= p.token_mint_b {
                return Err(format!("pool {k}: token mints not in canonical order"));
            }
        } else if b[..8] == d_ft {
            s.fee_tiers += 1;
            if u16at(b, 40) == 0 {
                return Err(format!("fee tier {k}: tick spacing 0"));
            }
            if u16at(b, 42) > 60_000 {
                return Err(format!("fee tier {k}: default fee rate {} above 6%", u16at(b, 42)));
            }
        } else if b[..8] == d_aft {
            s.adaptive_tiers += 1;
            let ts = u16at(b, 42);
            let base = u16at(b, 108);
            let c: Consts = (u16at(b, 110), u16at(b, 112), u16at(b, 114), u32at(b, 116), u32at(b, 120), u16at(b, 124), u16at(b, 126));
            if base > 60_000 {
                return Err(format!("adaptive fee tier {k}: base fee rate {base} above 6%"));
            }
            if ts == 0 || !consts_valid(ts, &c) {
                return Err(format!("adaptive fee tier {k}: stored constants {c:?} (tick spacing {ts}) violate the published rules"));
            }
        } else if b[..8] == d_cfg {
            if u16at(b, 104) > 2_500 {
                return Err(format!("config {k}: default protocol fee rate {} above 25%", u16at(b, 104)));
            }
        }
    }
    for (k, a) in l.accts.iter() {
        if a.owner == WP && a.data.len() >= 8 && a.data[..8] == d_or {
            s.oracles += 1;
            let o = decode::oracle(&a.data);
            let ts = *pool_ts.get(&o.whirlpool).ok_or_else(|| format!("oracle {k} names a pool that does not exist"))?;
            s.adaptive_pools += 1;
            let c: Consts = (o.filter_period, o.decay_period, o.reduction_factor, o.adaptive_fee_control_factor, o.max_volatility_accumulator, o.tick_group_size, o.major_swap_threshold_ticks);
            if !consts_valid(ts, &c) {
                return Err(format!("oracle {k}: stored constants {c:?} (tick spacing {ts}) violate the published rules"));
            }
        }
    }
    Ok(())
}

pub struct M<'a> {
    pub w: &'a W,
    pub alphabet: Vec<A>,
    pub seen: &'a Mutex<Seen>,
    pub outcomes: Mutex<BTreeMap<String, u64>>,
}

impl<'a> Model for M<'a> {
    type S = Ledger;
    type O = A;
    fn fp(&self, s: &Ledger) -> u128 {
        let keys: Vec<Pubkey> = s.accts.iter().filter(|(_, a)| a.owner == WP).map(|(k, _)| *k).collect();
        s.fingerprint_of(&keys, false)
    }
    fn ops(&self, _s: &Ledger) -> Vec<A> {
        self.alphabet.clone()
    }
    fn step(&self, s: &Ledger, op: &A) -> Result<Option<Ledger>, String> {
        let Some(ixn) = build_ix(self.w, s, op) else { return Ok(None) };
        let mut l = s.clone();
        let o = svm::process(&mut l, &ixn);
        let kind = format!("{op:?}");
        let kind = kind.split(|c| c == '(' || c == ' ').next().unwrap_or("").to_string();
        *self.outcomes.lock().unwrap().entry(format!("{kind}:{}", o.short())).or_insert(0) += 1;
        if let Some(why) = must_fail(op) {
            if o.ok() {
                return Err(format!("{op:?} was accepted although it must be refused: {why}"));
            }
            self.seen.lock().unwrap().refused_out_of_bound += 1;
        }
        if !o.ok() {
            return Ok(None);
        }
        Ok(Some(l))
    }
    fn check_state(&self, s: &Ledger) -> Result<(), String> {
        let mut local = Seen::default();
        let r = invariant(s, &mut local);
        let mut g = self.seen.lock().unwrap();
        g.pools += local.pools;
        g.pools_at_min += local.pools_at_min;
        g.pools_at_max += local.pools_at_max;
        g.adaptive_pools += local.adaptive_pools;
        g.fee_tiers += local.fee_tiers;
        g.adaptive_tiers += local.adaptive_tiers;
        g.oracles += local.oracles;
        r
    }
}

pub fn run_seq(ctx: &Ctx, r: &mut Report) {
    let w = build();
    let seen = Mutex::new(Seen::default());
    let m = M { w: &w, alphabet: alphabet(), seen: &seen, outcomes: Mutex::new(BTreeMap::new()) };
    // roots: the base world, and one with an adaptive tier + adaptive pool already created (deeper admin states within the bound)
    let mut r1 = w.base.clone();
    for op in [A::InitAdaptiveTier { index: 1024, consts: 0, base: 3000 }, A::InitAdaptivePool { pair: 0, index: 1024, price: Price::One }, A::InitFeeTier { ts: 8, rate: 60_000 }] {
        let ixn = build_ix(&w, &r1, &op).unwrap();
        let o = svm::process(&mut r1, &ixn);
        if !o.ok() {
            r.violation("seq/root".into(), format!("root op {op:?} failed: {}", o.short()), json!({"kind":"seq_root"}));
            return;
        }
    }
    let roots = vec![w.base.clone(), r1];
    let lim = Limits { max_depth: ctx.depth(4, 7), budget_s: (ctx.left() * 0.9).max(1.0), max_states: 20_000_000 };
    let (stats, found) = explore::explore(&m, &roots, &lim);
    if let Some(f) = found {
        r.violation(
            format!("seq/{}/{}", f.root, serde_json::to_string(&f.path).unwrap()),
            f.detail.clone(),
            json!({"kind":"seq","root": f.root, "ops": serde_json::to_value(&f.path).unwrap()}),
        );
    }
    let out = crate::poolexplore::RunOut { stats, outcomes: m.outcomes.lock().unwrap().clone() };
    crate::poolexplore::fold(r, "c19-seq", &out, &[]);
    r.sample(json!({"world":"c19-seq","op_sequence": serde_json::to_value(&m.alphabet[..4]).unwrap()}));
    let s = seen.lock().unwrap().clone();
    r.set("seq_alphabet_size", m.alphabet.len() as u64);
    r.guard("seq_pool_accounts_checked", s.pools);
    r.guard("seq_pools_at_min_price", s.pools_at_min);
    r.guard("seq_pools_at_max_price", s.pools_at_max);
    r.guard("seq_adaptive_pools_checked", s.adaptive_pools);
    r.guard("seq_fee_tiers_checked", s.fee_tiers);
    r.guard("seq_adaptive_tiers_checked", s.adaptive_tiers);
    r.guard("seq_out_of_bound_arguments_refused", s.refused_out_of_bound);
}

pub fn replay_seq(case: &Value) -> Option<Result<(), String>> {
    if case["kind"].as_str() != Some("seq") {
        return None;
    }
    let w = build();
    let seen = Mutex::new(Seen::default());
    let m = M { w: &w, alphabet: alphabet(), seen: &seen, outcomes: Mutex::new(BTreeMap::new()) };
    let mut cur = w.base.clone();
    if case["root"].as_u64() == Some(1) {
        for op in [A::InitAdaptiveTier { index: 1024, consts: 0, base: 3000 }, A::InitAdaptivePool { pair: 0, index: 1024, price: Price::One }, A::InitFeeTier { ts: 8, rate: 60_000 }] {
            let ixn = build_ix(&w, &cur, &op).unwrap();
            svm::process(&mut cur, &ixn);
        }
    }
    let path: Vec<A> = match serde_json::from_value(case["ops"].clone()) {
        Ok(p) => p,
        Err(e) => return Some(Err(e.to_string())),
    };
    Some((|| {
        m.check_state(&cur)?;
        for op in &path {
            match m.step(&cur, op)? {
                None => return Ok(()),
                Some(n) => {
                    m.check_state(&n)?;
                    cur = n;
                }
            }
        }
        Ok(())
    })())
}
