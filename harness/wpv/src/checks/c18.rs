//! C18 — positions are opened, closed, re-ranged, locked and bundled only consistently (DESIGN §3 C18, world W-life).
//!
//! Part A (this file): depth-bounded state-space search over the REAL instructions (svm::process) against a boring reference
//! lifecycle machine. The machine tracks per position {open, pool, range, locked, owner, generation} and the bundle
//! {alive, set of open indexes}; liquidity / owed fees / owed rewards are read from the decoded position account of the
//! pre-state. Oracle on every transition: enabledness (the instruction succeeds iff the machine says it is enabled) and
//! post-conditions; on every distinct state: the full ledger-vs-machine invariant (one token, no mint authority, bitmap ==
//! open set, locked <=> frozen token account + LockConfig, ...).
//! Part B (c18_fn.rs): exhaustive function / handler level enumeration (all bundle indexes, range validation, one-sided bounds).
use super::c18_fn::{self as fnl, expected_open, valid_range, OpenExpect};
use super::c18_world::{self as lw, LifeWorld, OpenKind, SlotKeys, BIG, FRO, MAIN};
use crate::decode;
use crate::explore::{self, Limits, Model};
use crate::poolexplore::{self, RunOut};
use crate::report::{Ctx, Report};
use crate::world::{self, PosRef, SwapArgs, Wallet, T22, TOKEN};
use serde::{Deserialize, Serialize};
use serde_json::{json, Value};
use solana_program::pubkey::Pubkey;
use std::collections::BTreeMap;
use std::sync::atomic::{AtomicU64, Ordering};
use std::sync::Mutex;
use svm::{Ledger, Outcome};

// ------------------------------------------------------------------------------------------------
// op alphabet
// ------------------------------------------------------------------------------------------------
#[derive(Clone, Copy, Debug, PartialEq, Eq, Hash, Serialize, Deserialize, PartialOrd, Ord)]
pub enum Slot {
    /// SPL-token NFT position (open_position / open_position_with_metadata)
    Ord,
    /// Token-2022 NFT position (open_position_with_token_extensions) — the only kind that can be locked
    T22,
    /// bundled position at this bundle index
    B(u16),
}
#[derive(Clone, Copy, Debug, PartialEq, Eq, Hash, Serialize, Deserialize, PartialOrd, Ord)]
pub enum PoolSel {
    Main,
    Fro,
}
impl PoolSel {
    fn idx(self) -> usize {
        match self {
            PoolSel::Main => MAIN,
            PoolSel::Fro => FRO,
        }
    }
}
#[derive(Clone, Copy, Debug, PartialEq, Eq, Hash, Serialize, Deserialize, PartialOrd, Ord)]
pub enum Rng {
    A,
    B,
    SentLower,
    SentUpper,
    SentBoth,
    Eq,
    Inverted,
    Unusable,
    OobLower,
    OobUpper,
    Full,
    NonFull,
}
pub const RANGE_A: (i32, i32) = (-128, 128);
pub const RANGE_B: (i32, i32) = (-64, 192);
impl Rng {
    pub fn bounds(self, pool: PoolSel) -> (i32, i32) {
        match (pool, self) {
            (_, Rng::A) => RANGE_A,
            (_, Rng::B) => RANGE_B,
            (PoolSel::Main, Rng::SentLower) => (i32::MIN, 128),
            (PoolSel::Main, Rng::SentUpper) => (-128, i32::MAX),
            (PoolSel::Fro, Rng::SentLower) => (i32::MIN, 425984),
            (PoolSel::Fro, Rng::SentUpper) => (-425984, i32::MAX),
            (_, Rng::SentBoth) => (i32::MIN, i32::MAX),
            (_, Rng::Eq) => (64, 64),
            (_, Rng::Inverted) => (128, -128),
            (_, Rng::Unusable) => (-100, 128),
            (_, Rng::OobLower) => (-443648, 128),
            (_, Rng::OobUpper) => (-128, 443648),
            (PoolSel::Main, Rng::Full) => (-443584, 443584),
            (PoolSel::Fro, Rng::Full) => (-425984, 425984),
            (PoolSel::Main, Rng::NonFull) => RANGE_A,
            (PoolSel::Fro, Rng::NonFull) => (-32768, 32768),
        }
    }
}
#[derive(Clone, Copy, Debug, PartialEq, Eq, Hash, Serialize, Deserialize, PartialOrd, Ord)]
pub enum ResetTo {
    Same,
    NewValid,
    EqBounds,
    Unusable,
}
#[derive(Clone, Debug, PartialEq, Eq, Hash, Serialize, Deserialize, PartialOrd, Ord)]
pub enum Op {
    /// slot Ord: meta = with Metaplex metadata; slot T22: meta = with the token-metadata extension; B(i): open_bundled_position
    Open { slot: Slot, pool: PoolSel, rng: Rng, meta: bool },
    Inc { slot: Slot },
    Dec { slot: Slot, all: bool },
    /// clock +1000 s, swap a->b then b->a through the ranges: fees in both tokens and rewards accrue
    SwapToEarn,
    /// one swap a->b only: fees accrue in token A alone (a position can then be owed fees in exactly one token)
    SwapOneWay,
    Update { slot: Slot },
    CollectFees { slot: Slot },
    CollectReward { slot: Slot },
    Close { slot: Slot },
    Reset { slot: Slot, to: ResetTo },
    /// reset_position_range with another pool of the same config and mints in the whirlpool slot and a range that is valid
    /// for THAT pool but not for the position's own (finer spacing / not full-range-only)
    ResetForeign { slot: Slot },
    Lock { slot: Slot },
    TransferLocked { slot: Slot },
    /// reposition_liquidity_v2 (Pinocchio): the other way of re-ranging
    Reposition { slot: Slot, to: ResetTo },
    DeleteBundle,
    /// token-program Approve: the position token's owner makes a third party its one-token delegate (what the liquidity
    /// instructions accept as position authority); a delegate approved BEFORE a lock survives the freeze
    Approve { slot: Slot },
    /// decrease_liquidity (half) / decrease_liquidity_v2 (all) signed by the delegate, paid out to the delegate's accounts
    DecBy { slot: Slot, all: bool },
    /// reposition_liquidity_v2 to the other valid range signed by the delegate
    RepositionBy { slot: Slot },
    /// close_position (the instruction for NFT positions) naming a BUNDLED position, the bundle mint and the bundle token account:
    /// never enabled — it would burn the bundle token and close the account without clearing the bundle's bitmap bit
    ClosePlainOnBundled { slot: Slot },
}
impl Op {
    fn slot(&self) -> Option<Slot> {
        match self {
            Op::Open { slot, .. }
            | Op::Inc { slot }
            | Op::Dec { slot, .. }
            | Op::Update { slot }
            | Op::CollectFees { slot }
            | Op::CollectReward { slot }
            | Op::Close { slot }
            | Op::Reset { slot, .. }
            | Op::ResetForeign { slot }
            | Op::Lock { slot }
            | Op::TransferLocked { slot }
            | Op::Reposition { slot, .. }
            | Op::Approve { slot }
            | Op::DecBy { slot, .. }
            | Op::RepositionBy { slot }
            | Op::ClosePlainOnBundled { slot } => Some(*slot),
            Op::SwapToEarn | Op::SwapOneWay | Op::DeleteBundle => None,
        }
    }
    fn kind(&self) -> &'static str {
        match self {
            Op::Open { slot: Slot::Ord, meta: false, .. } => "open_position",
            Op::Open { slot: Slot::Ord, meta: true, .. } => "open_position_with_metadata",
            Op::Open { slot: Slot::T22, meta: false, .. } => "open_position_with_token_extensions",
            Op::Open { slot: Slot::T22, meta: true, .. } => "open_position_with_token_extensions_metadata",
            Op::Open { slot: Slot::B(_), .. } => "open_bundled_position",
            Op::Inc { .. } => "increase_liquidity",
            Op::Dec { .. } => "decrease_liquidity",
            Op::SwapToEarn => "swap_to_earn",
            Op::SwapOneWay => "swap_one_way",
            Op::Update { .. } => "update_fees_and_rewards",
            Op::CollectFees { .. } => "collect_fees",
            Op::CollectReward { .. } => "collect_reward",
            Op::Close { slot: Slot::B(_) } => "close_bundled_position",
            Op::Close { slot: Slot::T22 } => "close_position_with_token_extensions",
            Op::Close { .. } => "close_position",
            Op::Reset { .. } => "reset_position_range",
            Op::ResetForeign { .. } => "reset_position_range_foreign_pool",
            Op::Lock { .. } => "lock_position",
            Op::TransferLocked { .. } => "transfer_locked_position",
            Op::Reposition { .. } => "reposition_liquidity_v2",
            Op::DeleteBundle => "delete_position_bundle",
            Op::Approve { .. } => "token_approve_delegate",
            Op::DecBy { .. } => "decrease_liquidity_by_delegate",
            Op::RepositionBy { .. } => "reposition_liquidity_v2_by_delegate",
            Op::ClosePlainOnBundled { .. } => "close_position_on_bundled_position",
        }
    }
}

// ------------------------------------------------------------------------------------------------
// reference machine
// ------------------------------------------------------------------------------------------------
#[derive(Clone, Debug, PartialEq, Eq, Hash, Default)]
pub struct PosG {
    pub open: bool,
    pub pool: usize,
    pub lower: i32,
    pub upper: i32,
    pub locked: bool,
    pub lock_ts: u64,
    pub owner: usize,
    pub gen: usize,
}

#[derive(Clone)]
pub struct St {
    pub l: Ledger,
    pub ord: PosG,
    pub t22: PosG,
    pub b: BTreeMap<u16, PosG>,
    pub bundle_alive: bool,
}
impl St {
    fn g(&self, s: Slot) -> &PosG {
        match s {
            Slot::Ord => &self.ord,
            Slot::T22 => &self.t22,
            Slot::B(i) => &self.b[&i],
        }
    }
    fn g_mut(&mut self, s: Slot) -> &mut PosG {
        match s {
            Slot::Ord => &mut self.ord,
            Slot::T22 => &mut self.t22,
            Slot::B(i) => self.b.get_mut(&i).unwrap(),
        }
    }
}

fn is_empty(p: &decode::Position) -> bool {
    p.liquidity == 0 && p.fee_owed_a == 0 && p.fee_owed_b == 0 && p.reward_infos.iter().all(|r| r.amount_owed == 0)
}

#[derive(Default)]
pub struct Stats {
    pub outcomes: Mutex<BTreeMap<String, u64>>,
    pub locked_states: AtomicU64,
    pub multi_bundle_states: AtomicU64,
    pub close_blocked_by_fees: AtomicU64,
    pub close_blocked_by_fees_in_one_token: AtomicU64,
    pub close_blocked_by_rewards_only: AtomicU64,
    pub close_blocked_by_lock: AtomicU64,
    pub reset_blocked_by_owed: AtomicU64,
    pub sentinel_open_ok: AtomicU64,
    pub sentinel_open_on_tick: AtomicU64,
    pub locked_inc_ok: AtomicU64,
    pub locked_collect_ok: AtomicU64,
    pub locked_dec_refused: AtomicU64,
    pub locked_delegate_refused: AtomicU64,
    pub locked_rerange_refused: AtomicU64,
    pub lock_refused_no_liquidity: AtomicU64,
    pub delete_refused_open: AtomicU64,
    pub fro_non_full_refused: AtomicU64,
    pub reopen_after_close: AtomicU64,
}
fn bump(a: &AtomicU64) {
    a.fetch_add(1, Ordering::Relaxed);
}

pub struct LifeModel<'a> {
    pub w: &'a LifeWorld,
    pub slots: Vec<Slot>,
    pub full_opens: bool,
    pub with_reposition: bool,
    pub stats: &'a Stats,
}

struct Expect {
    enabled: Option<bool>,
    why: String,
    open: Option<OpenExpect>,
}

impl<'a> LifeModel<'a> {
    pub fn root_state(&self, l: &Ledger) -> St {
        let mut b = BTreeMap::new();
        for s in &self.slots {
            if let Slot::B(i) = s {
                b.insert(*i, PosG::default());
            }
        }
        St { l: l.clone(), ord: PosG::default(), t22: PosG::default(), b, bundle_alive: true }
    }
    fn keys(&self, s: &St, slot: Slot) -> Option<&SlotKeys> {
        match slot {
            Slot::Ord => Some(&self.w.ord[s.ord.gen.min(lw::MAX_GEN - 1)]),
            Slot::T22 => Some(&self.w.t22),
            Slot::B(_) => None,
        }
    }
    fn addr(&self, s: &St, slot: Slot) -> Pubkey {
        match slot {
            Slot::B(i) => self.w.bundled[i as usize],
            _ => self.keys(s, slot).unwrap().addr,
        }
    }
    fn posref(&self, s: &St, slot: Slot) -> PosRef {
        let g = s.g(slot);
        let (lower, upper, pool) = if g.open { (g.lower, g.upper, g.pool) } else { (RANGE_A.0, RANGE_A.1, MAIN) };
        let (mint, token_account) = match self.keys(s, slot) {
            Some(k) => (k.mint, k.ta[g.owner]),
            None => (self.w.bundle_mint, self.w.bundle_ta),
        };
        PosRef { addr: self.addr(s, slot), mint, token_account, owner: self.w.owners[g.owner], lower, upper, pool: self.w.pools[pool].clone(), t22: slot == Slot::T22 }
    }
    fn wallet(&self, s: &St, slot: Slot) -> &Wallet {
        let g = s.g(slot);
        &self.w.wallets[g.owner][if g.open { g.pool } else { MAIN }]
    }
    fn account(&self, s: &St, slot: Slot) -> Option<decode::Position> {
        lw::position_opt(&s.l, &self.addr(s, slot)).ok().flatten()
    }
    fn v2(slot: Slot) -> bool {
        match slot {
            Slot::Ord => false,
            Slot::T22 => true,
            Slot::B(i) => i % 2 == 1,
        }
    }
    /// (foreign pool, range valid there but not in the position's own pool)
    fn foreign_target(&self, g: &PosG) -> (solana_program::pubkey::Pubkey, i32, i32) {
        if g.pool == FRO {
            (self.w.pools[MAIN].addr, RANGE_B.0, RANGE_B.1)
        } else {
            (self.w.fine.addr, -3, 7)
        }
    }
    /// target range of a Reset / Reposition
    fn target(&self, g: &PosG, to: ResetTo) -> (i32, i32) {
        match to {
            ResetTo::Same => (g.lower, g.upper),
            ResetTo::NewValid => {
                if g.pool == FRO {
                    (-32768, 32768)
                } else if (g.lower, g.upper) == RANGE_A {
                    RANGE_B
                } else {
                    RANGE_A
                }
            }
            ResetTo::EqBounds => (g.lower, g.lower),
            ResetTo::Unusable => (g.lower + 1, g.upper),
        }
    }

    // --------------------------------------------------------------------------------------------
    // enabledness according to the reference machine
    // --------------------------------------------------------------------------------------------
    fn expected(&self, s: &St, op: &Op) -> Expect {
        let yes = |b: bool, why: &str| Expect { enabled: Some(b), why: why.to_string(), open: None };
        let acc = op.slot().and_then(|sl| self.account(s, sl));
        let g = op.slot().map(|sl| s.g(sl).clone()).unwrap_or_default();
        let spacing = self.w.pools[g.pool].tick_spacing;
        match op {
            Op::Open { slot, pool, rng, .. } => {
                let (lo, up) = rng.bounds(*pool);
                let p = &self.w.pools[pool.idx()];
                let e = expected_open(lo, up, p.tick_spacing, p.state(&s.l).sqrt_price);
                if g.open {
                    return Expect { enabled: Some(false), why: "the position is already open".into(), open: Some(e) };
                }
                if matches!(slot, Slot::B(_)) && !s.bundle_alive {
                    return Expect { enabled: Some(false), why: "the bundle has been deleted".into(), open: Some(e) };
                }
                let enabled = match e {
                    OpenExpect::Accept(..) => Some(true),
                    OpenExpect::Reject => Some(false),
                    OpenExpect::Either(..) => None,
                };
                Expect { enabled, why: format!("range oracle for ({lo},{up}): {e:?}"), open: Some(e) }
            }
            Op::Inc { .. } => yes(g.open, "liquidity can be added to any open position (locked or not)"),
            Op::Dec { .. } => yes(g.open && !g.locked, "liquidity can be removed iff the position is open and not locked"),
            Op::SwapToEarn | Op::SwapOneWay | Op::Update { .. } => Expect { enabled: None, why: String::new(), open: None },
            Op::CollectFees { .. } | Op::CollectReward { .. } => yes(g.open, "collecting is allowed on any open position (locked or not)"),
            Op::Close { .. } => yes(g.open && !g.locked && acc.as_ref().map(is_empty).unwrap_or(false), "close iff open, not locked, liquidity = owed fees = owed rewards = 0"),
            Op::Reset { to, .. } => {
                let (lo, up) = self.target(&g, *to);
                let ok = g.open && !g.locked && acc.as_ref().map(is_empty).unwrap_or(false) && (lo, up) != (g.lower, g.upper) && valid_range(lo, up, spacing);
                yes(ok, "reset iff open, not locked, empty, and the new range is valid and different")
            }
            Op::ResetForeign { .. } => {
                let (_, lo, up) = self.foreign_target(&g);
                debug_assert!(!valid_range(lo, up, spacing));
                yes(false, "the requested range is not a valid range of the position's own pool, whichever pool account is named")
            }
            Op::Reposition { to, .. } => {
                let (lo, up) = self.target(&g, *to);
                let ok = g.open && !g.locked && (lo, up) != (g.lower, g.upper) && valid_range(lo, up, spacing);
                yes(ok, "reposition iff open, not locked, and the new range is valid and different")
            }
            Op::Lock { .. } => yes(g.open && !g.locked && acc.as_ref().map(|a| a.liquidity > 0).unwrap_or(false), "lock iff open, not yet locked and liquidity > 0"),
            Op::TransferLocked { .. } => yes(g.open && g.locked, "transfer_locked_position only for locked positions"),
            Op::DeleteBundle => yes(s.bundle_alive && s.b.values().all(|p| !p.open), "delete iff the bundle exists and no bundled position is open"),
            Op::Approve { .. } => Expect { enabled: None, why: String::new(), open: None },
            Op::ClosePlainOnBundled { .. } => yes(false, "bundled positions are closed only by close_bundled_position (which clears the bitmap bit)"),
            Op::DecBy { slot, .. } => yes(g.open && !g.locked && self.delegated(s, *slot), "liquidity can be removed by a one-token delegate iff the position is open and not locked"),
            Op::RepositionBy { slot } => yes(g.open && !g.locked && self.delegated(s, *slot), "a one-token delegate can reposition iff the position is open and not locked"),
        }
    }
    /// the position token account of `slot` names the world's delegate with a delegated amount of exactly one
    fn delegated(&self, s: &St, slot: Slot) -> bool {
        let g = s.g(slot);
        self.keys(s, slot).and_then(|k| lw::token_view(&s.l, &k.ta[g.owner]).ok().flatten()).map(|t| t.amount == 1 && t.delegate == Some((self.w.delegate.owner, 1))).unwrap_or(false)
    }

    // --------------------------------------------------------------------------------------------
    // execution on the real program
    // --------------------------------------------------------------------------------------------
    fn exec(&self, s: &St, op: &Op) -> (Outcome, Ledger) {
        let w = self.w;
        let mut l = s.l.clone();
        let o = match op {
            Op::Open { slot, pool, rng, meta } => {
                let (lo, up) = rng.bounds(*pool);
                let ix = match slot {
                    Slot::B(i) => lw::ix_open_bundled(w, *i, pool.idx(), lo, up),
                    Slot::Ord => lw::ix_open(w, self.keys(s, *slot).unwrap(), if *meta { OpenKind::WithMetadata } else { OpenKind::Plain }, s.ord.owner, pool.idx(), lo, up),
                    Slot::T22 => lw::ix_open(w, &w.t22, OpenKind::T22 { metadata_ext: *meta }, s.t22.owner, pool.idx(), lo, up),
                };
                svm::process(&mut l, &ix)
            }
            Op::Inc { slot } => svm::process(&mut l, &world::ix_increase(&self.posref(s, *slot), self.wallet(s, *slot), BIG, u64::MAX, u64::MAX, Self::v2(*slot))),
            Op::Dec { slot, all } => {
                let liq = self.account(s, *slot).map(|a| a.liquidity).unwrap_or(0);
                let amt = (if *all { liq } else { liq / 2 }).max(1);
                // Dec{all} goes through decrease_liquidity_v2, Dec{half} through decrease_liquidity (both Pinocchio)
                svm::process(&mut l, &world::ix_decrease(&self.posref(s, *slot), self.wallet(s, *slot), amt, 0, 0, *all))
            }
            Op::SwapToEarn => {
                l.unix_ts += 1000;
                let p = &w.pools[MAIN];
                let mut last = Outcome::default();
                for (a_to_b, v2) in [(true, false), (false, true)] {
                    let st = p.state(&l);
                    let a = SwapArgs { amount: 20_000_000, other_amount_threshold: 0, sqrt_price_limit: 0, amount_specified_is_input: true, a_to_b };
                    let tas = world::swap_tick_arrays(p, st.tick_current_index, a_to_b);
                    last = svm::process(&mut l, &world::ix_swap(p, &w.trader, a, tas, v2, &[]));
                    if !last.ok() {
                        break;
                    }
                }
                last
            }
            Op::SwapOneWay => {
                // on both pools (the full-range-only pool has no reward: its positions can be owed a fee in one token and nothing else)
                let mut last = Outcome::default();
                for pi in [MAIN, FRO] {
                    let p = &w.pools[pi];
                    let st = p.state(&l);
                    if pi == FRO && st.liquidity == 0 {
                        continue; // an empty pool would only be pushed to the price bound
                    }
                    let a = SwapArgs { amount: 3_000_000, other_amount_threshold: 0, sqrt_price_limit: 0, amount_specified_is_input: true, a_to_b: true };
                    let tas = world::swap_tick_arrays(p, st.tick_current_index, true);
                    let o = svm::process(&mut l, &world::ix_swap(p, &w.trader, a, tas, true, &[]));
                    if pi == MAIN {
                        last = o;
                    }
                }
                last
            }
            Op::Update { slot } => svm::process(&mut l, &world::ix_update_fees_and_rewards(&self.posref(s, *slot))),
            Op::CollectFees { slot } => svm::process(&mut l, &world::ix_collect_fees(&self.posref(s, *slot), self.wallet(s, *slot), Self::v2(*slot))),
            Op::CollectReward { slot } => {
                let pos = self.posref(s, *slot);
                svm::process(&mut l, &world::ix_collect_reward(&pos, pos.owner, w.reward_accts[s.g(*slot).owner], w.reward_mint, TOKEN, w.reward_vault, 0, Self::v2(*slot)))
            }
            Op::Close { slot } => match slot {
                Slot::B(i) => svm::process(&mut l, &lw::ix_close_bundled(w, *i)),
                _ => {
                    let pos = self.posref(s, *slot);
                    svm::process(&mut l, &world::ix_close_position(&pos, pos.owner, w.receiver))
                }
            },
            Op::Reset { slot, to } => {
                let (lo, up) = self.target(s.g(*slot), *to);
                svm::process(&mut l, &lw::ix_reset(w, &self.posref(s, *slot), lo, up))
            }
            Op::ResetForeign { slot } => {
                let (pool, lo, up) = self.foreign_target(s.g(*slot));
                svm::process(&mut l, &lw::ix_reset_with_pool(w, &self.posref(s, *slot), pool, lo, up))
            }
            Op::Reposition { slot, to } => {
                let (lo, up) = self.target(s.g(*slot), *to);
                svm::process(&mut l, &lw::ix_reposition(w, &self.posref(s, *slot), self.wallet(s, *slot), lo, up, BIG / 2))
            }
            Op::Lock { slot } => {
                let lock_cfg = self.keys(s, *slot).map(|k| k.lock_cfg).unwrap_or_default();
                svm::process(&mut l, &lw::ix_lock(w, &self.posref(s, *slot), lock_cfg))
            }
            Op::TransferLocked { slot } => {
                let k = self.keys(s, *slot).cloned().unwrap();
                let to = 1 - s.g(*slot).owner;
                // the destination token account must exist (idempotent ATA creation, as a preceding instruction would do)
                if l.get(&k.mint).is_some() {
                    if to == 1 {
                        // owner B's side is a plain Token-2022 account without extensions (see slot_keys)
                        if l.get(&k.ta[1]).is_none() {
                            world::create_token_account(&mut l, k.ta[1], k.mint, w.owners[1], 0);
                        }
                    } else {
                        let _ = svm::process_builtin(&mut l, &lw::ix_create_ata_idempotent(w, &w.owners[to], &k.mint, &T22));
                    }
                }
                svm::process(&mut l, &lw::ix_transfer_locked(w, &self.posref(s, *slot), k.lock_cfg, k.ta[to]))
            }
            Op::DeleteBundle => svm::process(&mut l, &lw::ix_delete_bundle(w)),
            Op::Approve { slot } => match svm::process_builtin(&mut l, &lw::ix_approve(w, &self.posref(s, *slot))) {
                Ok(()) => Outcome::default(),
                Err(e) => {
                    l = s.l.clone();
                    Outcome { result: Some(svm::ExecError::Cpi(e)), ..Outcome::default() }
                }
            },
            Op::DecBy { slot, all } => {
                let liq = self.account(s, *slot).map(|a| a.liquidity).unwrap_or(0);
                let amt = (if *all { liq } else { liq / 2 }).max(1);
                svm::process(&mut l, &world::ix_decrease(&self.posref(s, *slot), &w.delegate, amt, 0, 0, *all))
            }
            Op::ClosePlainOnBundled { slot } => {
                let pos = self.posref(s, *slot);
                svm::process(&mut l, &world::ix_close_position(&pos, pos.owner, w.receiver))
            }
            Op::RepositionBy { slot } => {
                let (lo, up) = self.target(s.g(*slot), ResetTo::NewValid);
                svm::process(&mut l, &lw::ix_reposition_by(w, &self.posref(s, *slot), &w.delegate, lo, up, BIG / 2))
            }
        };
        (o, l)
    }

    fn count(&self, op: &Op, ok: bool) {
        let mut m = self.stats.outcomes.lock().unwrap();
        *m.entry(format!("{}:{}", op.kind(), if ok { "ok" } else { "fail" })).or_insert(0) += 1;
    }

    fn note_refusal(&self, s: &St, op: &Op) {
        let st = self.stats;
        let g = op.slot().map(|sl| s.g(sl).clone()).unwrap_or_default();
        let acc = op.slot().and_then(|sl| self.account(s, sl));
        match op {
            Op::Close { .. } if g.open => {
                if g.locked {
                    bump(&st.close_blocked_by_lock);
                } else if let Some(a) = acc {
                    if a.liquidity == 0 && (a.fee_owed_a > 0 || a.fee_owed_b > 0) {
                        bump(&st.close_blocked_by_fees);
                        if (a.fee_owed_a > 0) != (a.fee_owed_b > 0) && a.reward_infos.iter().all(|r| r.amount_owed == 0) {
                            bump(&st.close_blocked_by_fees_in_one_token);
                        }
                    }
                    if a.liquidity == 0 && a.fee_owed_a == 0 && a.fee_owed_b == 0 && a.reward_infos.iter().any(|r| r.amount_owed > 0) {
                        bump(&st.close_blocked_by_rewards_only);
                    }
                }
            }
            Op::Reset { to: ResetTo::NewValid, .. } if g.open && !g.locked && g.pool == MAIN => {
                if let Some(a) = acc {
                    if a.liquidity == 0 && !is_empty(&a) {
                        bump(&st.reset_blocked_by_owed);
                    }
                }
            }
            Op::Reset { to: ResetTo::NewValid, .. } | Op::Reposition { to: ResetTo::NewValid, .. } if g.locked => bump(&st.locked_rerange_refused),
            Op::Dec { .. } if g.locked => bump(&st.locked_dec_refused),
            Op::DecBy { slot, .. } | Op::RepositionBy { slot } if g.locked && self.delegated(s, *slot) => bump(&st.locked_delegate_refused),
            Op::Lock { .. } if g.open && !g.locked => bump(&st.lock_refused_no_liquidity),
            Op::DeleteBundle if s.bundle_alive => bump(&st.delete_refused_open),
            Op::Open { pool: PoolSel::Fro, rng: Rng::NonFull, .. } if !g.open => bump(&st.fro_non_full_refused),
            _ => {}
        }
    }

    // --------------------------------------------------------------------------------------------
    // one transition: enabledness + post-conditions; returns the successor
    // --------------------------------------------------------------------------------------------
    pub fn transition(&self, s: &St, op: &Op) -> Result<Option<St>, String> {
        let exp = self.expected(s, op);
        let (o, l2) = self.exec(s, op);
        self.count(op, o.ok());
        match (o.ok(), exp.enabled) {
            (true, Some(false)) => return Err(format!("{op:?} SUCCEEDED although the lifecycle machine says it is not enabled ({}); machine state {:?}", exp.why, op.slot().map(|x| s.g(x).clone()))),
            (false, Some(true)) => return Err(format!("{op:?} FAILED ({}) although the lifecycle machine says it is enabled ({}); machine state {:?}", o.short(), exp.why, op.slot().map(|x| s.g(x).clone()))),
            _ => {}
        }
        if !o.ok() {
            self.note_refusal(s, op);
            return Ok(None);
        }
        let mut n = s.clone();
        n.l = l2;
        let pre_acc = op.slot().and_then(|sl| self.account(s, sl));
        let pre_g = op.slot().map(|sl| s.g(sl).clone()).unwrap_or_default();
        // ---- machine update
        match op {
            Op::Open { slot, pool, rng, .. } => {
                let a = self.account(&n, *slot).ok_or("position account missing after a successful open")?;
                let (lo, up) = match exp.open.unwrap() {
                    OpenExpect::Accept(lo, up) | OpenExpect::Either(lo, up) => (lo, up),
                    OpenExpect::Reject => unreachable!(),
                };
                if (a.tick_lower_index, a.tick_upper_index) != (lo, up) {
                    return Err(format!("{op:?}: opened with range ({},{}); the statement requires ({lo},{up}) at sqrt price {}", a.tick_lower_index, a.tick_upper_index, self.w.pools[pool.idx()].state(&s.l).sqrt_price));
                }
                if a.liquidity != 0 || a.fee_growth_checkpoint_a != 0 || a.fee_growth_checkpoint_b != 0 || a.fee_owed_a != 0 || a.fee_owed_b != 0 || a.reward_infos.iter().any(|r| r.amount_owed != 0 || r.growth_inside_checkpoint != 0) {
                    return Err(format!("{op:?}: a freshly opened position is not blank: {a:?}"));
                }
                if matches!(rng, Rng::SentLower | Rng::SentUpper) {
                    bump(&self.stats.sentinel_open_ok);
                    let p = self.w.pools[pool.idx()].state(&s.l).sqrt_price;
                    if fnl::price_of(fnl::tick_of_price(p)) == p {
                        bump(&self.stats.sentinel_open_on_tick);
                    }
                }
                if pre_g.gen > 0 || pre_g.lock_ts == u64::MAX {
                    bump(&self.stats.reopen_after_close);
                }
                let g = n.g_mut(*slot);
                g.open = true;
                g.pool = pool.idx();
                g.lower = lo;
                g.upper = up;
                g.locked = false;
            }
            Op::Close { slot } => {
                if *slot == Slot::Ord {
                    // the burnt SPL mint stays behind with supply 0 and no authority
                    let k = self.keys(s, *slot).unwrap();
                    let m = lw::mint_view(&n.l, &k.mint)?.ok_or("SPL position mint vanished")?;
                    if m.supply != 0 || m.has_mint_authority {
                        return Err(format!("{op:?}: after close the position mint has supply {} / mint authority {}", m.supply, m.has_mint_authority));
                    }
                    if n.l.get(&k.ta[pre_g.owner]).is_some() {
                        return Err(format!("{op:?}: the position token account survived the close"));
                    }
                }
                let g = n.g_mut(*slot);
                g.open = false;
                if *slot == Slot::Ord {
                    g.gen += 1;
                }
                if *slot == Slot::T22 {
                    g.lock_ts = u64::MAX; // marks "has been closed once" (T22 reuses its mint key)
                }
            }
            Op::Reset { slot, to } => {
                let (lo, up) = self.target(&pre_g, *to);
                let a = self.account(&n, *slot).ok_or("position vanished in reset")?;
                let pa = pre_acc.clone().unwrap();
                if (a.tick_lower_index, a.tick_upper_index) != (lo, up) {
                    return Err(format!("{op:?}: range after reset is ({},{}), requested ({lo},{up})", a.tick_lower_index, a.tick_upper_index));
                }
                if a.fee_growth_checkpoint_a != 0 || a.fee_growth_checkpoint_b != 0 || a.reward_infos.iter().any(|r| r.growth_inside_checkpoint != 0) {
                    return Err(format!("{op:?}: growth checkpoints not reset: {a:?}"));
                }
                if !is_empty(&a) || a.whirlpool != pa.whirlpool || a.position_mint != pa.position_mint {
                    return Err(format!("{op:?}: reset changed more than range and checkpoints: {pa:?} -> {a:?}"));
                }
                let g = n.g_mut(*slot);
                g.lower = lo;
                g.upper = up;
            }
            Op::Reposition { slot, .. } | Op::RepositionBy { slot } => {
                let to = if let Op::Reposition { to, .. } = op { *to } else { ResetTo::NewValid };
                let (lo, up) = self.target(&pre_g, to);
                let a = self.account(&n, *slot).ok_or("position vanished in reposition")?;
                if (a.tick_lower_index, a.tick_upper_index) != (lo, up) || a.liquidity != BIG / 2 {
                    return Err(format!("{op:?}: after reposition range ({},{}) liquidity {}, requested ({lo},{up}) with {}", a.tick_lower_index, a.tick_upper_index, a.liquidity, BIG / 2));
                }
                let g = n.g_mut(*slot);
                g.lower = lo;
                g.upper = up;
            }
            Op::ResetForeign { .. } => unreachable!("never enabled: a success is reported before the machine update"),
            Op::Lock { slot } => {
                let ts = n.l.unix_ts as u64;
                let g = n.g_mut(*slot);
                g.locked = true;
                g.lock_ts = ts;
            }
            Op::TransferLocked { slot } => {
                let g = n.g_mut(*slot);
                g.owner = 1 - g.owner;
            }
            Op::DeleteBundle => n.bundle_alive = false,
            Op::Inc { slot } => {
                let (a, pa) = (self.account(&n, *slot).ok_or("position vanished")?, pre_acc.clone().unwrap());
                if a.liquidity != pa.liquidity + BIG {
                    return Err(format!("{op:?}: liquidity {} -> {}", pa.liquidity, a.liquidity));
                }
                if pre_g.locked {
                    bump(&self.stats.locked_inc_ok);
                }
            }
            Op::Dec { slot, all } | Op::DecBy { slot, all } => {
                let (a, pa) = (self.account(&n, *slot).ok_or("position vanished")?, pre_acc.clone().unwrap());
                let amt = (if *all { pa.liquidity } else { pa.liquidity / 2 }).max(1);
                if a.liquidity != pa.liquidity - amt {
                    return Err(format!("{op:?}: liquidity {} -> {}", pa.liquidity, a.liquidity));
                }
            }
            Op::CollectFees { slot } => {
                let a = self.account(&n, *slot).ok_or("position vanished")?;
                if a.fee_owed_a != 0 || a.fee_owed_b != 0 {
                    return Err(format!("{op:?}: fees still owed after collect: {a:?}"));
                }
                if pre_g.locked {
                    bump(&self.stats.locked_collect_ok);
                }
            }
            Op::CollectReward { slot } => {
                let a = self.account(&n, *slot).ok_or("position vanished")?;
                if a.reward_infos[0].amount_owed != 0 {
                    return Err(format!("{op:?}: reward still owed after collect: {a:?}"));
                }
                if pre_g.locked {
                    bump(&self.stats.locked_collect_ok);
                }
            }
            Op::SwapToEarn | Op::SwapOneWay | Op::Update { .. } | Op::Approve { .. } => {}
            Op::ClosePlainOnBundled { .. } => unreachable!("never enabled: a success is reported before the machine update"),
        }
        // ---- frame: no other position account is touched by a position-targeted instruction
        for sl in &self.slots {
            if Some(*sl) == op.slot() {
                continue;
            }
            let k = self.addr(s, *sl);
            if s.l.get(&k) != n.l.get(&k) {
                return Err(format!("{op:?} changed the account of another position ({sl:?})"));
            }
        }
        Ok(Some(n))
    }

    // --------------------------------------------------------------------------------------------
    // state invariant: ledger == machine
    // --------------------------------------------------------------------------------------------
    pub fn invariant(&self, s: &St) -> Result<(), String> {
        let w = self.w;
        let l = &s.l;
        let mut any_locked = false;
        for sl in &self.slots {
            let g = s.g(*sl);
            let acc = lw::position_opt(l, &self.addr(s, *sl))?;
            if acc.is_some() != g.open {
                return Err(format!("{sl:?}: position account exists = {}, machine says open = {}", acc.is_some(), g.open));
            }
            let keys = self.keys(s, *sl);
            if let Some(a) = &acc {
                let mint = keys.map(|k| k.mint).unwrap_or(w.bundle_mint);
                if a.whirlpool != w.pools[g.pool].addr || a.position_mint != mint || (a.tick_lower_index, a.tick_upper_index) != (g.lower, g.upper) {
                    return Err(format!("{sl:?}: position fields {a:?} differ from the machine {g:?}"));
                }
                if !valid_range(g.lower, g.upper, w.pools[g.pool].tick_spacing) {
                    return Err(format!("{sl:?}: open position over an invalid range ({},{})", g.lower, g.upper));
                }
                if g.locked && a.liquidity == 0 {
                    return Err(format!("{sl:?}: a locked position holds no liquidity"));
                }
            }
            if let Some(k) = keys {
                let mint = lw::mint_view(l, &k.mint)?;
                let ta = [lw::token_view(l, &k.ta[0])?, lw::token_view(l, &k.ta[1])?];
                let lock = lw::lock_config(l, &k.lock_cfg)?;
                if g.open {
                    let m = mint.ok_or(format!("{sl:?}: position mint missing"))?;
                    if m.supply != 1 || m.has_mint_authority || m.decimals != 0 {
                        return Err(format!("{sl:?}: position mint has supply {} / mint authority present = {} / decimals {}", m.supply, m.has_mint_authority, m.decimals));
                    }
                    let t = ta[g.owner].clone().ok_or(format!("{sl:?}: the owner's position token account is missing"))?;
                    if t.amount != 1 || t.mint != k.mint || t.owner != w.owners[g.owner] {
                        return Err(format!("{sl:?}: owner's token account {t:?}"));
                    }
                    if let Some(o) = &ta[1 - g.owner] {
                        if o.amount != 0 {
                            return Err(format!("{sl:?}: a second token exists: {o:?}"));
                        }
                    }
                    if t.frozen != g.locked {
                        return Err(format!("{sl:?}: token account frozen = {}, machine locked = {}", t.frozen, g.locked));
                    }
                    match (&lock, g.locked) {
                        (None, false) => {}
                        (Some(c), true) => {
                            if c.position != k.addr || c.position_owner != w.owners[g.owner] || c.whirlpool != w.pools[g.pool].addr || c.locked_timestamp != g.lock_ts || c.lock_type != 0 {
                                return Err(format!("{sl:?}: lock config {c:?} differs from the machine {g:?}"));
                            }
                        }
                        _ => return Err(format!("{sl:?}: lock config exists = {}, machine locked = {}", lock.is_some(), g.locked)),
                    }
                    any_locked |= g.locked;
                } else {
                    if *sl == Slot::T22 && (mint.is_some() || ta[0].is_some() || ta[1].is_some()) {
                        return Err(format!("{sl:?}: closed, but mint / token accounts remain (mint {mint:?}, {ta:?})"));
                    }
                    if *sl == Slot::Ord && (mint.is_some() || ta[0].is_some() || ta[1].is_some()) {
                        return Err(format!("{sl:?}: never-opened generation has accounts"));
                    }
                    if lock.is_some() {
                        return Err(format!("{sl:?}: lock config of a closed position"));
                    }
                }
            }
        }
        // bundle
        let bv = lw::bundle_view(l, &w.bundle)?;
        let bmint = lw::mint_view(l, &w.bundle_mint)?.ok_or("bundle mint missing")?;
        let bta = lw::token_view(l, &w.bundle_ta)?;
        if s.bundle_alive {
            let b = bv.ok_or("bundle account missing while the machine says it exists")?;
            let open: Vec<u16> = s.b.iter().filter(|(_, p)| p.open).map(|(i, _)| *i).collect();
            if b.mint != w.bundle_mint || lw::bitmap_set(&b.bitmap) != open {
                return Err(format!("bundle bitmap marks {:?}, open bundled positions are {open:?}", lw::bitmap_set(&b.bitmap)));
            }
            for i in 0..256usize {
                if l.get(&w.bundled[i]).is_some() != open.contains(&(i as u16)) {
                    return Err(format!("bundled position account {i} exists = {}, but open set is {open:?}", l.get(&w.bundled[i]).is_some()));
                }
            }
            let t = bta.ok_or("bundle token account missing")?;
            if bmint.supply != 1 || bmint.has_mint_authority || t.amount != 1 || t.owner != w.owners[0] {
                return Err(format!("bundle token: mint {bmint:?}, account {t:?}"));
            }
            if open.len() >= 2 {
                bump(&self.stats.multi_bundle_states);
            }
        } else if bv.is_some() || bta.is_some() || bmint.supply != 0 || bmint.has_mint_authority {
            return Err(format!("deleted bundle: account exists = {}, token account = {bta:?}, mint = {bmint:?}", bv.is_some()));
        }
        if any_locked {
            bump(&self.stats.locked_states);
        }
        Ok(())
    }

    fn opens(&self, slot: Slot) -> Vec<(PoolSel, Rng, bool)> {
        use PoolSel::*;
        let full = self.full_opens && !matches!(slot, Slot::B(i) if i != 0);
        if full {
            vec![
                (Main, Rng::A, false),
                (Main, Rng::B, true),
                (Main, Rng::SentLower, true),
                (Main, Rng::SentUpper, false),
                (Main, Rng::SentBoth, false),
                (Main, Rng::Eq, false),
                (Main, Rng::Inverted, true),
                (Main, Rng::Unusable, true),
                (Main, Rng::OobLower, false),
                (Main, Rng::OobUpper, true),
                (Fro, Rng::Full, false),
                (Fro, Rng::NonFull, true),
                (Fro, Rng::A, false),
                (Fro, Rng::SentLower, true),
            ]
        } else {
            vec![(Main, Rng::A, false), (Main, Rng::SentLower, true), (Main, Rng::SentUpper, false), (Main, Rng::Eq, false), (Main, Rng::Unusable, true), (Fro, Rng::Full, true), (Fro, Rng::NonFull, false)]
        }
    }
}

impl<'a> Model for LifeModel<'a> {
    type S = St;
    type O = Op;
    fn fp(&self, s: &St) -> u128 {
        let w = self.w;
        let mut keys: Vec<Pubkey> = vec![w.pools[MAIN].addr, w.pools[FRO].addr, w.bundle, w.bundle_mint, w.bundle_ta];
        keys.extend_from_slice(&w.arrays);
        for sl in &self.slots {
            keys.push(self.addr(s, *sl));
            if let Some(k) = self.keys(s, *sl) {
                keys.extend_from_slice(&[k.mint, k.ta[0], k.ta[1], k.lock_cfg]);
            }
        }
        let mut h = svm::Fp::new();
        h.u128(s.l.fingerprint_of(&keys, false));
        for sl in &self.slots {
            let g = s.g(*sl);
            for v in [g.open as u64, g.pool as u64, g.lower as u32 as u64, g.upper as u32 as u64, g.locked as u64, g.lock_ts, g.owner as u64, g.gen as u64] {
                h.u64(v);
            }
        }
        h.u64(s.bundle_alive as u64);
        h.finish()
    }
    fn ops(&self, s: &St) -> Vec<Op> {
        let mut v = vec![];
        for sl in &self.slots {
            let slot = *sl;
            let g = s.g(slot);
            if !g.open {
                if slot == Slot::Ord && g.gen + 1 >= lw::MAX_GEN {
                    continue;
                }
                for (pool, rng, meta) in self.opens(slot) {
                    v.push(Op::Open { slot, pool, rng, meta: meta && !matches!(slot, Slot::B(_)) });
                }
                v.push(Op::Close { slot });
                v.push(Op::Inc { slot });
                if slot == Slot::T22 {
                    v.push(Op::Lock { slot });
                }
            } else {
                let liq = self.account(s, slot).map(|a| a.liquidity).unwrap_or(0);
                v.push(Op::Inc { slot });
                if liq > 0 {
                    v.push(Op::Dec { slot, all: true });
                    v.push(Op::Dec { slot, all: false });
                }
                v.push(Op::Update { slot });
                v.push(Op::CollectFees { slot });
                if g.pool == MAIN {
                    v.push(Op::CollectReward { slot });
                }
                v.push(Op::Close { slot });
                if matches!(slot, Slot::B(_)) {
                    v.push(Op::ClosePlainOnBundled { slot });
                }
                v.push(Op::Reset { slot, to: ResetTo::NewValid });
                v.push(Op::Reset { slot, to: ResetTo::Same });
                v.push(Op::ResetForeign { slot });
                v.push(Op::Reset { slot, to: if g.lower % 128 == 0 { ResetTo::EqBounds } else { ResetTo::Unusable } });
                if slot == Slot::T22 {
                    v.push(Op::Lock { slot });
                    v.push(Op::TransferLocked { slot });
                }
                if self.with_reposition && slot == Slot::T22 && g.pool == MAIN {
                    v.push(Op::Approve { slot });
                    if liq > 0 {
                        v.push(Op::DecBy { slot, all: true });
                        v.push(Op::DecBy { slot, all: false });
                    }
                    v.push(Op::RepositionBy { slot });
                }
                if self.with_reposition {
                    v.push(Op::Reposition { slot, to: ResetTo::NewValid });
                    v.push(Op::Reposition { slot, to: if g.locked { ResetTo::Same } else { ResetTo::Unusable } });
                }
                v.push(Op::Open { slot, pool: PoolSel::Main, rng: Rng::B, meta: false });
            }
        }
        v.push(Op::SwapToEarn);
        v.push(Op::SwapOneWay);
        if self.slots.iter().any(|s| matches!(s, Slot::B(_))) {
            v.push(Op::DeleteBundle);
        }
        v
    }
    fn step(&self, s: &St, op: &Op) -> Result<Option<St>, String> {
        self.transition(s, op)
    }
    fn check_state(&self, s: &St) -> Result<(), String> {
        self.invariant(s)
    }
}

// ------------------------------------------------------------------------------------------------
// worlds, roots, driver
// ------------------------------------------------------------------------------------------------
struct Plan {
    name: &'static str,
    slots: Vec<Slot>,
    full_opens: bool,
    with_reposition: bool,
    depth: usize,
    share: f64,
}

fn plans(quick: bool) -> Vec<Plan> {
    let all = vec![Slot::Ord, Slot::T22, Slot::B(0), Slot::B(1), Slot::B(7), Slot::B(8), Slot::B(255)];
    if quick {
        vec![
            Plan { name: "pair", slots: vec![Slot::Ord, Slot::B(0)], full_opens: false, with_reposition: false, depth: 5, share: 0.3 },
            Plan { name: "t22", slots: vec![Slot::T22], full_opens: false, with_reposition: true, depth: 5, share: 0.3 },
            Plan { name: "all", slots: all, full_opens: true, with_reposition: false, depth: 3, share: 0.3 },
        ]
    } else {
        vec![
            Plan { name: "pair", slots: vec![Slot::Ord, Slot::B(0)], full_opens: true, with_reposition: true, depth: 7, share: 0.45 },
            Plan { name: "t22", slots: vec![Slot::T22], full_opens: true, with_reposition: true, depth: 8, share: 0.2 },
            Plan { name: "all", slots: all, full_opens: true, with_reposition: false, depth: 4, share: 0.3 },
        ]
    }
}

/// root prefixes (every op of a prefix must succeed)
fn root_seqs(slots: &[Slot]) -> Vec<(&'static str, Vec<Op>)> {
    let each = |f: &dyn Fn(Slot) -> Vec<Op>| -> Vec<Op> { slots.iter().flat_map(|s| f(*s)).collect() };
    let funded = each(&|slot| vec![Op::Open { slot, pool: PoolSel::Main, rng: Rng::A, meta: false }, Op::Inc { slot }]);
    let mut feeladen = funded.clone();
    feeladen.push(Op::SwapToEarn);
    feeladen.extend(each(&|slot| vec![Op::Update { slot }]));
    let mut drained = feeladen.clone();
    drained.extend(each(&|slot| vec![Op::Dec { slot, all: true }]));
    let fro = each(&|slot| vec![Op::Open { slot, pool: PoolSel::Fro, rng: Rng::Full, meta: true && !matches!(slot, Slot::B(_)) }, Op::Inc { slot }]);
    let mut v = vec![("fresh", vec![]), ("funded", funded.clone()), ("fee-laden", feeladen.clone()), ("drained", drained), ("fro", fro)];
    if slots.contains(&Slot::T22) {
        let mut locked = feeladen;
        locked.push(Op::Lock { slot: Slot::T22 });
        v.push(("locked", locked));
    }
    v
}

fn build_roots(m: &LifeModel, l0: &Ledger) -> Result<Vec<(String, St)>, String> {
    let mut out = vec![];
    for (name, seq) in root_seqs(&m.slots) {
        let mut cur = m.root_state(l0);
        m.invariant(&cur).map_err(|e| format!("root {name}: {e}"))?;
        for op in &seq {
            match m.transition(&cur, op).map_err(|e| format!("root {name}: {e}"))? {
                Some(n) => {
                    m.invariant(&n).map_err(|e| format!("root {name} after {op:?}: {e}"))?;
                    cur = n;
                }
                None => return Err(format!("root {name}: prefix op {op:?} failed")),
            }
        }
        out.push((name.to_string(), cur));
    }
    Ok(out)
}

const WORLD_LABEL: &str = "c18-life";

pub fn run(ctx: &Ctx) -> Report {
    let mut r = Report::new("C18", "model_checking");
    let (l0, w) = lw::build_world(WORLD_LABEL);
    let stats = Stats::default();
    let budget = ctx.budget_s * 0.8;
    let mut min_depth = usize::MAX;
    for p in plans(ctx.tier.is_quick()) {
        let m = LifeModel { w: &w, slots: p.slots.clone(), full_opens: p.full_opens, with_reposition: p.with_reposition, stats: &stats };
        let roots = match build_roots(&m, &l0) {
            Ok(x) => x,
            Err(e) => {
                r.violation(format!("{}/roots", p.name), e, json!({"kind":"roots","plan": p.name, "tier_quick": ctx.tier.is_quick()}));
                break;
            }
        };
        let states: Vec<St> = roots.iter().map(|x| x.1.clone()).collect();
        let before = stats.outcomes.lock().unwrap().clone();
        let lim = Limits { max_depth: p.depth, budget_s: (budget * p.share).min(ctx.left().max(1.0)), max_states: 30_000_000 };
        let (st, found) = explore::explore(&m, &states, &lim);
        if let Some(f) = found {
            let case = json!({"kind":"ops","plan": p.name, "tier_quick": ctx.tier.is_quick(), "root": roots[f.root].0, "ops": serde_json::to_value(&f.path).unwrap()});
            r.violation(format!("{}/{}/{}", p.name, roots[f.root].0, serde_json::to_string(&f.path).unwrap()), f.detail.clone(), case);
        }
        let after = stats.outcomes.lock().unwrap().clone();
        let delta: BTreeMap<String, u64> = after.iter().map(|(k, v)| (k.clone(), v - before.get(k).copied().unwrap_or(0))).filter(|x| x.1 > 0).collect();
        min_depth = min_depth.min(st.depth_completed);
        poolexplore::fold(&mut r, p.name, &RunOut { stats: st, outcomes: delta }, &[]);
        r.sample(json!({"plan": p.name, "slots": format!("{:?}", p.slots), "roots": roots.iter().map(|x| x.0.clone()).collect::<Vec<_>>(), "alphabet_in_root_funded": m.ops(&roots[1].1).len()}));
        if p.name == "t22" {
            let seqs: Vec<Value> = root_seqs(&p.slots).iter().filter(|x| x.0 == "locked" || x.0 == "drained").map(|x| json!({"root": x.0, "op_sequence": serde_json::to_value(&x.1).unwrap()})).collect();
            r.sample(json!({"plan": p.name, "validated_root_traces": seqs}));
        }
        if !r.violations.is_empty() {
            break;
        }
    }
    let out = stats.outcomes.lock().unwrap().clone();
    r.set("outcomes", json!(out));
    let g = |k: &str| out.get(k).copied().unwrap_or(0);
    for kind in [
        "open_position",
        "open_position_with_metadata",
        "open_position_with_token_extensions",
        "open_position_with_token_extensions_metadata",
        "open_bundled_position",
        "increase_liquidity",
        "decrease_liquidity",
        "close_position",
        "close_position_with_token_extensions",
        "close_bundled_position",
        "reset_position_range",
        "lock_position",
        "transfer_locked_position",
        "reposition_liquidity_v2",
        "delete_position_bundle",
    ] {
        r.guard(&format!("{kind}_ok"), g(&format!("{kind}:ok")));
        r.guard(&format!("{kind}_fail"), g(&format!("{kind}:fail")));
    }
    for kind in ["swap_to_earn", "update_fees_and_rewards", "collect_fees", "collect_reward"] {
        r.guard(&format!("{kind}_ok"), g(&format!("{kind}:ok")));
    }
    let a = |x: &AtomicU64| x.load(Ordering::Relaxed);
    r.guard("states_with_locked_position", a(&stats.locked_states));
    r.guard("states_with_2plus_bundled_open", a(&stats.multi_bundle_states));
    r.guard("close_blocked_by_owed_fees", a(&stats.close_blocked_by_fees));
    r.guard("close_blocked_by_fees_owed_in_one_token_only", a(&stats.close_blocked_by_fees_in_one_token));
    r.guard("close_blocked_by_owed_rewards_only", a(&stats.close_blocked_by_rewards_only));
    r.guard("close_blocked_by_lock", a(&stats.close_blocked_by_lock));
    r.guard("reset_blocked_by_owed_amounts", a(&stats.reset_blocked_by_owed));
    r.guard("sentinel_open_ok", a(&stats.sentinel_open_ok));
    r.guard("sentinel_open_price_exactly_on_tick", a(&stats.sentinel_open_on_tick));
    r.guard("locked_increase_ok", a(&stats.locked_inc_ok));
    r.guard("locked_collect_ok", a(&stats.locked_collect_ok));
    r.guard("close_position_on_bundled_position_refused", g("close_position_on_bundled_position:fail"));
    r.guard("locked_decrease_refused", a(&stats.locked_dec_refused));
    r.guard("locked_delegate_decrease_or_reposition_refused", a(&stats.locked_delegate_refused));
    r.guard("decrease_liquidity_by_delegate_ok", g("decrease_liquidity_by_delegate:ok"));
    r.guard("reposition_liquidity_v2_by_delegate_ok", g("reposition_liquidity_v2_by_delegate:ok"));
    r.guard("locked_rerange_refused", a(&stats.locked_rerange_refused));
    r.guard("lock_refused_without_liquidity", a(&stats.lock_refused_no_liquidity));
    r.guard("delete_bundle_refused_while_open", a(&stats.delete_refused_open));
    r.guard("full_range_only_pool_refused_other_range", a(&stats.fro_non_full_refused));
    r.guard("reopen_after_close", a(&stats.reopen_after_close));
    if r.violations.is_empty() {
        fnl::run_part_b(ctx, &mut r, &l0, &w);
    }
    r.set("exhaustive", false);
    r.assume("svm-lite faithfully replaces the validator (DESIGN §2.1); the Metaplex CPI of open_position_with_metadata is a recording stub");
    r.assume("liquidity / owed fees / owed rewards used by the enabledness oracle are read from the pre-state position account (their values are the subject of C10-C13)");
    r.assume("the instruction is signed by the right authority and funded amply (authorities are C04's subject)");
    r
}

pub fn replay(case: &Value) -> Result<(), String> {
    let (l0, w) = lw::build_world(WORLD_LABEL);
    let kind = case["kind"].as_str().unwrap_or("");
    if kind != "ops" && kind != "roots" {
        return fnl::replay_part_b(case, &l0, &w);
    }
    let quick = case["tier_quick"].as_bool().unwrap_or(true);
    let plan = case["plan"].as_str().ok_or("plan")?;
    let p = plans(quick).into_iter().find(|p| p.name == plan).ok_or("unknown plan")?;
    let stats = Stats::default();
    let m = LifeModel { w: &w, slots: p.slots.clone(), full_opens: p.full_opens, with_reposition: p.with_reposition, stats: &stats };
    let roots = build_roots(&m, &l0)?;
    if kind == "roots" {
        return Ok(());
    }
    let root = case["root"].as_str().ok_or("root")?;
    let mut cur = roots.into_iter().find(|r| r.0 == root).ok_or("unknown root")?.1;
    let path: Vec<Op> = serde_json::from_value(case["ops"].clone()).map_err(|e| e.to_string())?;
    for op in &path {
        match m.transition(&cur, op)? {
            None => return Ok(()),
            Some(n) => {
                m.invariant(&n)?;
                cur = n;
            }
        }
    }
    Ok(())
}
