//! C12 — Pinocchio fast path ≡ Anchor implementation.
//! Function-level part: `c12_fn` (usable-tick lookup, memory-mapped views, modify-liquidity differential).
//! Instruction-level part (here): explicit-state search over W-std worlds; every increase/decrease transition (v1 and v2,
//! fixed and dynamic tick arrays, SPL and Token-2022 mints) is executed from the same pre-state through the Pinocchio handler
//! (what entrypoint.rs routes to) and through the Anchor handler that still exists: identical result, post-ledger bytes
//! (all accounts incl. tick-array lengths and lamports), events; failing variants in every state; routing conformance of
//! the harness's dispatch against the program's real `entrypoint` symbol for every instruction discriminator.
use super::c12_fn;
use crate::liqhandlers::{self, DiffStats};
use crate::ops::{self, Lim, Op, Part, Stepped};
use crate::poolexplore::{self, PoolModel};
use crate::report::{Ctx, Report};
use crate::stdworlds::{self, Built};
use crate::world::{self, Enc, StdWorld};
use serde_json::{json, Value};
use std::sync::Mutex;
use svm::Ledger;

fn worlds(thorough: bool) -> Vec<Built> {
    let roots = stdworlds::std_roots();
    let mut v = vec![stdworlds::build_with_roots(&stdworlds::std_spec("c12-std-dfd", [Enc::Dynamic, Enc::Fixed, Enc::Dynamic], 3000, 300), &roots)];
    let mut rw = stdworlds::build_with_roots(&stdworlds::chain_spec("c12-chain-rewards", [Enc::Fixed, Enc::Dynamic, Enc::Dynamic], 3000, 300), &stdworlds::chain_roots());
    add_rewards(&mut rw);
    v.push(rw);
    if thorough {
        v.push(stdworlds::build_with_roots(&stdworlds::std_spec("c12-std-fdf", [Enc::Fixed, Enc::Dynamic, Enc::Fixed], 100, 2500), &roots[..4]));
        v.push(stdworlds::build_with_roots(&stdworlds::t22_spec("c12-t22", 100, 5_000, 5_000, u64::MAX), &roots[..3]));
        let ts1_roots: Vec<(&'static str, Vec<Op>)> = vec![
            ("fresh", vec![]),
            ("funded", vec![Op::Inc { pos: 0, liq: stdworlds::BIG * 1000, v2: false }, Op::Inc { pos: 1, liq: stdworlds::BIG * 100, v2: true }, Op::Inc { pos: 2, liq: stdworlds::BIG * 100, v2: true }]),
        ];
        v.push(stdworlds::build_with_roots(&stdworlds::ts1_spec("c12-ts1"), &ts1_roots));
    }
    v
}

/// Initialise rewards 0 and 1 on every root of a world: reward 0 keeps emitting, reward 1 emitted for a while and was then
/// paused (emissions 0 with non-zero accumulated growth) — the state in which "initialized" and "emitting" differ.
fn add_rewards(b: &mut Built) {
    use svm::keys::key;
    let w = b.w.clone();
    let auth = w.cfg.reward_emissions_super_authority;
    for (name, l) in b.roots.iter_mut() {
        for i in 0..2u8 {
            let mint = key(&format!("{}/rmint{i}", w.pool.addr));
            if l.get(&mint).is_none() {
                world::create_spl_mint(l, mint, 6, None);
            }
            let vault = world::reward_vault_key(&w.pool, i);
            world::must("init_reward", svm::process(l, &world::ix_init_reward(&w.pool, auth, w.funder, mint, world::TOKEN, i, i == 1)));
            let mi = spl_token::instruction::mint_to(&world::TOKEN, &mint, &vault, &world::mint_authority(), &[], 1_000_000_000_000).unwrap();
            svm::process_builtin(l, &mi).unwrap();
            world::must("set_emissions", svm::process(l, &world::ix_set_reward_emissions(&w.pool, auth, vault, i, (3u128 + i as u128) << 64, i == 0)));
        }
        l.unix_ts += 1000;
        for p in &w.positions {
            if p.exists(l) && p.state(l).liquidity > 0 {
                world::must("update", svm::process(l, &world::ix_update_fees_and_rewards(p)));
            }
        }
        let vault1 = world::reward_vault_key(&w.pool, 1);
        world::must("pause reward 1", svm::process(l, &world::ix_set_reward_emissions(&w.pool, auth, vault1, 1, 0, false)));
        l.unix_ts += 500;
        let _ = name;
    }
}

fn alphabet(b: &Built) -> Vec<Op> {
    let n = b.w.positions.len() as u8;
    let mut a = vec![];
    for pos in 0..n {
        a.push(Op::Inc { pos, liq: stdworlds::BIG, v2: false });
        a.push(Op::Inc { pos, liq: 12_345, v2: true });
        a.push(Op::Dec { pos, part: Part::All, v2: true });
        a.push(Op::Dec { pos, part: Part::Half, v2: false });
    }
    for a_to_b in [true, false] {
        a.push(Op::Swap { a_to_b, exact_in: true, amount: u64::MAX >> 8, lim: Lim::NextTick, v2: a_to_b });
        a.push(Op::Swap { a_to_b, exact_in: true, amount: 3_000_000, lim: Lim::None, v2: !a_to_b });
    }
    a.push(Op::Clock(1));
    a
}

fn model<'a>(b: &'a Built, stats: &'a Mutex<DiffStats>, edge: &'a Mutex<DiffStats>) -> PoolModel<'a> {
    PoolModel::new(
        &b.w,
        alphabet(b),
        Box::new(move |l: &Ledger, w: &StdWorld| {
            let mut local = DiffStats::default();
            for ix in liqhandlers::edge_variants(l, w) {
                liqhandlers::pino_vs_anchor(l, &ix, &mut local).map_err(|e| format!("edge variant {:?}...: {e}", &ix.data[..ix.data.len().min(12)]))?;
            }
            let mut g = edge.lock().unwrap();
            g.both_ok += local.both_ok;
            g.both_failed += local.both_failed;
            g.same_code += local.same_code;
            Ok(())
        }),
        Box::new(move |pre: &Ledger, st: &Stepped, _w: &StdWorld, op: &Op| match op {
            Op::Inc { .. } | Op::Dec { .. } => {
                let mut local = DiffStats::default();
                let res = liqhandlers::pino_vs_anchor(pre, st.ix.as_ref().unwrap(), &mut local);
                let mut g = stats.lock().unwrap();
                g.both_ok += local.both_ok;
                g.both_failed += local.both_failed;
                g.same_code += local.same_code;
                g.dynamic_resizes += local.dynamic_resizes;
                res
            }
            _ => Ok(()),
        }),
    )
}

/// The harness replicates entrypoint.rs's dispatch so that panics can be caught; this checks the replica against the
/// program's real `entrypoint` symbol for every instruction discriminator (and unknown ones). With zero accounts neither path
/// can panic: both fail on the first account fetch. The paths are told apart by the log: the Anchor dispatcher logs
/// "Instruction: <Name>" before account validation, the Pinocchio branch logs nothing.
fn routing_conformance(r: &mut Report) {
    let names = instruction_discriminators();
    let mut pino = 0u64;
    let mut anchor = 0u64;
    let mut l = world::base_ledger();
    svm::set_capture_logs(true);
    for (name, disc) in &names {
        let mut data = disc.clone();
        data.extend_from_slice(&[0u8; 64]);
        let ix = world::ix(vec![], data.clone());
        let o = svm::process_routed(&mut l, &ix, svm::Route::RealEntrypoint);
        // the Anchor dispatcher always logs (instruction name, or the fallback-not-found error); the Pinocchio branch never does
        let logged = !o.logs.is_empty();
        let expect_pino = svm::routes_to_pinocchio(&data);
        if logged == expect_pino {
            r.violation(
                format!("routing/{name}"),
                format!("entrypoint routes {name} to the {} path but the harness replica to the other (logs: {:?})", if logged { "Anchor" } else { "Pinocchio" }, o.logs),
                json!({"kind":"routing","name":name}),
            );
        }
        if o.ok() {
            r.violation(format!("routing-ok/{name}"), format!("{name} with zero accounts succeeded"), json!({"kind":"routing","name":name}));
        }
        if expect_pino {
            pino += 1;
        } else {
            anchor += 1;
        }
    }
    svm::set_capture_logs(false);
    r.set("routing_discriminators_checked", names.len() as u64);
    r.set("routing_pinocchio", pino);
    r.set("routing_anchor", anchor);
    r.guard("routing_pinocchio_instructions", pino);
    r.guard("routing_anchor_instructions", anchor);
}

/// (name, 8-byte discriminator) of every instruction of the program, taken from the program's own generated types.
pub fn instruction_discriminators() -> Vec<(String, Vec<u8>)> {
    use anchor_lang::Discriminator;
    use whirlpool::instruction as wi;
    macro_rules! d {
        ($($t:ident),* $(,)?) => { vec![$((stringify!($t).to_string(), wi::$t::DISCRIMINATOR.to_vec())),*] };
    }
    let mut v = d!(
        InitializeConfig, InitializePool, InitializeTickArray, InitializeDynamicTickArray, InitializeFeeTier, InitializeReward,
        SetRewardEmissions, OpenPosition, OpenPositionWithMetadata, IncreaseLiquidity, DecreaseLiquidity, UpdateFeesAndRewards,
        CollectFees, CollectReward, CollectProtocolFees, Swap, ClosePosition, SetDefaultFeeRate, SetDefaultProtocolFeeRate,
        SetFeeRate, SetProtocolFeeRate, SetFeeAuthority, SetCollectProtocolFeesAuthority, SetRewardAuthority,
        SetRewardAuthorityBySuperAuthority, SetRewardEmissionsSuperAuthority, TwoHopSwap, InitializePositionBundle,
        InitializePositionBundleWithMetadata, DeletePositionBundle, OpenBundledPosition, CloseBundledPosition,
        OpenPositionWithTokenExtensions, ClosePositionWithTokenExtensions, LockPosition, ResetPositionRange,
        TransferLockedPosition, InitializeAdaptiveFeeTier, SetDefaultBaseFeeRate, SetDelegatedFeeAuthority,
        SetInitializePoolAuthority, SetPresetAdaptiveFeeConstants, InitializePoolWithAdaptiveFee,
        SetFeeRateByDelegatedFeeAuthority, SetAdaptiveFeeConstants, SetConfigFeatureFlag, MigrateRepurposeRewardAuthoritySpace,
        CollectFeesV2, CollectProtocolFeesV2, CollectRewardV2, DecreaseLiquidityV2, IncreaseLiquidityV2,
        IncreaseLiquidityByTokenAmountsV2, InitializePoolV2, InitializeRewardV2, SetRewardEmissionsV2, SwapV2, TwoHopSwapV2,
        RepositionLiquidityV2, InitializeConfigExtension, SetConfigExtensionAuthority, SetTokenBadgeAuthority,
        InitializeTokenBadge, DeleteTokenBadge, SetTokenBadgeAttribute, IdlInclude,
    );
    v.push(("Unknown".into(), vec![1, 2, 3, 4, 5, 6, 7, 8]));
    v.push(("Empty".into(), vec![]));
    v
}

pub fn run(ctx: &Ctx) -> Report {
    let mut r = Report::new("C12", "model_checking");
    c12_fn::run_fn(ctx, &mut r);
    let rule = r.coverage.get("fn_rule").cloned().unwrap_or(Value::Null);
    r.set("rule", rule);
    routing_conformance(&mut r);
    if r.violations.is_empty() {
        let ws = worlds(!ctx.tier.is_quick());
        let share = ctx.left() * 0.9 / ws.len() as f64;
        let stats = Mutex::new(DiffStats::default());
        let edge = Mutex::new(DiffStats::default());
        for b in &ws {
            let m = model(b, &stats, &edge);
            let out = poolexplore::run_world(ctx, &mut r, b, &m, ctx.depth(3, 5), share);
            poolexplore::fold(&mut r, &b.name, &out, &m.alphabet[..3]);
            if !r.violations.is_empty() {
                break;
            }
        }
        let s = stats.lock().unwrap().clone();
        let e = edge.lock().unwrap().clone();
        r.set("handler_differentials_both_succeeded", s.both_ok);
        r.set("handler_differentials_both_failed", s.both_failed + e.both_failed);
        r.set("edge_variant_differentials", e.both_ok + e.both_failed);
        r.guard("handler_differentials_both_succeeded", s.both_ok);
        r.guard("edge_variants_failing_with_same_program_error", e.same_code);
        r.guard("dynamic_tick_array_resizes_compared", s.dynamic_resizes);
    }
    r.set("exhaustive", false);
    r.assume("svm-lite faithfully replaces the validator (DESIGN §2.1); 'same error' = same program error code whenever both handlers return one");
    r
}

pub fn replay(case: &Value) -> Result<(), String> {
    if let Some(res) = c12_fn::replay_fn(case) {
        return res;
    }
    match case["kind"].as_str() {
        Some("ops") => {
            let ws = worlds(true);
            let name = case["world"].as_str().ok_or("world")?;
            let b = ws.iter().find(|b| b.name == name).ok_or("unknown world")?;
            let stats = Mutex::new(DiffStats::default());
            let edge = Mutex::new(DiffStats::default());
            let m = model(b, &stats, &edge);
            poolexplore::replay_ops(b, &m, case["root"].as_str().ok_or("root")?, &case["ops"])
        }
        Some("routing") => {
            let mut r = Report::new("C12", "model_checking");
            routing_conformance(&mut r);
            let name = case["name"].as_str().unwrap_or("");
            match r.violations.iter().find(|v| v.key.ends_with(&format!("/{name}"))) {
                Some(v) => Err(v.detail.clone()),
                None => Ok(()),
            }
        }
        _ => Err("bad case".into()),
    }
}
