//! C12 — Pinocchio fast path ≡ Anchor implementation.
//! Function-level part: `c12_fn` (usable-tick lookup, memory-mapped views, modify-liquidity differential).
//! The instruction-level differential on explored ledger states is added here by the main agent.
use super::c12_fn;
use crate::report::{Ctx, Report};
use serde_json::Value;

pub fn run(ctx: &Ctx) -> Report {
    let mut r = Report::new("C12", "exploration");
    c12_fn::run_fn(ctx, &mut r);
    let rule = r.coverage.get("fn_rule").cloned().unwrap_or(Value::Null);
    r.set("rule", rule);
    r.set("exhaustive", false);
    r
}

pub fn replay(case: &Value) -> Result<(), String> {
    if let Some(res) = c12_fn::replay_fn(case) {
        return res;
    }
    Err("bad case".into())
}
