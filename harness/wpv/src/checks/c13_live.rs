//! C13, live part — the same comparison through the instruction path that owns the account length (DESIGN §C13).
//!
//! The codec part (c13.rs) drives `update_tick` itself and keeps the used length by hand. On chain the length of a dynamic
//! tick-array account is decided by the liquidity handlers (`calculate_modify_tick_array` -> `update_tick_array_accounts`:
//! +112 bytes and one tick's rent before an initialising update, -112 after a de-initialising one), per tick array of the
//! position, and `update_tick` runs on whatever length the handler left. This part runs that path.
//!
//! Worlds: per layout one pool built once per assignment of {fixed, dynamic} to its tick arrays (all 2^n), every one with the
//! SAME keys (same label), so that one instruction is valid in all of them. Layouts "mixed" and "edge": spacing 64, arrays
//! -1 / 0 / 1; positions put their lower / upper tick into different accounts of every kind pair (adjacent and two arrays
//! apart) and into the same account; bounds are shared between positions and sit in the first, second and last slots, so
//! that (de)initialising one tick moves the packed bytes of others. Layout "splash": spacing 32768, arrays -1 / 0, full-range
//! positions (lower tick in array -1, upper in array 0). The all-fixed world is the twin. Every op of a sequence (increase v1 /
//! v2 / by token amounts, decrease all / half / one, reposition, swaps crossing ticks) is built once (from the twin) and
//! executed in every world; increase / decrease additionally through the Anchor handlers (second family of worlds with its
//! own all-fixed twin). All op sequences up to depth 3 (quick) / 5 (thorough) from fresh and funded roots.
//!
//! State oracle, for every tick array of every world, against the same array of the twin that ran the same sequence:
//!   * a dynamic account: decodes as discriminator, start, pool, bitmap, then per slot 0x00 | 0x01 + 112 bytes consuming
//!     exactly the REAL account length; bitmap bit k == tag of slot k; length == 148 + 112 x popcount(bitmap);
//!     all 88 decoded ticks == the twin's; and, once per distinct (dynamic image, fixed image) pair, `get_tick` on all 88
//!     slots through the Anchor and the Pinocchio accessor == both fixed accessors on the twin, and
//!     `get_next_init_tick_index` from every slot tick (and inside-slot / out-of-range offsets), both directions, with the
//!     same answers and the same errors as the fixed array;
//!   * a fixed account (in any world): still 9988 bytes, same 88 ticks as the twin's.
//! Transition oracle: an op succeeds in a world iff it succeeds in the twin (the dynamic array "errors on the same
//! inputs"); two whirlpool error codes must be equal; after a swap the pool's (sqrt_price, tick_current_index, liquidity) —
//! the observable outcome of the swap loop's next-initialised-tick queries and crossed ticks — equal the twin's.
use super::c13::{a_code, a_dyn, a_fix, from_atick, from_ptick, guarded, p_code, p_dyn, p_fix, BUF, DYN_MIN, FIX_LEN};
use crate::decode;
use crate::explore::{self, Limits, Model};
use crate::ops::{self, Lim, Op, Part};
use crate::report::{Ctx, Report};
use crate::world::{self, Enc, StdSpec, StdWorld};
use serde::{Deserialize, Serialize};
use serde_json::{json, Value};
use solana_program::instruction::Instruction;
use std::collections::{BTreeMap, HashSet};
use std::sync::Mutex;
use svm::{Fp, Ledger, Route};
use whirlpool::pinocchio::verif_export::state::whirlpool::tick_array::TickArray as PTickArray;
use whirlpool::state::TickArrayType;

const BIG: u128 = 1_000_000_000;
const P0: u128 = 1u128 << 64;

#[derive(Clone, Debug, PartialEq, Eq, Hash, Serialize, Deserialize)]
pub enum LOp {
    Std(Op),
    /// increase_liquidity_by_token_amounts_v2 (Pinocchio only)
    IncAmt { pos: u8, max_a: u64, max_b: u64 },
}

#[derive(Clone, Debug, PartialEq, Eq)]
struct Variant {
    kinds: Vec<Enc>,
    /// liquidity ops through the Anchor handlers (reference implementation) instead of the live Pinocchio ones
    anchor: bool,
}
impl Variant {
    fn name(&self) -> String {
        let k: String = self.kinds.iter().map(|e| if *e == Enc::Dynamic { 'D' } else { 'F' }).collect();
        format!("{}/{}", k, if self.anchor { "anchor" } else { "pinocchio" })
    }
    fn all_fixed(&self) -> bool {
        self.kinds.iter().all(|k| *k == Enc::Fixed)
    }
}

/// layout name -> (positions, alphabet, roots)
struct Layout {
    name: &'static str,
    ts: u16,
    /// tick arrays that exist (offsets relative to array 0), each fixed or dynamic per world
    offs: Vec<i32>,
    positions: Vec<(i32, i32, bool)>,
    alphabet: Vec<LOp>,
    roots: Vec<(&'static str, Vec<LOp>)>,
}

fn swap_past(a_to_b: bool, v2: bool) -> LOp {
    LOp::Std(Op::Swap { a_to_b, exact_in: true, amount: u64::MAX >> 8, lim: Lim::PastNextTick, v2 })
}

/// "mixed": P0 [-128,128) arrays (-1,0); P1 [128,5696) arrays (0,1), shares 128 with P0; P2 [5568,5632) last slot of array 0 /
/// first slot of array 1; P3 [-5632,-128) first and 87th slot of array -1 (same account), shares -128 with P0.
/// "edge": bounds in the two first and two last slots of every array, ranges nested across all three arrays.
fn layouts() -> Vec<Layout> {
    let inc = |pos: u8, liq: u128, v2: bool| LOp::Std(Op::Inc { pos, liq, v2 });
    let dec = |pos: u8, part: Part, v2: bool| LOp::Std(Op::Dec { pos, part, v2 });
    let repos = |pos: u8, lower: i32, upper: i32, liq: u128| LOp::Std(Op::Repos { pos, lower, upper, liq });
    let swap = |a_to_b: bool, amount: u64, v2: bool| LOp::Std(Op::Swap { a_to_b, exact_in: true, amount, lim: Lim::None, v2 });
    let mut out = vec![];
    {
        let alphabet = vec![
            inc(0, BIG, false),
            inc(1, BIG, true),
            inc(2, BIG, false),
            inc(3, BIG, true),
            dec(0, Part::All, true),
            dec(1, Part::All, false),
            dec(2, Part::All, true),
            dec(3, Part::All, false),
            dec(1, Part::Half, true),
            LOp::IncAmt { pos: 0, max_a: 1_000_000, max_b: 1_000_000 },
            repos(0, -64, 192, BIG / 2),      // last slot of array -1, slot 3 of array 0
            repos(0, -128, 128, BIG),         // back onto the shared bounds
            repos(3, -5568, 5760, BIG / 4),   // slot 1 of array -1, slot 2 of array 1: lower and upper two arrays apart
            repos(3, -5632, -128, BIG),       // back into one account
            swap_past(true, false),
            swap_past(false, true),
            swap(true, 20_000_000, true),
            swap(false, 20_000_000, false),
        ];
        let funded = vec![inc(0, BIG, false), inc(1, BIG / 2, true), inc(2, BIG / 4, false), inc(3, BIG / 8, true)];
        let mut high = funded.clone();
        high.push(swap_past(false, true)); // across 128
        high.push(swap_past(false, false)); // across 5568: the price sits in the last slot of array 0
        out.push(Layout {
            name: "mixed",
            ts: 64,
            offs: vec![-1, 0, 1],
            positions: vec![(-128, 128, false), (128, 5696, true), (5568, 5632, false), (-5632, -128, true)],
            alphabet,
            roots: vec![("fresh", vec![]), ("funded", funded), ("funded-high", high)],
        });
    }
    {
        // P0 [-64,64) (last slot of -1, slot 1 of 0); P1 [0,5632) (first slot of 0, first slot of 1); P2 [-5568,5696) (slot 1 of -1,
        // slot 1 of 1); P3 [64,5568) (slot 1 and last slot of array 0: same account, shares 64 with P0)
        let alphabet = vec![
            inc(0, BIG, true),
            inc(1, BIG, false),
            inc(2, BIG, true),
            inc(3, BIG, false),
            dec(0, Part::All, false),
            dec(1, Part::All, true),
            dec(2, Part::All, false),
            dec(3, Part::All, true),
            inc(3, 1, true),
            dec(2, Part::One, true),
            LOp::IncAmt { pos: 1, max_a: 3_000_000, max_b: 3_000_000 },
            repos(1, -5632, 5632, BIG / 2), // first slot of array -1 and of array 1
            repos(1, 0, 5632, BIG),
            repos(3, 5568, 11200, BIG / 2), // last slot of array 0, last slot of array 1
            repos(3, 64, 5568, BIG),
            swap_past(true, true),
            swap_past(false, false),
            swap(true, 40_000_000, false),
            swap(false, 40_000_000, true),
        ];
        let funded = vec![inc(0, BIG, true), inc(1, BIG / 2, false), inc(2, BIG / 4, true), inc(3, BIG / 8, false)];
        out.push(Layout {
            name: "edge",
            ts: 64,
            offs: vec![-1, 0, 1],
            positions: vec![(-64, 64, true), (0, 5632, false), (-5568, 5696, false), (64, 5568, true)],
            alphabet,
            roots: vec![("fresh", vec![]), ("funded", funded)],
        });
    }
    {
        // full-range-only pool (spacing 32768): every position is [-425984, 425984), lower tick in slot 75 of array -1, upper tick in
        // slot 13 of array 0 - the commonest real mixed pair
        let alphabet = vec![
            inc(0, BIG, false),
            inc(1, BIG / 2, true),
            dec(0, Part::All, true),
            dec(1, Part::All, false),
            dec(0, Part::Half, false),
            inc(1, 1, false),
            dec(1, Part::One, true),
            LOp::IncAmt { pos: 0, max_a: 1_000_000, max_b: 1_000_000 },
            repos(1, -425984, 425984, BIG / 4),
            swap(true, 40_000_000, false),
            swap(false, 40_000_000, true),
        ];
        out.push(Layout {
            name: "splash",
            ts: 32768,
            offs: vec![-1, 0],
            positions: vec![(-425984, 425984, false), (-425984, 425984, true)],
            alphabet,
            roots: vec![("fresh", vec![]), ("funded", vec![inc(0, BIG, true)])],
        });
    }
    out
}

fn spec(l: &Layout, kinds: &[Enc]) -> StdSpec {
    StdSpec {
        // the same label for every kind assignment: identical keys, so one instruction fits all worlds
        label: format!("c13-live-{}", l.name),
        tick_spacing: l.ts,
        fee_rate: 3000,
        protocol_fee_rate: 300,
        sqrt_price: P0,
        arrays: l.offs.iter().zip(kinds.iter()).map(|(o, k)| (*o, *k)).collect(),
        positions: l.positions.clone(),
        t22_a: None,
        t22_b: None,
    }
}

fn variants(n: usize, with_anchor: bool) -> Vec<Variant> {
    let mut v = vec![];
    for anchor in [false, true] {
        if anchor && !with_anchor {
            continue;
        }
        for m in 0..1u32 << n {
            v.push(Variant { kinds: (0..n).map(|b| if m >> b & 1 == 1 { Enc::Dynamic } else { Enc::Fixed }).collect(), anchor });
        }
    }
    v
}

#[derive(Clone)]
pub struct Multi {
    l: Vec<Ledger>,
}

#[derive(Default, Clone, Debug)]
struct LStats {
    m: BTreeMap<String, u64>,
}
impl LStats {
    fn add(&mut self, k: &str, n: u64) {
        if n > 0 {
            *self.m.entry(k.to_string()).or_insert(0) += n;
        }
    }
    fn merge(&mut self, o: &LStats) {
        for (k, n) in &o.m {
            *self.m.entry(k.clone()).or_insert(0) += n;
        }
    }
    fn get(&self, k: &str) -> u64 {
        self.m.get(k).cloned().unwrap_or(0)
    }
}

struct LiveModel {
    layout: Layout,
    w: StdWorld,
    variants: Vec<Variant>,
    /// twin index per variant (the all-fixed world of the same handler family)
    twin: Vec<usize>,
    arrays: Vec<solana_program::pubkey::Pubkey>,
    stats: Mutex<LStats>,
    swept: Mutex<HashSet<(u128, u128)>>,
}

fn image_fp(b: &[u8]) -> u128 {
    let mut h = Fp::new();
    h.u64(b.len() as u64);
    h.bytes(b);
    h.finish()
}

fn is_liq_incdec(op: &LOp) -> bool {
    matches!(op, LOp::Std(Op::Inc { .. }) | LOp::Std(Op::Dec { .. }))
}
fn op_kind(op: &LOp) -> &'static str {
    match op {
        LOp::Std(Op::Inc { .. }) => "increase",
        LOp::Std(Op::Dec { .. }) => "decrease",
        LOp::Std(Op::Repos { .. }) => "reposition",
        LOp::Std(Op::Swap { .. }) => "swap",
        LOp::IncAmt { .. } => "increase_by_token_amounts",
        _ => "other",
    }
}

/// tick indexes from which next-initialised-tick searches are started on an array starting at `start`
fn next_queries(start: i32, ts: u16) -> Vec<i32> {
    let ts = ts as i32;
    let mut q = vec![];
    for k in -2i32..=89 {
        let base = start + k * ts;
        q.push(base);
        if k <= 1 || (62..=65).contains(&k) || k >= 86 {
            q.push(base + 1);
            q.push(base + ts - 1);
        }
    }
    q
}

impl LiveModel {
    fn new(layout: Layout, with_anchor: bool) -> LiveModel {
        let variants = variants(layout.offs.len(), with_anchor);
        let (_, w) = world::build_std(&spec(&layout, &vec![Enc::Fixed; layout.offs.len()]));
        let arrays = layout.offs.iter().map(|o| w.pool.tick_array(o * 88 * layout.ts as i32)).collect();
        let twin = variants.iter().map(|v| variants.iter().position(|t| t.all_fixed() && t.anchor == v.anchor).unwrap()).collect();
        LiveModel { layout, w, variants, twin, arrays, stats: Mutex::new(LStats::default()), swept: Mutex::new(HashSet::new()) }
    }

    fn fresh(&self) -> Multi {
        let mut l = vec![];
        for v in &self.variants {
            let (led, w) = world::build_std(&spec(&self.layout, &v.kinds));
            assert_eq!(w.pool.addr, self.w.pool.addr, "harness: worlds of one layout must share their keys");
            assert_eq!(w.positions.iter().map(|p| p.addr).collect::<Vec<_>>(), self.w.positions.iter().map(|p| p.addr).collect::<Vec<_>>());
            l.push(led);
        }
        Multi { l }
    }

    /// the instruction of an op, built from the twin's state (position liquidity, next initialised tick): one instruction for all worlds
    fn build(&self, twin: &Ledger, op: &LOp) -> Option<Instruction> {
        match op {
            LOp::Std(o) => ops::build(twin, &self.w, o),
            LOp::IncAmt { pos, max_a, max_b } => {
                let p = self.w.positions.get(*pos as usize)?.at(twin);
                Some(world::ix_increase_by_token_amounts(&p, &self.w.lp, *max_a, *max_b, crate::refmodel::MIN_SQRT_PRICE, crate::refmodel::MAX_SQRT_PRICE))
            }
        }
    }

    fn tia(&self) -> i32 {
        88 * self.layout.ts as i32
    }

    /// tick arrays (indexes into `offs`) holding the lower / upper tick of a range, None when outside the three arrays
    fn arrays_of(&self, lower: i32, upper: i32) -> Option<(usize, usize)> {
        let idx = |t: i32| {
            let o = t.div_euclid(self.tia());
            self.layout.offs.iter().position(|x| *x == o)
        };
        Some((idx(lower)?, idx(upper)?))
    }

    fn class(&self, v: &Variant, range: (i32, i32)) -> Option<&'static str> {
        let (a, b) = self.arrays_of(range.0, range.1)?;
        let d = |i: usize| v.kinds[i] == Enc::Dynamic;
        Some(match (a == b, d(a), d(b)) {
            (true, true, _) => "both_ticks_in_one_dynamic_account",
            (true, false, _) => "both_ticks_in_one_fixed_account",
            (false, true, true) => "lower_dynamic_upper_dynamic",
            (false, false, true) => "lower_fixed_upper_dynamic",
            (false, true, false) => "lower_dynamic_upper_fixed",
            (false, false, false) => "lower_fixed_upper_fixed",
        })
    }

    fn transition_stats(&self, op: &LOp, pre: &Multi, post: &[Ledger], s: &mut LStats) {
        s.add(&format!("ok_{}", op_kind(op)), 1);
        // ranges touched by the op (old = ticks that may be de-initialised, new = ticks that may be initialised)
        let pos_of = |o: &LOp| match o {
            LOp::Std(Op::Inc { pos, .. }) | LOp::Std(Op::Dec { pos, .. }) | LOp::Std(Op::Repos { pos, .. }) | LOp::IncAmt { pos, .. } => Some(*pos as usize),
            _ => None,
        };
        let old_range = pos_of(op).map(|p| {
            let st = self.w.positions[p].at(&pre.l[0]);
            (st.lower, st.upper)
        });
        let new_range = match op {
            LOp::Std(Op::Repos { lower, upper, .. }) => Some((*lower, *upper)),
            _ => old_range,
        };
        for (i, v) in self.variants.iter().enumerate() {
            let fam = if v.anchor && is_liq_incdec(op) { "anchor_" } else { "" };
            for (j, key) in self.arrays.iter().enumerate() {
                if v.kinds[j] != Enc::Dynamic {
                    continue;
                }
                let (a, b) = (pre.l[i].data(key), post[i].data(key));
                if a == b || a.len() < DYN_MIN || b.len() < DYN_MIN {
                    continue;
                }
                let bm = |x: &[u8]| u128::from_le_bytes(x[44..60].try_into().unwrap());
                let (ba, bb) = (bm(a), bm(b));
                let d = b.len() as i64 - a.len() as i64;
                if let LOp::Std(Op::Swap { .. }) = op {
                    s.add("swap_rewrote_ticks_of_a_dynamic_array", 1);
                    continue;
                }
                if d == 0 && ba == bb {
                    s.add(&format!("{fam}liquidity_change_on_initialized_ticks_of_a_dynamic_array_without_resize"), 1);
                    continue;
                }
                let changed = ba ^ bb;
                if changed != 0 {
                    let k = changed.trailing_zeros();
                    if k < 127 && (ba & bb) >> (k + 1) != 0 {
                        s.add(&format!("{fam}resizes_moving_the_bytes_of_later_ticks"), 1);
                    }
                    if changed >> 64 != 0 {
                        s.add("resizes_in_the_upper_bitmap_word", 1);
                    }
                }
                let (dir, range) = if d > 0 { ("grow", new_range) } else if d < 0 { ("shrink", old_range) } else { ("swap_slots", new_range) };
                if d.abs() == 224 {
                    s.add(&format!("{fam}{dir}_by_two_ticks_in_one_instruction"), 1);
                }
                if let Some(c) = range.and_then(|r| self.class(v, r)) {
                    s.add(&format!("{fam}{dir}_{c}"), 1);
                }
                if matches!(op, LOp::Std(Op::Repos { .. })) {
                    s.add("reposition_resizes", 1);
                }
            }
        }
    }

    /// accessor-level answers on one (dynamic image, fixed image of the twin) pair
    fn sweep(&self, dynimg: &[u8], fix: &[u8], start: i32, s: &mut LStats) -> Result<(), String> {
        #[allow(non_snake_case)]
        let TS = self.layout.ts;
        let mut buf = vec![0u8; BUF];
        buf[..dynimg.len()].copy_from_slice(dynimg);
        for k in 0..88 {
            let t = start + k * TS as i32;
            let got = [
                guarded(|| a_dyn(&buf).get_tick(t, TS).map(from_atick).map_err(a_code)),
                guarded(|| p_dyn(&buf).get_tick(t, TS).map(from_ptick).map_err(p_code)),
                guarded(|| a_fix(fix).get_tick(t, TS).map(from_atick).map_err(a_code)),
                guarded(|| p_fix(fix).get_tick(t, TS).map(from_ptick).map_err(p_code)),
            ];
            s.add("get_tick_answers_compared", 4);
            if got[0] != got[2] || got[1] != got[2] || got[3] != got[2] {
                return Err(format!("get_tick({t}): dynamic/Anchor {:?}, dynamic/Pinocchio {:?}, fixed/Anchor (twin) {:?}, fixed/Pinocchio (twin) {:?}", got[0], got[1], got[2], got[3]));
            }
        }
        for t in next_queries(start, TS) {
            for a_to_b in [true, false] {
                let d = guarded(|| a_dyn(&buf).get_next_init_tick_index(t, TS, a_to_b).map_err(a_code));
                let f = guarded(|| a_fix(fix).get_next_init_tick_index(t, TS, a_to_b).map_err(a_code));
                s.add("next_init_answers_compared", 1);
                if f.is_err() {
                    s.add("next_init_error_answers_compared", 1);
                }
                if d != f {
                    return Err(format!("get_next_init_tick_index({t}, a_to_b={a_to_b}): dynamic {:?}, fixed (twin) {:?}", d, f));
                }
            }
        }
        Ok(())
    }

    fn check_array(&self, v: &Variant, j: usize, mine: &Ledger, twin: &Ledger, s: &mut LStats) -> Result<(), String> {
        let key = &self.arrays[j];
        let start = self.layout.offs[j] * self.tia();
        let what = format!("world {} tick array {} ({})", v.name(), start, if v.kinds[j] == Enc::Dynamic { "dynamic" } else { "fixed" });
        let a = mine.get(key).ok_or(format!("{what}: account is gone"))?;
        let t = twin.get(key).ok_or(format!("tick array {start} of the all-fixed twin is gone"))?;
        if t.data.len() != FIX_LEN {
            return Err(format!("tick array {start} of the all-fixed twin: account length {} (a fixed tick array is {FIX_LEN} bytes)", t.data.len()));
        }
        let td = decode::tick_array(&t.data).map_err(|e| format!("tick array {start} of the all-fixed twin: {e}"))?;
        if v.kinds[j] == Enc::Fixed {
            if a.data.len() != FIX_LEN {
                return Err(format!("{what}: account length {} (a fixed tick array is {FIX_LEN} bytes)", a.data.len()));
            }
            s.add("fixed_accounts_checked", 1);
            if a.data == t.data {
                return Ok(());
            }
            let ad = decode::tick_array(&a.data).map_err(|e| format!("{what}: {e}"))?;
            if ad.dynamic {
                return Err(format!("{what}: the account turned dynamic"));
            }
            for k in 0..88 {
                if ad.ticks[k] != td.ticks[k] || ad.raw_flags[k] != td.raw_flags[k] {
                    return Err(format!("{what}: slot {k} holds {:?}; the all-fixed twin after the same sequence: {:?}", ad.ticks[k], td.ticks[k]));
                }
            }
            return Ok(());
        }
        // dynamic: well-formedness on the real account length
        let len = a.data.len();
        if len < DYN_MIN || a.data[..8] != decode::DYN_TA_DISC {
            return Err(format!("{what}: not a dynamic tick array any more (length {len})"));
        }
        let bitmap = u128::from_le_bytes(a.data[44..60].try_into().unwrap());
        let n = bitmap.count_ones() as usize;
        if len != DYN_MIN + 112 * n {
            return Err(format!("{what}: account length {len} != 148 + 112 x {n} = {} (bitmap {bitmap:#x})", DYN_MIN + 112 * n));
        }
        let ad = decode::tick_array(&a.data).map_err(|e| format!("{what}: encoding not well formed: {e} (bitmap {bitmap:#x}, length {len})"))?;
        if ad.start_tick_index != td.start_tick_index || ad.whirlpool != td.whirlpool || ad.whirlpool != self.w.pool.addr {
            return Err(format!("{what}: header decodes to start {} pool {}, twin has start {} pool {}", ad.start_tick_index, ad.whirlpool, td.start_tick_index, td.whirlpool));
        }
        for k in 0..88 {
            let bit = (bitmap >> k & 1) as u8;
            if ad.raw_flags[k] != bit {
                return Err(format!("{what}: bitmap bit {k} = {bit} but slot {k} is encoded with tag {} (bitmap {bitmap:#x})", ad.raw_flags[k]));
            }
            if ad.ticks[k] != td.ticks[k] {
                return Err(format!("{what}: slot {k} (tick {}) holds {:?}; the fixed array of the twin after the same sequence: {:?}", start + k as i32 * self.layout.ts as i32, ad.ticks[k], td.ticks[k]));
            }
        }
        s.add("dynamic_accounts_checked", 1);
        s.add("tick_slots_compared_with_the_twin", 88);
        if n >= 2 {
            s.add("dynamic_accounts_with_two_or_more_ticks", 1);
        }
        if n >= 3 {
            s.add("dynamic_accounts_with_three_or_more_ticks", 1);
        }
        if bitmap >> 87 & 1 == 1 && n >= 2 {
            s.add("dynamic_accounts_with_last_slot_and_another_tick", 1);
        }
        let pair = (image_fp(&a.data), image_fp(&t.data));
        let fresh = self.swept.lock().unwrap().insert(pair);
        if fresh {
            s.add("distinct_image_pairs_swept_through_the_accessors", 1);
            self.sweep(&a.data, &t.data, start, s).map_err(|e| format!("{what}: {e}"))?;
        }
        Ok(())
    }

    fn check_multi(&self, m: &Multi, s: &mut LStats) -> Result<(), String> {
        for (i, v) in self.variants.iter().enumerate() {
            let twin = &m.l[self.twin[i]];
            for j in 0..self.arrays.len() {
                self.check_array(v, j, &m.l[i], twin, s)?;
            }
        }
        s.add("states_checked", 1);
        Ok(())
    }

    fn do_step(&self, pre: &Multi, op: &LOp, s: &mut LStats) -> Result<Option<Multi>, String> {
        let Some(ix) = self.build(&pre.l[0], op) else {
            s.add("ops_not_applicable", 1);
            return Ok(None);
        };
        let mut post = Vec::with_capacity(pre.l.len());
        let mut res = Vec::with_capacity(pre.l.len());
        for (i, v) in self.variants.iter().enumerate() {
            let route = if v.anchor && is_liq_incdec(op) { Route::ForceAnchor } else { Route::Auto };
            let st = ops::apply_ix(&pre.l[i], &ix, route);
            res.push(st.outcome.result.clone());
            post.push(st.ledger);
        }
        // errors on the same inputs
        for (i, v) in self.variants.iter().enumerate() {
            let t = self.twin[i];
            if i == t {
                continue;
            }
            match (&res[t], &res[i]) {
                (None, None) => {}
                (Some(x), Some(y)) => {
                    s.add("failures_compared_with_the_twin", 1);
                    if let (Some(cx), Some(cy)) = (x.custom(), y.custom()) {
                        if cx >= 6000 && cy >= 6000 && cx != cy {
                            return Err(format!("{op:?}: fails with {cx} in the all-fixed twin but with {cy} in world {}", v.name()));
                        }
                    }
                }
                (x, y) => {
                    let sh = |e: &Option<svm::ExecError>| e.as_ref().map(|e| e.short()).unwrap_or("ok".into());
                    return Err(format!("{op:?}: {} in the all-fixed twin but {} in world {} (same instruction, same history)", sh(x), sh(y), v.name()));
                }
            }
        }
        if res[0].is_some() {
            s.add(&format!("failed_{}", op_kind(op)), 1);
            return Ok(None);
        }
        if let LOp::Std(Op::Swap { .. }) = op {
            for (i, v) in self.variants.iter().enumerate() {
                let (a, b) = (self.w.pool.state(&post[i]), self.w.pool.state(&post[self.twin[i]]));
                if (a.sqrt_price, a.tick_current_index, a.liquidity) != (b.sqrt_price, b.tick_current_index, b.liquidity) {
                    return Err(format!(
                        "{op:?}: the swap ends at price {} tick {} liquidity {} in world {} but at price {} tick {} liquidity {} in the all-fixed twin (different next-initialised-tick answers or crossed-tick contents)",
                        a.sqrt_price, a.tick_current_index, a.liquidity, v.name(), b.sqrt_price, b.tick_current_index, b.liquidity
                    ));
                }
            }
            s.add("swap_end_states_compared", self.variants.len() as u64);
        }
        self.transition_stats(op, pre, &post, s);
        Ok(Some(Multi { l: post }))
    }

    fn keys(&self) -> Vec<solana_program::pubkey::Pubkey> {
        let mut k = vec![self.w.pool.addr];
        k.extend(self.w.positions.iter().map(|p| p.addr));
        k.extend(self.arrays.iter());
        k
    }
}

impl Model for LiveModel {
    type S = Multi;
    type O = LOp;
    fn fp(&self, s: &Multi) -> u128 {
        // token balances are not hashed: every wallet and vault is funded far beyond anything the alphabet can move
        let keys = self.keys();
        let mut h = Fp::new();
        for l in &s.l {
            h.u128(l.fingerprint_of(&keys, true));
        }
        h.finish()
    }
    fn ops(&self, _s: &Multi) -> Vec<LOp> {
        self.layout.alphabet.clone()
    }
    fn step(&self, s: &Multi, op: &LOp) -> Result<Option<Multi>, String> {
        let mut st = LStats::default();
        let r = self.do_step(s, op, &mut st);
        self.stats.lock().unwrap().merge(&st);
        r
    }
    fn check_state(&self, s: &Multi) -> Result<(), String> {
        let mut st = LStats::default();
        let r = self.check_multi(s, &mut st);
        self.stats.lock().unwrap().merge(&st);
        r
    }
}

/// Apply a root prefix with all oracles. Err((ops executed so far, detail)) when a prefix already violates.
fn build_root(m: &LiveModel, prefix: &[LOp]) -> Result<Multi, (Vec<LOp>, String)> {
    let mut cur = m.fresh();
    m.check_state(&cur).map_err(|e| (vec![], e))?;
    for (i, op) in prefix.iter().enumerate() {
        match m.step(&cur, op) {
            Err(e) => return Err((prefix[..=i].to_vec(), e)),
            Ok(None) => panic!("harness: root prefix op {op:?} of layout {} failed or is not applicable", m.layout.name),
            Ok(Some(n)) => {
                m.check_state(&n).map_err(|e| (prefix[..=i].to_vec(), e))?;
                cur = n;
            }
        }
    }
    Ok(cur)
}

fn case(layout: &str, root: &str, ops: &[LOp]) -> Value {
    json!({"kind": "live", "layout": layout, "root": root, "ops": serde_json::to_value(ops).unwrap()})
}

/// Run the live part and fold its numbers into the C13 report. `budget_s` caps the wall time of the exploration.
pub fn run_part(ctx: &Ctx, r: &mut Report, budget_s: f64) {
    let depth = ctx.depth(3usize, 5usize);
    let with_anchor = true;
    let t0 = std::time::Instant::now();
    let ls = layouts();
    let n_layouts = ls.len();
    let mut total = LStats::default();
    let mut worlds = vec![];
    let (mut states, mut transitions, mut seqs) = (0u64, 0u64, 0u64);
    let mut depth_done = depth;
    let mut capped = false;
    let mut violated = false;
    for (li, layout) in ls.into_iter().enumerate() {
        let name = layout.name;
        let m = LiveModel::new(layout, with_anchor);
        let mut roots = vec![];
        let mut bad_root = false;
        for (rn, prefix) in m.layout.roots.clone() {
            match build_root(&m, &prefix) {
                Ok(x) => roots.push((rn, x)),
                Err((ops, detail)) => {
                    r.violation(format!("live/{name}/fresh/{}", serde_json::to_string(&ops).unwrap()), format!("[live {name}] {detail}"), case(name, "fresh", &ops));
                    bad_root = true;
                    break;
                }
            }
        }
        if bad_root {
            violated = true;
            total.merge(&m.stats.lock().unwrap());
            break;
        }
        let left = (budget_s - t0.elapsed().as_secs_f64()).max(2.0);
        let share = left / (n_layouts - li) as f64;
        let lim = Limits { max_depth: depth, budget_s: share, max_states: 20_000_000 };
        let rs: Vec<Multi> = roots.iter().map(|x| x.1.clone()).collect();
        let (st, found) = explore::explore(&m, &rs, &lim);
        if let Some(f) = found {
            let rn = roots[f.root].0;
            r.violation(format!("live/{name}/{rn}/{}", serde_json::to_string(&f.path).unwrap()), format!("[live {name}, root {rn}] {}", f.detail), case(name, rn, &f.path));
            violated = true;
        }
        states += st.states;
        transitions += st.transitions;
        seqs += st.sequences;
        depth_done = depth_done.min(st.depth_completed);
        if st.cap_hit.is_some() {
            capped = true;
        }
        let per: Vec<Value> = st.per_depth.iter().map(|(d, s, t, secs)| json!({"depth": d, "states": s, "transitions": t, "s": (secs * 10.0).round() / 10.0})).collect();
        worlds.push(json!({"layout": name, "kind_assignments_x_handler_families": m.variants.len(), "roots": roots.iter().map(|x| x.0).collect::<Vec<_>>(),
            "alphabet": m.layout.alphabet.len(), "depth_completed": st.depth_completed, "cap_hit": st.cap_hit, "per_depth": per}));
        total.merge(&m.stats.lock().unwrap());
        if violated {
            break;
        }
    }
    r.add("states", states);
    r.add("transitions", transitions);
    r.add("traces_validated_against_impl", seqs);
    r.set("live_states", states);
    r.set("live_transitions", transitions);
    r.set("live_sequences", seqs);
    r.set("live_depth_completed", depth_done as u64);
    r.set("live_caps_hit", capped);
    r.set("live_worlds", Value::Array(worlds));
    r.set("live_counters", serde_json::to_value(&total.m).unwrap());
    r.set("live_scope", format!("per layout: every op sequence of length <= {depth} from every root, executed in lockstep in all 2^n kind assignments x 2 handler families; states = distinct lockstep states (pool, positions, tick arrays of all worlds)"));
    r.set("live_wall_s", (t0.elapsed().as_secs_f64() * 10.0).round() / 10.0);
    r.sample(json!({"live_part": "layout mixed, root funded", "op_sequence": serde_json::to_value(&layouts()[0].alphabet[4..7]).unwrap()}));
    // vacuity guards: the kinds of state / operation this part exists for were really reached
    let mut guards: Vec<String> = vec![
        "states_checked".into(),
        "dynamic_accounts_checked".into(),
        "fixed_accounts_checked".into(),
        "tick_slots_compared_with_the_twin".into(),
        "distinct_image_pairs_swept_through_the_accessors".into(),
        "next_init_answers_compared".into(),
        "next_init_error_answers_compared".into(),
        "dynamic_accounts_with_three_or_more_ticks".into(),
        "dynamic_accounts_with_last_slot_and_another_tick".into(),
        "failures_compared_with_the_twin".into(),
        "swap_end_states_compared".into(),
        "swap_rewrote_ticks_of_a_dynamic_array".into(),
        "liquidity_change_on_initialized_ticks_of_a_dynamic_array_without_resize".into(),
        "resizes_moving_the_bytes_of_later_ticks".into(),
        "anchor_resizes_moving_the_bytes_of_later_ticks".into(),
        "resizes_in_the_upper_bitmap_word".into(),
        "reposition_resizes".into(),
        "grow_by_two_ticks_in_one_instruction".into(),
        "shrink_by_two_ticks_in_one_instruction".into(),
        "ok_increase".into(),
        "ok_decrease".into(),
        "ok_reposition".into(),
        "ok_increase_by_token_amounts".into(),
        "ok_swap".into(),
    ];
    for fam in ["", "anchor_"] {
        for dir in ["grow", "shrink"] {
            for c in ["lower_fixed_upper_dynamic", "lower_dynamic_upper_fixed", "lower_dynamic_upper_dynamic", "both_ticks_in_one_dynamic_account"] {
                guards.push(format!("{fam}{dir}_{c}"));
            }
        }
    }
    for g in guards {
        let n = total.get(&g);
        if n > 0 || !violated {
            r.guard(&format!("live_{g}"), n);
        }
    }
    r.assume("live part: the native runtime (svm-lite) persists exactly data[..data_len] of every writable account, as the validator does; a resize is visible as the account's new length");
    r.assume("live part: an op's instruction is built once from the all-fixed twin and executed unchanged in every world of the layout (same keys in all worlds)");
}

pub fn replay(case: &Value) -> Result<(), String> {
    let name = case["layout"].as_str().ok_or("bad case")?;
    let layout = layouts().into_iter().find(|l| l.name == name).ok_or("unknown layout")?;
    let root = case["root"].as_str().ok_or("bad case")?.to_string();
    let path: Vec<LOp> = serde_json::from_value(case["ops"].clone()).map_err(|e| e.to_string())?;
    let m = LiveModel::new(layout, true);
    let prefix = m.layout.roots.iter().find(|r| r.0 == root).ok_or("unknown root")?.1.clone();
    let mut cur = build_root(&m, &prefix).map_err(|(ops, d)| format!("[live {name}, root prefix {}] {d}", serde_json::to_string(&ops).unwrap()))?;
    for (i, op) in path.iter().enumerate() {
        match m.step(&cur, op).map_err(|e| format!("[live {name}, root {root}, op #{i}] {e}"))? {
            None => return Ok(()),
            Some(n) => {
                m.check_state(&n).map_err(|e| format!("[live {name}, root {root}, after op #{i} {op:?}] {e}"))?;
                cur = n;
            }
        }
    }
    Ok(())
}
