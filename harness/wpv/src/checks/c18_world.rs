//! W-life (DESIGN §2.6): the world of the C18 position-lifecycle check, its instruction builders and its own byte decoders.
//!
//! One config, two pools over the same SPL mint pair: `main` (tick spacing 64, price exactly on tick 0, reward 0 emitting,
//! a wide background LP position so that swaps work) and `fro` (tick spacing 32768 = full-range-only). Two position owners
//! (A, B) with wallets on both pools and a reward account each, a trader, and one position bundle owned by A.
#![allow(dead_code, clippy::too_many_arguments)]
use crate::decode;
use crate::world::{self, pda, Config, PoolRef, PosRef, Wallet, ATA, MEMO, RICH, T22, TOKEN, WP};
use anchor_lang::{InstructionData, ToAccountMetas};
use solana_program::{instruction::Instruction, program_option::COption, program_pack::Pack, pubkey::Pubkey, system_program, sysvar};
use svm::{keys::key, Ledger};
use whirlpool::accounts as wa;
use whirlpool::instruction as wi;

pub const MIN_TICK: i32 = -443636;
pub const MAX_TICK: i32 = 443636;
/// published threshold: pools with tick spacing >= 2^15 only admit the full range
pub const FRO_THRESHOLD: u16 = 32768;
pub const BIG: u128 = 1_000_000_000;
pub const MAIN: usize = 0;
pub const FRO: usize = 1;
pub const MAX_GEN: usize = 12;
pub const METADATA: Pubkey = svm::METADATA_PROGRAM_ID;

/// All addresses of one NFT position incarnation.
#[derive(Clone, Debug)]
pub struct SlotKeys {
    pub mint: Pubkey,
    pub addr: Pubkey,
    pub bump: u8,
    /// token account (ATA) of owner A / owner B
    pub ta: [Pubkey; 2],
    pub lock_cfg: Pubkey,
    pub meta: Pubkey,
    pub meta_bump: u8,
}

fn slot_keys(mint: Pubkey, owners: &[Pubkey; 2], t22: bool) -> SlotKeys {
    let (addr, bump) = pda(&[b"position", mint.as_ref()]);
    let prog = if t22 { T22 } else { TOKEN };
    let ta = [
        spl_associated_token_account::get_associated_token_address_with_program_id(&owners[0], &mint, &prog),
        spl_associated_token_account::get_associated_token_address_with_program_id(&owners[1], &mint, &prog),
    ];
    // Token-2022 position: owner B receives a locked position into a PLAIN token account (165 bytes, no extensions, not the
    // associated address) — transfer_locked_position accepts any token account of the mint as destination
    let ta = if t22 { [ta[0], key(&format!("{mint}/plain-token-account/owner-b"))] } else { ta };
    let (lock_cfg, _) = pda(&[b"lock_config", addr.as_ref()]);
    let (meta, meta_bump) = Pubkey::find_program_address(&[b"metadata", METADATA.as_ref(), mint.as_ref()], &METADATA);
    SlotKeys { mint, addr, bump, ta, lock_cfg, meta, meta_bump }
}

#[derive(Clone)]
pub struct LifeWorld {
    pub label: String,
    pub cfg: Config,
    pub funder: Pubkey,
    pub receiver: Pubkey,
    pub pools: [PoolRef; 2],
    /// a third pool of the same config and mint pair with tick spacing 1: only ever passed as a FOREIGN pool
    pub fine: PoolRef,
    pub owners: [Pubkey; 2],
    /// [owner][pool]
    pub wallets: [[Wallet; 2]; 2],
    pub trader: Wallet,
    /// a third party with its own token accounts on the main pool: approved as one-token delegate by the Approve op
    pub delegate: Wallet,
    pub reward_mint: Pubkey,
    pub reward_vault: Pubkey,
    pub reward_auth: Pubkey,
    pub reward_accts: [Pubkey; 2],
    /// SPL NFT position: one key set per generation (a closed SPL mint cannot be reused)
    pub ord: Vec<SlotKeys>,
    /// Token-2022 NFT position (the mint is closed with the position, so the key is reused)
    pub t22: SlotKeys,
    pub bundle_mint: Pubkey,
    pub bundle: Pubkey,
    pub bundle_ta: Pubkey,
    /// bundled position PDA for every u8 index
    pub bundled: Vec<Pubkey>,
    /// tick arrays (hashed into the state fingerprint)
    pub arrays: Vec<Pubkey>,
}

pub fn bundled_addr(bundle_mint: &Pubkey, index: u16) -> Pubkey {
    pda(&[b"bundled_position", bundle_mint.as_ref(), index.to_string().as_bytes()]).0
}

pub fn build_world(label: &str) -> (Ledger, LifeWorld) {
    let mut l = world::base_ledger();
    let lab = label;
    let cfg = world::init_config(&mut l, lab, 300);
    let funder = key(&format!("{lab}/funder"));
    l.put_system(funder, RICH);
    let receiver = key(&format!("{lab}/receiver"));
    l.put_system(receiver, 1_000_000);
    world::must("fee tier 64", svm::process(&mut l, &world::ix_init_fee_tier(&cfg, funder, 64, 3000)));
    world::must("fee tier 32768", svm::process(&mut l, &world::ix_init_fee_tier(&cfg, funder, 32768, 10000)));
    world::must("fee tier 1", svm::process(&mut l, &world::ix_init_fee_tier(&cfg, funder, 1, 100)));
    let (m1, m2) = (key(&format!("{lab}/mint1")), key(&format!("{lab}/mint2")));
    let (ma, mb) = if m1 < m2 { (m1, m2) } else { (m2, m1) };
    world::create_spl_mint(&mut l, ma, 6, None);
    world::create_spl_mint(&mut l, mb, 6, None);
    let main = world::pool_ref(&l, &cfg.addr, &format!("{lab}/main"), ma, mb, 64, 64);
    let fro = world::pool_ref(&l, &cfg.addr, &format!("{lab}/fro"), ma, mb, 32768, 32768);
    let p0 = 1u128 << 64;
    world::must("init main", svm::process(&mut l, &world::ix_init_pool_v1(&main, funder, p0)));
    world::must("init fro", svm::process(&mut l, &world::ix_init_pool_v1(&fro, funder, p0)));
    let fine = world::pool_ref(&l, &cfg.addr, &format!("{lab}/fine"), ma, mb, 1, 1);
    world::must("init fine", svm::process(&mut l, &world::ix_init_pool_v1(&fine, funder, p0)));
    let mut arrays = vec![];
    for (off, dynamic) in [(-1, true), (0, false), (1, true)] {
        let start = off * main.ticks_in_array();
        world::must("main tick array", svm::process(&mut l, &world::ix_init_tick_array(&main, funder, start, dynamic)));
        arrays.push(main.tick_array(start));
    }
    for off in [-1, 0] {
        let start = off * fro.ticks_in_array();
        world::must("fro tick array", svm::process(&mut l, &world::ix_init_tick_array(&fro, funder, start, true)));
        arrays.push(fro.tick_array(start));
    }
    let mk = |l: &mut Ledger, who: &str| -> [Wallet; 2] {
        [world::create_wallet(l, &format!("{lab}/{who}"), &main, 1 << 60, 1 << 60), world::create_wallet(l, &format!("{lab}/{who}"), &fro, 1 << 60, 1 << 60)]
    };
    let wa_ = mk(&mut l, "ownerA");
    let wb_ = mk(&mut l, "ownerB");
    let owners = [wa_[0].owner, wb_[0].owner];
    let trader = world::create_wallet(&mut l, &format!("{lab}/trader"), &main, 1 << 60, 1 << 60);
    let delegate = world::create_wallet(&mut l, &format!("{lab}/delegate"), &main, 1 << 60, 1 << 60);
    // background liquidity so that swaps move the price only a little and fees are shared
    let bgw = world::create_wallet(&mut l, &format!("{lab}/bg"), &main, 1 << 60, 1 << 60);
    let bg = world::pos_ref(&main, &format!("{lab}/bg"), bgw.owner, -2816, 2816, false);
    world::must("bg open", svm::process(&mut l, &world::ix_open_position(&bg, funder)));
    world::must("bg inc", svm::process(&mut l, &world::ix_increase(&bg, &bgw, BIG * 1000, u64::MAX, u64::MAX, false)));
    // reward 0 on the main pool, emitting, so that rewards can be owed
    let reward_mint = key(&format!("{lab}/reward_mint"));
    world::create_spl_mint(&mut l, reward_mint, 6, None);
    let reward_auth = Pubkey::new_from_array(main.state(&l).reward_infos[0].extension);
    if l.get(&reward_auth).is_none() {
        l.put_system(reward_auth, RICH);
    }
    world::must("init reward", svm::process(&mut l, &world::ix_init_reward(&main, reward_auth, funder, reward_mint, TOKEN, 0, false)));
    let reward_vault = world::reward_vault_key(&main, 0);
    let i = spl_token::instruction::mint_to(&TOKEN, &reward_mint, &reward_vault, &world::mint_authority(), &[], 1 << 55).unwrap();
    svm::process_builtin(&mut l, &i).expect("fund reward vault");
    world::must("set emissions", svm::process(&mut l, &world::ix_set_reward_emissions(&main, reward_auth, reward_vault, 0, 1000u128 << 64, false)));
    let reward_accts = [key(&format!("{lab}/rewardA")), key(&format!("{lab}/rewardB"))];
    for i in 0..2 {
        world::create_token_account(&mut l, reward_accts[i], reward_mint, owners[i], 0);
    }
    // position key sets
    let ord: Vec<SlotKeys> = (0..MAX_GEN).map(|g| slot_keys(key(&format!("{lab}/ord/mint/gen{g}")), &owners, false)).collect();
    let t22 = slot_keys(key(&format!("{lab}/t22/mint")), &owners, true);
    // the bundle (owner A)
    let bundle_mint = key(&format!("{lab}/bundle_mint"));
    let (bundle, _) = pda(&[b"position_bundle", bundle_mint.as_ref()]);
    let bundle_ta = spl_associated_token_account::get_associated_token_address(&owners[0], &bundle_mint);
    let bundled: Vec<Pubkey> = (0..256u16).map(|i| bundled_addr(&bundle_mint, i)).collect();
    let w = LifeWorld {
        label: lab.to_string(),
        cfg,
        funder,
        receiver,
        pools: [main, fro],
        fine,
        owners,
        wallets: [wa_, wb_],
        trader,
        delegate,
        reward_mint,
        reward_vault,
        reward_auth,
        reward_accts,
        ord,
        t22,
        bundle_mint,
        bundle,
        bundle_ta,
        bundled,
        arrays,
    };
    world::must("init bundle", svm::process(&mut l, &ix_init_bundle(&w)));
    (l, w)
}

// ------------------------------------------------------------------------------------------------
// instruction builders
// ------------------------------------------------------------------------------------------------
#[derive(Clone, Copy, Debug, PartialEq, Eq)]
pub enum OpenKind {
    Plain,
    WithMetadata,
    T22 { metadata_ext: bool },
}

pub fn ix_open(w: &LifeWorld, k: &SlotKeys, kind: OpenKind, owner: usize, pool: usize, lower: i32, upper: i32) -> Instruction {
    let p = &w.pools[pool];
    match kind {
        OpenKind::Plain => world::ix(
            wa::OpenPosition {
                funder: w.funder,
                owner: w.owners[owner],
                position: k.addr,
                position_mint: k.mint,
                position_token_account: k.ta[owner],
                whirlpool: p.addr,
                token_program: TOKEN,
                system_program: system_program::ID,
                rent: sysvar::rent::ID,
                associated_token_program: ATA,
            }
            .to_account_metas(None),
            wi::OpenPosition { bumps: whirlpool::state::OpenPositionBumps { position_bump: k.bump }, tick_lower_index: lower, tick_upper_index: upper }.data(),
        ),
        OpenKind::WithMetadata => world::ix(
            wa::OpenPositionWithMetadata {
                funder: w.funder,
                owner: w.owners[owner],
                position: k.addr,
                position_mint: k.mint,
                position_metadata_account: k.meta,
                position_token_account: k.ta[owner],
                whirlpool: p.addr,
                token_program: TOKEN,
                system_program: system_program::ID,
                rent: sysvar::rent::ID,
                associated_token_program: ATA,
                metadata_program: METADATA,
                metadata_update_auth: whirlpool::constants::nft::whirlpool_nft_update_auth::ID,
            }
            .to_account_metas(None),
            wi::OpenPositionWithMetadata {
                bumps: whirlpool::state::OpenPositionWithMetadataBumps { position_bump: k.bump, metadata_bump: k.meta_bump },
                tick_lower_index: lower,
                tick_upper_index: upper,
            }
            .data(),
        ),
        OpenKind::T22 { metadata_ext } => world::ix(
            wa::OpenPositionWithTokenExtensions {
                funder: w.funder,
                owner: w.owners[owner],
                position: k.addr,
                position_mint: k.mint,
                position_token_account: k.ta[owner],
                whirlpool: p.addr,
                token_2022_program: T22,
                system_program: system_program::ID,
                associated_token_program: ATA,
                metadata_update_auth: whirlpool::constants::nft::whirlpool_nft_update_auth::ID,
            }
            .to_account_metas(None),
            wi::OpenPositionWithTokenExtensions { tick_lower_index: lower, tick_upper_index: upper, with_token_metadata_extension: metadata_ext }.data(),
        ),
    }
}

pub fn ix_init_bundle(w: &LifeWorld) -> Instruction {
    world::ix(
        wa::InitializePositionBundle {
            position_bundle: w.bundle,
            position_bundle_mint: w.bundle_mint,
            position_bundle_token_account: w.bundle_ta,
            position_bundle_owner: w.owners[0],
            funder: w.funder,
            token_program: TOKEN,
            system_program: system_program::ID,
            rent: sysvar::rent::ID,
            associated_token_program: ATA,
        }
        .to_account_metas(None),
        wi::InitializePositionBundle {}.data(),
    )
}

pub fn ix_open_bundled(w: &LifeWorld, index: u16, pool: usize, lower: i32, upper: i32) -> Instruction {
    let addr = if (index as usize) < w.bundled.len() { w.bundled[index as usize] } else { bundled_addr(&w.bundle_mint, index) };
    world::ix(
        wa::OpenBundledPosition {
            bundled_position: addr,
            position_bundle: w.bundle,
            position_bundle_token_account: w.bundle_ta,
            position_bundle_authority: w.owners[0],
            whirlpool: w.pools[pool].addr,
            funder: w.funder,
            system_program: system_program::ID,
            rent: sysvar::rent::ID,
        }
        .to_account_metas(None),
        wi::OpenBundledPosition { bundle_index: index, tick_lower_index: lower, tick_upper_index: upper }.data(),
    )
}

pub fn ix_close_bundled(w: &LifeWorld, index: u16) -> Instruction {
    let addr = if (index as usize) < w.bundled.len() { w.bundled[index as usize] } else { bundled_addr(&w.bundle_mint, index) };
    world::ix(
        wa::CloseBundledPosition {
            bundled_position: addr,
            position_bundle: w.bundle,
            position_bundle_token_account: w.bundle_ta,
            position_bundle_authority: w.owners[0],
            receiver: w.receiver,
        }
        .to_account_metas(None),
        wi::CloseBundledPosition { bundle_index: index }.data(),
    )
}

pub fn ix_delete_bundle(w: &LifeWorld) -> Instruction {
    world::ix(
        wa::DeletePositionBundle {
            position_bundle: w.bundle,
            position_bundle_mint: w.bundle_mint,
            position_bundle_token_account: w.bundle_ta,
            position_bundle_owner: w.owners[0],
            receiver: w.receiver,
            token_program: TOKEN,
        }
        .to_account_metas(None),
        wi::DeletePositionBundle {}.data(),
    )
}

pub fn ix_reset(w: &LifeWorld, pos: &PosRef, lower: i32, upper: i32) -> Instruction {
    world::ix(
        wa::ResetPositionRange {
            funder: w.funder,
            position_authority: pos.owner,
            whirlpool: pos.pool.addr,
            position: pos.addr,
            position_token_account: pos.token_account,
            system_program: system_program::ID,
        }
        .to_account_metas(None),
        wi::ResetPositionRange { new_tick_lower_index: lower, new_tick_upper_index: upper }.data(),
    )
}

/// reset_position_range naming ANOTHER pool than the position's own in the whirlpool slot
pub fn ix_reset_with_pool(w: &LifeWorld, pos: &PosRef, pool: Pubkey, lower: i32, upper: i32) -> Instruction {
    let mut i = ix_reset(w, pos, lower, upper);
    for m in i.accounts.iter_mut() {
        if m.pubkey == pos.pool.addr {
            m.pubkey = pool;
        }
    }
    i
}

pub fn ix_lock(w: &LifeWorld, pos: &PosRef, lock_cfg: Pubkey) -> Instruction {
    world::ix(
        wa::LockPosition {
            funder: w.funder,
            position_authority: pos.owner,
            position: pos.addr,
            position_mint: pos.mint,
            position_token_account: pos.token_account,
            lock_config: lock_cfg,
            whirlpool: pos.pool.addr,
            token_2022_program: T22,
            system_program: system_program::ID,
        }
        .to_account_metas(None),
        wi::LockPosition { lock_type: whirlpool::state::LockType::Permanent }.data(),
    )
}

pub fn ix_transfer_locked(w: &LifeWorld, pos: &PosRef, lock_cfg: Pubkey, destination: Pubkey) -> Instruction {
    world::ix(
        wa::TransferLockedPosition {
            position_authority: pos.owner,
            receiver: w.receiver,
            position: pos.addr,
            position_mint: pos.mint,
            position_token_account: pos.token_account,
            destination_token_account: destination,
            lock_config: lock_cfg,
            token_2022_program: T22,
        }
        .to_account_metas(None),
        wi::TransferLockedPosition {}.data(),
    )
}

/// the token program's Approve: the owner of the position token account makes `w.delegate` a one-token delegate
pub fn ix_approve(w: &LifeWorld, pos: &PosRef) -> Instruction {
    if pos.t22 {
        spl_token_2022::instruction::approve(&T22, &pos.token_account, &w.delegate.owner, &pos.owner, &[], 1).unwrap()
    } else {
        spl_token::instruction::approve(&TOKEN, &pos.token_account, &w.delegate.owner, &pos.owner, &[], 1).unwrap()
    }
}

/// reposition_liquidity_v2 signed by `authority` (who also pays / receives the token difference through `wallet`)
pub fn ix_reposition_by(w: &LifeWorld, pos: &PosRef, wallet: &Wallet, new_lower: i32, new_upper: i32, liquidity: u128) -> Instruction {
    let mut i = ix_reposition(w, pos, wallet, new_lower, new_upper, liquidity);
    for m in i.accounts.iter_mut() {
        if m.pubkey == pos.owner && m.is_signer {
            m.pubkey = wallet.owner;
        }
    }
    i
}

pub fn ix_reposition(w: &LifeWorld, pos: &PosRef, wallet: &Wallet, new_lower: i32, new_upper: i32, liquidity: u128) -> Instruction {
    let p = &pos.pool;
    world::ix(
        wa::RepositionLiquidityV2 {
            whirlpool: p.addr,
            token_program_a: p.prog_a,
            token_program_b: p.prog_b,
            memo_program: MEMO,
            position_authority: pos.owner,
            funder: w.funder,
            position: pos.addr,
            position_token_account: pos.token_account,
            token_mint_a: p.mint_a,
            token_mint_b: p.mint_b,
            token_owner_account_a: wallet.acct_a,
            token_owner_account_b: wallet.acct_b,
            token_vault_a: p.vault_a,
            token_vault_b: p.vault_b,
            existing_tick_array_lower: pos.ta_lower(),
            existing_tick_array_upper: pos.ta_upper(),
            new_tick_array_lower: p.tick_array(p.array_start(new_lower)),
            new_tick_array_upper: p.tick_array(p.array_start(new_upper)),
            system_program: system_program::ID,
        }
        .to_account_metas(None),
        wi::RepositionLiquidityV2 {
            new_tick_lower_index: new_lower,
            new_tick_upper_index: new_upper,
            method: whirlpool::instructions::RepositionLiquidityMethod::ByLiquidity {
                new_liquidity_amount: liquidity,
                existing_range_token_min_a: 0,
                existing_range_token_min_b: 0,
                new_range_token_max_a: u64::MAX,
                new_range_token_max_b: u64::MAX,
            },
            remaining_accounts_info: None,
        }
        .data(),
    )
}

pub fn ix_create_ata_idempotent(w: &LifeWorld, owner: &Pubkey, mint: &Pubkey, prog: &Pubkey) -> Instruction {
    spl_associated_token_account::instruction::create_associated_token_account_idempotent(&w.funder, owner, mint, prog)
}

// ------------------------------------------------------------------------------------------------
// decoders (own byte layouts + the token programs' own unpackers, cross-checked)
// ------------------------------------------------------------------------------------------------
#[derive(Clone, Debug, PartialEq, Eq)]
pub struct MintView {
    pub supply: u64,
    pub has_mint_authority: bool,
    pub decimals: u8,
}

/// Decode a mint of either token program; Err if the two decodings (harness byte offsets vs the program's unpacker) disagree.
pub fn mint_view(l: &Ledger, k: &Pubkey) -> Result<Option<MintView>, String> {
    let a = match l.get(k) {
        None => return Ok(None),
        Some(a) => a,
    };
    let (supply, auth, decimals) = if a.owner == TOKEN {
        let m = spl_token::state::Mint::unpack(&a.data).map_err(|e| format!("mint {k}: {e:?}"))?;
        (m.supply, m.mint_authority != COption::None, m.decimals)
    } else if a.owner == T22 {
        use spl_token_2022::extension::StateWithExtensions;
        let m = StateWithExtensions::<spl_token_2022::state::Mint>::unpack(&a.data).map_err(|e| format!("t22 mint {k}: {e:?}"))?;
        (m.base.supply, m.base.mint_authority != COption::None, m.base.decimals)
    } else {
        return Err(format!("mint {k} is owned by {}", a.owner));
    };
    if decode::mint_supply(&a.data) != supply || decode::mint_has_authority(&a.data) != auth {
        return Err(format!("mint {k}: byte decoder and program unpacker disagree"));
    }
    Ok(Some(MintView { supply, has_mint_authority: auth, decimals }))
}

#[derive(Clone, Debug, PartialEq, Eq)]
pub struct TokenView {
    pub mint: Pubkey,
    pub owner: Pubkey,
    pub amount: u64,
    pub frozen: bool,
    /// (delegate, delegated amount)
    pub delegate: Option<(Pubkey, u64)>,
}

pub fn token_view(l: &Ledger, k: &Pubkey) -> Result<Option<TokenView>, String> {
    let a = match l.get(k) {
        None => return Ok(None),
        Some(a) => a,
    };
    let v = if a.owner == TOKEN {
        let t = spl_token::state::Account::unpack(&a.data).map_err(|e| format!("token account {k}: {e:?}"))?;
        TokenView { mint: t.mint, owner: t.owner, amount: t.amount, frozen: t.state == spl_token::state::AccountState::Frozen, delegate: Option::<Pubkey>::from(t.delegate).map(|d| (d, t.delegated_amount)) }
    } else if a.owner == T22 {
        use spl_token_2022::extension::StateWithExtensions;
        let t = StateWithExtensions::<spl_token_2022::state::Account>::unpack(&a.data).map_err(|e| format!("t22 token account {k}: {e:?}"))?;
        TokenView { mint: t.base.mint, owner: t.base.owner, amount: t.base.amount, frozen: t.base.state == spl_token_2022::state::AccountState::Frozen, delegate: Option::<Pubkey>::from(t.base.delegate).map(|d| (d, t.base.delegated_amount)) }
    } else {
        return Err(format!("token account {k} is owned by {}", a.owner));
    };
    if decode::token_amount(&a.data) != v.amount || decode::token_owner(&a.data) != v.owner || decode::token_mint(&a.data) != v.mint || (decode::token_state(&a.data) == 2) != v.frozen {
        return Err(format!("token account {k}: byte decoder and program unpacker disagree"));
    }
    Ok(Some(v))
}

#[derive(Clone, Debug, PartialEq, Eq)]
pub struct LockConfigView {
    pub position: Pubkey,
    pub position_owner: Pubkey,
    pub whirlpool: Pubkey,
    pub locked_timestamp: u64,
    pub lock_type: u8,
}
pub const LOCK_CONFIG_LEN: usize = 8 + 32 + 32 + 32 + 8 + 1 + 128;
pub const LOCK_CONFIG_DISC: [u8; 8] = [0x6a, 0x2f, 0xee, 0x9f, 0x7c, 0x0c, 0xa0, 0xc0];

pub fn lock_config(l: &Ledger, k: &Pubkey) -> Result<Option<LockConfigView>, String> {
    let a = match l.get(k) {
        None => return Ok(None),
        Some(a) => a,
    };
    if a.owner != WP || a.data.len() != LOCK_CONFIG_LEN || a.data[..8] != LOCK_CONFIG_DISC {
        return Err(format!("lock config {k}: wrong owner / length {} / discriminator", a.data.len()));
    }
    let b = &a.data;
    let pk = |o: usize| Pubkey::new_from_array(b[o..o + 32].try_into().unwrap());
    Ok(Some(LockConfigView {
        position: pk(8),
        position_owner: pk(40),
        whirlpool: pk(72),
        locked_timestamp: u64::from_le_bytes(b[104..112].try_into().unwrap()),
        lock_type: b[112],
    }))
}

pub const BUNDLE_LEN: usize = 8 + 32 + 32 + 64;
#[derive(Clone, Debug, PartialEq, Eq)]
pub struct BundleView {
    pub mint: Pubkey,
    pub bitmap: [u8; 32],
}
pub fn bundle_view(l: &Ledger, k: &Pubkey) -> Result<Option<BundleView>, String> {
    let a = match l.get(k) {
        None => return Ok(None),
        Some(a) => a,
    };
    if a.owner != WP || a.data.len() != BUNDLE_LEN {
        return Err(format!("position bundle {k}: wrong owner / length {}", a.data.len()));
    }
    Ok(Some(BundleView { mint: Pubkey::new_from_array(a.data[8..40].try_into().unwrap()), bitmap: a.data[40..72].try_into().unwrap() }))
}
/// the set of indexes marked in a bitmap (bit i%8 of byte i/8)
pub fn bitmap_set(bm: &[u8; 32]) -> Vec<u16> {
    (0..256u16).filter(|i| bm[(*i / 8) as usize] & (1u8 << (*i % 8)) != 0).collect()
}

pub fn position_opt(l: &Ledger, k: &Pubkey) -> Result<Option<decode::Position>, String> {
    match l.get(k) {
        None => Ok(None),
        Some(a) => {
            if a.owner != WP || a.data.len() != decode::POSITION_LEN {
                return Err(format!("position {k}: wrong owner {} / length {}", a.owner, a.data.len()));
            }
            Ok(Some(decode::position(&a.data)))
        }
    }
}
