//! C11 — rewards accrue at the set emission rate, pro rata to in-range liquidity (DESIGN §3 C11).
//! Engine A, *ledger mode*: the state carries an exact shadow ledger (rationals) of every position's reward entitlement per
//! reward index, fed by the harness clock and the emission rates read from the decoded pool account, independent of the
//! program's growth accumulators. At every observation point (after any instruction touching a position, after a collect, and
//! through a real update on a copy in every state)
//!     entitlement - slack <= collected + owed <= entitlement
//! with slack = L_P/2^64 per accrual interval (floor of the growth) + 1 per position update (floor of the credit).
//! Dropped (never inflated): intervals whose dt*rate product exceeds u128, position credits exceeding u64.
use crate::decode;
use crate::explore::{self, Limits, Model};
use crate::ops::{self, Lim, Op, Part};
use crate::oracles::ec;
use crate::refmodel::*;
use crate::report::{Ctx, Report};
use crate::stdworlds;
use crate::world::{self, balance, Enc, StdSpec, StdWorld};
use num_bigint::BigUint;
use num_traits::{One, Zero};
use serde::{Deserialize, Serialize};
use serde_json::{json, Value};
use solana_program::pubkey::Pubkey;
use std::sync::atomic::{AtomicU64, Ordering};
use svm::{keys::key, Ledger};
use whirlpool::errors::ErrorCode;

#[derive(Clone, Debug, PartialEq, Eq, Serialize, Deserialize)]
enum O {
    Base(Op),
    InitReward { index: u8, v2: bool },
    SetEmissions {
        index: u8,
        #[serde(with = "crate::ops::u128_str")]
        rate: u128,
        v2: bool,
    },
    Collect { pos: u8, index: u8, v2: bool },
    /// set_reward_authority / set_reward_authority_by_super_authority naming the authority already in place: an administrative
    /// hand-over must leave every reward's accounting alone
    SetAuthority { index: u8, by_super: bool },
    Drain { index: u8 }, // external: the reward authority's vault is (legitimately) emptied down to `keep` by nobody — modelled as a vault with few tokens from the start instead
}

#[derive(Clone, Debug)]
struct RG {
    /// lower-bound ledger: accrued over the program's own intervals (stored last-update time .. now), so that an interval the
    /// program must drop (dt x rate beyond 128 bits) can be recognised; settled = credited by a position update
    settled: Q,
    pending: Q,
    slack: Q,
    collected: u128,
    /// upper-bound ledger, independent of anything the program stores about time: accrued by the harness clock alone — every
    /// clock step of dt seconds adds rate x dt x L_P / L_pool for the positions in range in that (unchanging) state
    xsettled: Q,
    xpending: Q,
}
impl RG {
    fn new() -> Self {
        RG { settled: Q::zero(), pending: Q::zero(), slack: Q::zero(), collected: 0, xsettled: Q::zero(), xpending: Q::zero() }
    }
}
#[derive(Clone)]
struct St {
    l: Ledger,
    g: Vec<[RG; 3]>, // per position, per reward
    /// harness time of the last successful instruction that, by the statement, settles reward accrual (swap, liquidity change,
    /// update-fees-and-rewards, set-reward-emissions) — the start of the program's next accrual interval, kept by the harness
    /// instead of being read from the pool account
    last: i64,
}

fn spec(label: &str, enc: [Enc; 3]) -> StdSpec {
    StdSpec {
        label: label.into(),
        tick_spacing: 64,
        fee_rate: 3000,
        protocol_fee_rate: 300,
        sqrt_price: stdworlds::P0,
        arrays: vec![(-1, enc[0]), (0, enc[1]), (1, enc[2])],
        // position 3 lies below a zero-liquidity gap [-192, -128): one swap can leave positions 0 / 1, cross the gap and enter it
        positions: vec![(-128, 128, false), (-128, 128, true), (128, 5696, false), (-512, -192, false)],
        t22_a: None,
        t22_b: None,
    }
}

struct Wd {
    name: String,
    w: StdWorld,
    rmint: [Pubkey; 3],
    rvault: [Pubkey; 3],
    rwallet: [Pubkey; 3],
    prefixes: Vec<(String, Ledger, Vec<O>)>,
    alphabet: Vec<O>,
    /// vault funding applied when a reward is initialised (index -> amount)
    fund_on_init: [u64; 3],
}

const REWARD2_FEE_BPS: u16 = 1000;
const RATE_1: u128 = 1u128 << 64; // one token per second
const RATE_SMALL: u128 = (1u128 << 64) / 7; // a seventh of a token per second
const RATE_HUGE: u128 = 1u128 << 120; // dt * rate overflows u128 for dt >= 256; a day of emissions exceeds any vault
const RATE_BIG: u128 = 1_000_000u128 << 64; // one million tokens per second: position credits stay below u64

/// mints, vaults and wallets of the three rewards of a world
fn reward_accounts(l: &mut Ledger, w: &StdWorld, label: &str) -> ([Pubkey; 3], [Pubkey; 3], [Pubkey; 3]) {
    let mut rmint = [Pubkey::default(); 3];
    let mut rvault = [Pubkey::default(); 3];
    let mut rwallet = [Pubkey::default(); 3];
    for i in 0..3 {
        rmint[i] = key(&format!("{label}/rmint{i}"));
        if i == 2 {
            world::create_t22_mint(l, rmint[i], 6, None, &[world::T22Ext::TransferFee { bps: REWARD2_FEE_BPS, max: u64::MAX }]);
        } else {
            world::create_spl_mint(l, rmint[i], 6, None);
        }
        rvault[i] = world::reward_vault_key(&w.pool, i as u8);
        rwallet[i] = key(&format!("{label}/rwallet{i}"));
        world::create_token_account(l, rwallet[i], rmint[i], w.lp.owner, 0);
    }
    (rmint, rvault, rwallet)
}

/// Rewards on a FULL-RANGE-ONLY pool (tick spacing 32768): the usable range [-425984, 425984) is narrower than the price bounds, so a
/// swap can carry the price OUT of every position's range (in-range liquidity 0, the shared bound tick crossed and its reward growth
/// outside flipped); positions refreshed out there and again after the price came back must be credited their exact share, once.
fn build_splash(label: &str) -> Wd {
    let s = stdworlds::splash_spec(label);
    let (mut l, w) = world::build_std(&s);
    let (rmint, rvault, rwallet) = reward_accounts(&mut l, &w, label);
    let emitting = vec![
        O::InitReward { index: 0, v2: false },
        O::Base(Op::Inc { pos: 0, liq: 3_000_000, v2: true }),
        O::Base(Op::Inc { pos: 1, liq: 1_000_000, v2: false }),
        O::SetEmissions { index: 0, rate: RATE_1, v2: true },
        O::Base(Op::Clock(1000)),
        O::Base(Op::Update { pos: 0 }), // position 0 now carries a non-zero reward checkpoint, position 1 does not
    ];
    let mut below = emitting.clone();
    below.push(O::Base(Op::Swap { a_to_b: true, exact_in: true, amount: u64::MAX >> 8, lim: Lim::Bound, v2: true })); // past the lower bound tick
    below.push(O::Base(Op::Clock(500)));
    let mut above = emitting.clone();
    above.push(O::Base(Op::Swap { a_to_b: false, exact_in: true, amount: u64::MAX >> 8, lim: Lim::Bound, v2: false })); // past the upper bound tick
    let prefixes = vec![("splash-emitting".to_string(), l.clone(), emitting), ("splash-below-range".to_string(), l.clone(), below), ("splash-above-range".to_string(), l.clone(), above)];
    let mut a = vec![O::Base(Op::Clock(1000))];
    for pos in 0..2u8 {
        a.push(O::Base(Op::Update { pos }));
    }
    for a_to_b in [true, false] {
        a.push(O::Base(Op::Swap { a_to_b, exact_in: true, amount: u64::MAX >> 8, lim: Lim::Bound, v2: a_to_b })); // out of the usable range
        a.push(O::Base(Op::Swap { a_to_b, exact_in: true, amount: u64::MAX >> 8, lim: Lim::Price(stdworlds::P0), v2: !a_to_b })); // back to the start price
    }
    a.push(O::Collect { pos: 0, index: 0, v2: true });
    a.push(O::Base(Op::Inc { pos: 1, liq: 1_000_000, v2: true }));
    a.push(O::Base(Op::Dec { pos: 0, part: Part::Half, v2: false }));
    Wd { name: label.into(), w, rmint, rvault, rwallet, prefixes, alphabet: a, fund_on_init: FUND_STD }
}

/// reward 0: exactly one day of RATE_1 emissions (so collects can exhaust the vault: pays min(owed, vault)); reward 1: a deep vault
/// (RATE_BIG for two days); reward 2: 40 000 tokens of the fee mint
const FUND_STD: [u64; 3] = [86_400, 86_400_000_000 * 2, 40_000];

/// The FIRST reward emits its whole, very deep vault (2^62 tokens) per day — the largest rate the vault rule admits — so that after
/// five idle days elapsed-time x rate no longer fits 128 bits and the program drops that reward's interval (allowed by the
/// statement). The SECOND reward emits at an ordinary rate next to it: its interval must be credited all the same, whichever
/// instruction settles first (update, swap, emission change — the Anchor routine — or a liquidity change — the Pinocchio one).
fn build_overflow(label: &str) -> Wd {
    let s = spec(label, [Enc::Fixed, Enc::Dynamic, Enc::Fixed]);
    let (mut l, w) = world::build_std(&s);
    let (rmint, rvault, rwallet) = reward_accounts(&mut l, &w, label);
    let rate0: u128 = ((1u128 << 62) << 64) / 86_400;
    let mut setup = vec![
        O::InitReward { index: 0, v2: false },
        O::InitReward { index: 1, v2: true },
        O::Base(Op::Inc { pos: 0, liq: stdworlds::BIG, v2: false }),
        O::Base(Op::Inc { pos: 1, liq: stdworlds::BIG / 3, v2: true }),
        O::Base(Op::Inc { pos: 2, liq: stdworlds::BIG, v2: false }),
        O::SetEmissions { index: 0, rate: rate0, v2: false },
        O::SetEmissions { index: 1, rate: RATE_BIG, v2: true },
    ];
    for _ in 0..3 {
        setup.push(O::Base(Op::Clock(86_400)));
    }
    let three_days = setup.clone();
    setup.push(O::Base(Op::Clock(86_400)));
    setup.push(O::Base(Op::Clock(86_400)));
    let prefixes = vec![("idle-five-days".to_string(), l.clone(), setup), ("idle-three-days".to_string(), l.clone(), three_days)];
    let a = vec![
        O::Base(Op::Clock(86_400)),
        O::Base(Op::Update { pos: 0 }),
        O::Base(Op::Update { pos: 2 }),
        O::Base(Op::Inc { pos: 0, liq: stdworlds::BIG, v2: true }),
        O::Base(Op::Dec { pos: 1, part: Part::Half, v2: false }),
        O::Base(Op::Swap { a_to_b: true, exact_in: true, amount: 1_000_000, lim: Lim::None, v2: false }),
        O::Base(Op::Swap { a_to_b: false, exact_in: true, amount: u64::MAX >> 8, lim: Lim::NextTick, v2: true }),
        O::SetEmissions { index: 1, rate: RATE_BIG, v2: true },
        O::SetEmissions { index: 1, rate: RATE_SMALL, v2: false },
        O::SetEmissions { index: 0, rate: 0, v2: true },
        O::Collect { pos: 0, index: 1, v2: true },
        O::Collect { pos: 0, index: 0, v2: false },
    ];
    Wd { name: label.into(), w, rmint, rvault, rwallet, prefixes, alphabet: a, fund_on_init: [1u64 << 62, 86_400_000_000 * 2, 40_000] }
}

fn build(label: &str, enc: [Enc; 3], vault0: u64) -> Wd {
    let s = spec(label, enc);
    let (mut l, w) = world::build_std(&s);
    let mut rmint = [Pubkey::default(); 3];
    let mut rvault = [Pubkey::default(); 3];
    let mut rwallet = [Pubkey::default(); 3];
    for i in 0..3 {
        rmint[i] = key(&format!("{label}/rmint{i}"));
        if i == 2 {
            // the third reward is paid in a Token-2022 mint with a 10 % transfer fee (collect_reward_v2 / initialize_reward_v2 only)
            world::create_t22_mint(&mut l, rmint[i], 6, None, &[world::T22Ext::TransferFee { bps: REWARD2_FEE_BPS, max: u64::MAX }]);
        } else {
            world::create_spl_mint(&mut l, rmint[i], 6, None);
        }
        rvault[i] = world::reward_vault_key(&w.pool, i as u8);
        rwallet[i] = key(&format!("{label}/rwallet{i}"));
        world::create_token_account(&mut l, rwallet[i], rmint[i], w.lp.owner, 0);
    }
    let fund = vec![
        O::Base(Op::Inc { pos: 0, liq: stdworlds::BIG, v2: false }),
        O::Base(Op::Inc { pos: 1, liq: stdworlds::BIG / 3, v2: true }),
        O::Base(Op::Inc { pos: 2, liq: stdworlds::BIG, v2: false }),
        O::Base(Op::Inc { pos: 3, liq: stdworlds::BIG * 5, v2: true }),
    ];
    let mut emitting = vec![O::InitReward { index: 0, v2: false }];
    emitting.extend(fund.clone());
    emitting.push(O::SetEmissions { index: 0, rate: RATE_1, v2: false });
    emitting.push(O::Base(Op::Clock(100)));
    let mut two = vec![O::InitReward { index: 0, v2: true }, O::InitReward { index: 1, v2: false }];
    two.extend(fund.clone());
    two.push(O::SetEmissions { index: 0, rate: RATE_SMALL, v2: true });
    two.push(O::SetEmissions { index: 1, rate: RATE_BIG, v2: false });
    two.push(O::Base(Op::Clock(1)));
    // more is owed than the vault holds (the vault holds exactly one day of emissions): collect pays min(owed, vault)
    let mut over = emitting.clone();
    over.push(O::Base(Op::Clock(86_400)));
    over.push(O::Base(Op::Update { pos: 0 }));
    over.push(O::Base(Op::Clock(86_400)));
    over.push(O::Base(Op::Update { pos: 1 }));
    // wrapped-negative checkpoint: tick 128 is initialised (by P2) before any reward accrued, tick -128 (by P0) after some did and
    // while the price is ABOVE P0's range, so P0's reward growth inside starts at 0 - G1 (mod 2^128); the price then enters the range
    // and the growth inside rises through zero with the next accrual — an update across that point must still credit the interval
    let late_lower = vec![
        O::InitReward { index: 0, v2: false },
        O::Base(Op::Inc { pos: 2, liq: stdworlds::BIG, v2: false }),
        O::SetEmissions { index: 0, rate: RATE_1, v2: true },
        O::Base(Op::Swap { a_to_b: false, exact_in: true, amount: u64::MAX >> 8, lim: Lim::NextTick, v2: true }), // onto tick 128: P2 in range
        O::Base(Op::Clock(100)),
        O::Base(Op::Inc { pos: 0, liq: stdworlds::BIG, v2: true }),
        O::Base(Op::Inc { pos: 1, liq: stdworlds::BIG / 3, v2: false }),
        O::Base(Op::Swap { a_to_b: true, exact_in: true, amount: 1_000_000, lim: Lim::None, v2: false }), // back below 128: P0, P1 in range
    ];
    // a reward that emits while NO liquidity is in range (only the out-of-range position is funded): the first deposit into the
    // current tick takes the pool's liquidity from 0 to non-zero after an idle stretch — nothing may accrue for that stretch
    let empty_emitting = vec![
        O::InitReward { index: 0, v2: true },
        O::Base(Op::Inc { pos: 2, liq: stdworlds::BIG, v2: true }),
        O::SetEmissions { index: 0, rate: RATE_1, v2: false },
        O::Base(Op::Clock(100)),
    ];
    // all three rewards emitting at different rates, a tick initialised after growth accrued and touched again afterwards (the
    // third reward slot of ticks and positions is only exercised when index 2 is live and its growth differs from index 1)
    let three = vec![
        O::InitReward { index: 0, v2: false },
        O::InitReward { index: 1, v2: true },
        O::InitReward { index: 2, v2: true },
        O::Base(Op::Inc { pos: 2, liq: stdworlds::BIG, v2: true }),
        O::Base(Op::Inc { pos: 0, liq: stdworlds::BIG, v2: false }),
        O::SetEmissions { index: 0, rate: RATE_1, v2: false },
        O::SetEmissions { index: 1, rate: RATE_BIG, v2: true },
        O::SetEmissions { index: 2, rate: RATE_SMALL * 3, v2: true },
        O::Base(Op::Clock(50)),
        O::Base(Op::Inc { pos: 1, liq: stdworlds::BIG / 3, v2: true }),
        O::Base(Op::Clock(7)),
    ];
    // ... and long enough for the third reward's vault (40 000 tokens) to hold less than position 0 is owed: a partial payout in a
    // mint that withholds a transfer fee
    let mut three_over = three.clone();
    for _ in 0..5 {
        three_over.push(O::Base(Op::Clock(86_400)));
    }
    three_over.push(O::Base(Op::Update { pos: 0 }));
    three_over.push(O::Base(Op::Update { pos: 1 }));
    // the FIRST reward is initialised but has never emitted (growth 0) while the second one emits: per-index bookkeeping at tick
    // crossings must not stop at an idle lower index
    let mut second_only = vec![O::InitReward { index: 0, v2: false }, O::InitReward { index: 1, v2: true }];
    second_only.extend(fund.clone());
    second_only.push(O::SetEmissions { index: 1, rate: RATE_BIG, v2: true });
    second_only.push(O::Base(Op::Clock(50)));
    let prefixes = vec![
        ("second-reward-only".to_string(), l.clone(), second_only),
        ("three-rewards-over-owed".to_string(), l.clone(), three_over),
        ("three-rewards".to_string(), l.clone(), three),
        ("empty-emitting".to_string(), l.clone(), empty_emitting),
        ("late-lower-tick".to_string(), l.clone(), late_lower),
        ("funded-no-reward".to_string(), l.clone(), fund),
        ("emitting".to_string(), l.clone(), emitting),
        ("two-rewards".to_string(), l.clone(), two),
        ("over-owed".to_string(), l.clone(), over),
    ];
    let _ = vault0;
    Wd { name: label.into(), w, rmint, rvault, rwallet, prefixes, alphabet: alphabet(), fund_on_init: FUND_STD }
}

fn worlds(thorough: bool) -> Vec<Wd> {
    let mut v = vec![build("c11-dfd", [Enc::Dynamic, Enc::Fixed, Enc::Dynamic], 0)];
    if thorough {
        v.push(build("c11-fdf", [Enc::Fixed, Enc::Dynamic, Enc::Fixed], 0));
    }
    v.insert(0, build_overflow("c11-overflow"));
    v.insert(0, build_splash("c11-splash")); // small; explored first, the rest of the budget goes to the large worlds
    v
}

fn alphabet() -> Vec<O> {
    let mut a = vec![];
    a.push(O::Base(Op::Clock(1)));
    a.push(O::Base(Op::Clock(86_400)));
    a.push(O::Base(Op::Clock(0)));
    for pos in 0..4u8 {
        a.push(O::Base(Op::Update { pos }));
    }
    for a_to_b in [true, false] {
        a.push(O::Base(Op::Swap { a_to_b, exact_in: true, amount: u64::MAX >> 8, lim: Lim::NextTick, v2: a_to_b })); // positions leave / enter range
        a.push(O::Base(Op::Swap { a_to_b, exact_in: true, amount: 1_000_000, lim: Lim::None, v2: !a_to_b }));
    }
    // one swap from inside positions 0 / 1 across the zero-liquidity gap into position 3
    a.push(O::Base(Op::Swap { a_to_b: true, exact_in: true, amount: u64::MAX >> 8, lim: Lim::Price(whirlpool::math::sqrt_price_from_tick_index(-256)), v2: true }));
    a.push(O::Collect { pos: 0, index: 0, v2: false });
    a.push(O::Collect { pos: 1, index: 0, v2: true });
    a.push(O::Collect { pos: 2, index: 1, v2: true });
    a.push(O::Collect { pos: 1, index: 2, v2: true });
    a.push(O::Collect { pos: 0, index: 2, v2: true });
    a.push(O::SetEmissions { index: 0, rate: 0, v2: false });
    a.push(O::SetEmissions { index: 0, rate: RATE_1, v2: true });
    a.push(O::SetEmissions { index: 0, rate: RATE_HUGE, v2: false }); // must be refused: no vault holds a day of it
    // one day of this rate is 86_401 tokens: exactly one more than the reward-0 vault receives (unless collects drained it further)
    a.push(O::SetEmissions { index: 0, rate: ((86_401u128 << 64) + 86_399) / 86_400, v2: true });
    a.push(O::SetEmissions { index: 0, rate: ((86_401u128 << 64) + 86_399) / 86_400, v2: false });
    a.push(O::SetEmissions { index: 1, rate: RATE_BIG, v2: true });
    // re-setting the rate already in force, and lowering it, through the other handler: once collects have drained the vault below a
    // day of it these must be refused too (the vault was only checked when the rate was first set)
    a.push(O::SetEmissions { index: 0, rate: RATE_1, v2: false });
    a.push(O::SetEmissions { index: 0, rate: RATE_1 / 2, v2: false });
    a.push(O::SetEmissions { index: 0, rate: RATE_1 / 2, v2: true });
    a.push(O::InitReward { index: 1, v2: true });
    a.push(O::SetAuthority { index: 0, by_super: false });
    a.push(O::SetAuthority { index: 1, by_super: true });
    a.push(O::Base(Op::Inc { pos: 0, liq: stdworlds::BIG, v2: true }));
    a.push(O::Base(Op::Dec { pos: 0, part: Part::All, v2: false }));
    a.push(O::Base(Op::Dec { pos: 1, part: Part::Half, v2: true }));
    a.push(O::Base(Op::Dec { pos: 2, part: Part::All, v2: true }));
    // reposition_liquidity_v2: withdraws everything (crediting what accrued), re-ranges, deposits again — what was owed stays owed
    a.push(O::Base(Op::Repos { pos: 0, lower: -64, upper: 192, liq: stdworlds::BIG / 2 }));
    a.push(O::Base(Op::Repos { pos: 0, lower: -128, upper: 128, liq: stdworlds::BIG }));
    a.push(O::Base(Op::Repos { pos: 1, lower: 192, upper: 5696, liq: 12_345 })); // out of range at the start price
    a
}

struct Counters {
    accrual_intervals: AtomicU64,
    dropped_intervals: AtomicU64,
    zero_liquidity_intervals: AtomicU64,
    observations: AtomicU64,
    nonzero_owed: AtomicU64,
    collects: AtomicU64,
    partial_collects: AtomicU64,
    emissions_refused: AtomicU64,
    emissions_set: AtomicU64,
    backwards_probes: AtomicU64,
    position_drops: AtomicU64,
    beyond_u64: AtomicU64,
}

struct M<'a> {
    wd: &'a Wd,
    alphabet: Vec<O>,
    c: &'a Counters,
    /// vault funding applied when a reward is initialised (index -> amount)
    fund_on_init: [u64; 3],
}

fn fp_q(h: &mut svm::Fp, q: &Q) {
    let n = q.clone().norm();
    h.bytes(&n.n.to_bytes_le());
    h.bytes(&n.d.to_bytes_le());
}

impl<'a> M<'a> {
    fn w(&self) -> &StdWorld {
        &self.wd.w
    }
    fn initialized(pool: &decode::Pool, i: usize) -> bool {
        pool.reward_infos[i].mint != Pubkey::default()
    }
    /// accrual of the interval (last settling instruction, ts] at the pre-state rates, liquidity and active set (`last` is the
    /// harness's own record, not the pool's stored last-update time)
    fn accrue(&self, l: &Ledger, last: i64, ts: i64, g: &mut [[RG; 3]], count: bool) {
        let pool = self.w().pool.state(l);
        if ts <= last {
            return;
        }
        let dt = (ts - last) as u128;
        if pool.liquidity == 0 {
            if count {
                self.c.zero_liquidity_intervals.fetch_add(1, Ordering::Relaxed);
            }
            return;
        }
        for i in 0..3 {
            if !Self::initialized(&pool, i) {
                continue;
            }
            let rate = pool.reward_infos[i].emissions_per_second_x64;
            if rate == 0 {
                continue;
            }
            let prod = bu(dt) * bu(rate);
            if prod >= pow2(128) {
                // dropped by the program (checked multiplication overflows): nothing accrues for this interval
                if count {
                    self.c.dropped_intervals.fetch_add(1, Ordering::Relaxed);
                }
                continue;
            }
            if count {
                self.c.accrual_intervals.fetch_add(1, Ordering::Relaxed);
            }
            for (pi, p) in self.w().positions.iter().enumerate() {
                let ps = p.state(l);
                if ps.liquidity > 0 && ps.tick_lower_index <= pool.tick_current_index && pool.tick_current_index < ps.tick_upper_index {
                    // share = dt * rate / 2^64 * L_P / L_pool
                    let share = Q::new(&prod * bu(ps.liquidity), bu(pool.liquidity) << 64);
                    g[pi][i].pending = g[pi][i].pending.add(&share);
                    g[pi][i].slack = g[pi][i].slack.add(&Q::new(bu(ps.liquidity), pow2(64)));
                }
            }
        }
    }
    /// the statement's own accrual, driven by the harness clock only: during a clock step nothing but time changes, so the pool's
    /// in-range liquidity, the set of positions in range and the emission rates of the pre-state hold for the whole step
    fn accrue_exact(&self, l: &Ledger, dt: i64, g: &mut [[RG; 3]]) {
        if dt <= 0 {
            return;
        }
        let pool = self.w().pool.state(l);
        if pool.liquidity == 0 {
            return;
        }
        for i in 0..3 {
            if !Self::initialized(&pool, i) || pool.reward_infos[i].emissions_per_second_x64 == 0 {
                continue;
            }
            let prod = bu(dt as u128) * bu(pool.reward_infos[i].emissions_per_second_x64);
            for (pi, p) in self.w().positions.iter().enumerate() {
                let ps = p.state(l);
                if ps.liquidity > 0 && ps.tick_lower_index <= pool.tick_current_index && pool.tick_current_index < ps.tick_upper_index {
                    let share = Q::new(&prod * bu(ps.liquidity), bu(pool.liquidity) << 64);
                    g[pi][i].xpending = g[pi][i].xpending.add(&share);
                }
            }
        }
    }
    /// a position update credits the pending amount (floor), or drops it when it does not fit in u64
    fn settle(&self, g: &mut [RG; 3], count: bool) {
        for i in 0..3 {
            let x = std::mem::replace(&mut g[i].xpending, Q::zero());
            g[i].xsettled = g[i].xsettled.add(&x);
            let p = std::mem::replace(&mut g[i].pending, Q::zero());
            if p.floor() >= pow2(64) {
                if count {
                    self.c.position_drops.fetch_add(1, Ordering::Relaxed);
                }
                continue;
            }
            g[i].settled = g[i].settled.add(&p);
            g[i].slack = g[i].slack.add(&Q::int(1));
        }
    }
    fn observe(&self, what: &str, pi: usize, g: &[RG; 3], owed: [u64; 3]) -> Result<(), String> {
        self.c.observations.fetch_add(1, Ordering::Relaxed);
        let p = &self.w().positions[pi];
        for i in 0..3 {
            if g[i].xsettled.floor() >= pow2(64) {
                // the exact entitlement no longer fits the 64-bit amount a position can be owed (world c11-overflow only: a 2^62
                // vault emitted per day): outside what the statement can express, not judged
                self.c.beyond_u64.fetch_add(1, Ordering::Relaxed);
                continue;
            }
            let got = Q::int(g[i].collected + owed[i] as u128);
            if owed[i] > 0 {
                self.c.nonzero_owed.fetch_add(1, Ordering::Relaxed);
            }
            if !got.le(&g[i].xsettled) {
                return Err(format!(
                    "{what}: position {pi} [{}..{}) reward {i}: collected+owed = {} exceeds its exact pro-rata share {:.6} of the emissions (rate x seconds in range x its share of the in-range liquidity, by the harness clock)",
                    p.lower, p.upper, g[i].collected + owed[i] as u128, g[i].xsettled.to_f64()
                ));
            }
            if !g[i].settled.le(&got.add(&g[i].slack)) {
                return Err(format!(
                    "{what}: position {pi} [{}..{}) reward {i}: collected+owed = {} falls short of its share {:.6} by more than the rounding bound {:.6}",
                    p.lower, p.upper, g[i].collected + owed[i] as u128, g[i].settled.to_f64(), g[i].slack.to_f64()
                ));
            }
        }
        Ok(())
    }
    fn build(&self, l: &Ledger, op: &O) -> Option<solana_program::instruction::Instruction> {
        let w = self.w();
        let auth = w.cfg.reward_emissions_super_authority;
        match op {
            O::Base(b) => ops::build(l, w, b),
            O::InitReward { index, v2 } => Some(world::ix_init_reward(&w.pool, auth, w.funder, self.wd.rmint[*index as usize], l.get(&self.wd.rmint[*index as usize]).map(|a| a.owner).unwrap_or(world::TOKEN), *index, *v2)),
            O::SetEmissions { index, rate, v2 } => Some(world::ix_set_reward_emissions(&w.pool, auth, self.wd.rvault[*index as usize], *index, *rate, *v2)),
            O::Collect { pos, index, v2 } => {
                let i = *index as usize;
                Some(world::ix_collect_reward(&w.positions[*pos as usize], w.lp.owner, self.wd.rwallet[i], self.wd.rmint[i], l.get(&self.wd.rmint[i]).map(|a| a.owner).unwrap_or(world::TOKEN), self.wd.rvault[i], *index, *v2))
            }
            O::SetAuthority { index, by_super } => {
                // the authority stays the same key (the emissions super authority, which also acts as every reward's authority here)
                Some(if *by_super {
                    super::c04_world::ix_set_reward_authority_by_super(w.cfg.addr, w.pool.addr, auth, auth, *index)
                } else {
                    super::c04_world::ix_set_reward_authority(w.pool.addr, auth, auth, *index)
                })
            }
            O::Drain { .. } => None,
        }
    }
}

impl<'a> Model for M<'a> {
    type S = St;
    type O = O;
    fn fp(&self, s: &St) -> u128 {
        let mut h = svm::Fp::new();
        let mut keys = ops::core_keys(&s.l, self.w());
        keys.extend_from_slice(&self.wd.rvault);
        h.u128(s.l.fingerprint_of(&keys, false));
        for g in &s.g {
            for r in g.iter() {
                fp_q(&mut h, &r.settled);
                fp_q(&mut h, &r.pending);
                fp_q(&mut h, &r.slack);
                fp_q(&mut h, &r.xsettled);
                fp_q(&mut h, &r.xpending);
                h.u128(r.collected);
                h.u128(s.last as u128);
            }
        }
        h.finish()
    }
    fn ops(&self, _s: &St) -> Vec<O> {
        self.alphabet.clone()
    }
    fn step(&self, s: &St, op: &O) -> Result<Option<St>, String> {
        let w = self.w();
        if let O::Base(Op::Clock(dt)) = op {
            let mut n = s.clone();
            self.accrue_exact(&s.l, *dt, &mut n.g);
            n.l.unix_ts += dt;
            return Ok(Some(n));
        }
        let Some(ix) = self.build(&s.l, op) else { return Ok(None) };
        let mut l = s.l.clone();
        let out = svm::process(&mut l, &ix);
        let pool0 = w.pool.state(&s.l);
        // enabledness clauses of the statement
        if let O::SetEmissions { index, rate, .. } = op {
            let i = *index as usize;
            if M::initialized(&pool0, i) {
                let per_day = (bu(86_400) * bu(*rate)) >> 64;
                let vault = balance(&s.l, &self.wd.rvault[i]);
                let fits = per_day <= bu(vault as u128) && per_day < pow2(64);
                if out.ok() && !fits {
                    return Err(format!("set_reward_emissions({rate}) accepted although the vault holds {vault} < one day of emissions {per_day}"));
                }
                if !out.ok() && fits && s.l.unix_ts as u64 >= pool0.reward_last_updated_timestamp {
                    return Err(format!("set_reward_emissions({rate}) refused ({}) although the vault holds {vault} >= one day of emissions {per_day}", out.short()));
                }
                if out.ok() {
                    self.c.emissions_set.fetch_add(1, Ordering::Relaxed);
                } else {
                    self.c.emissions_refused.fetch_add(1, Ordering::Relaxed);
                }
            } else if out.ok() {
                return Err(format!("set_reward_emissions succeeded for uninitialised reward {i}"));
            }
        }
        if !out.ok() {
            return Ok(None);
        }
        let mut g = s.g.clone();
        let ts = s.l.unix_ts;
        match op {
            O::Base(Op::Swap { .. }) => self.accrue(&s.l, s.last, ts, &mut g, true),
            O::SetEmissions { .. } => self.accrue(&s.l, s.last, ts, &mut g, true),
            O::Base(Op::Inc { pos, .. }) | O::Base(Op::Dec { pos, .. }) | O::Base(Op::Update { pos }) | O::Base(Op::Repos { pos, .. }) => {
                self.accrue(&s.l, s.last, ts, &mut g, true);
                let pi = *pos as usize;
                self.settle(&mut g[pi], true);
                let ps = w.positions[pi].state(&l);
                self.observe(&format!("after {op:?}"), pi, &g[pi], [ps.reward_infos[0].amount_owed, ps.reward_infos[1].amount_owed, ps.reward_infos[2].amount_owed])?;
            }
            O::Collect { pos, index, .. } => {
                let (pi, i) = (*pos as usize, *index as usize);
                let before = w.positions[pi].state(&s.l).reward_infos[i].amount_owed;
                let vault = balance(&s.l, &self.wd.rvault[i]);
                // paid = what left the vault; the holder receives it less the mint's transfer fee (reward 2 only)
                let received = balance(&l, &self.wd.rwallet[i]) - balance(&s.l, &self.wd.rwallet[i]);
                let paid = vault - balance(&l, &self.wd.rvault[i]);
                let after = w.positions[pi].state(&l).reward_infos[i].amount_owed;
                let fee = if i == 2 { (paid as u128 * REWARD2_FEE_BPS as u128).div_ceil(10_000) as u64 } else { 0 };
                if paid != before.min(vault) || after != before - paid || received != paid - fee {
                    return Err(format!("collect_reward took {paid} out of the vault, the holder received {received} (transfer fee {fee}) and {after} is left owed; position was owed {before}, vault held {vault}: expected min(owed, vault) paid and the remainder still owed"));
                }
                self.c.collects.fetch_add(1, Ordering::Relaxed);
                if paid < before {
                    self.c.partial_collects.fetch_add(1, Ordering::Relaxed);
                }
                g[pi][i].collected += paid as u128;
            }
            O::InitReward { index, .. } => {
                // fund the fresh vault (external mint-to by the reward authority), so emissions can be set
                let i = *index as usize;
                let amt = self.fund_on_init[i];
                if amt > 0 {
                    let mi = if l.get(&self.wd.rmint[i]).map(|a| a.owner) == Some(world::T22) {
                        spl_token_2022::instruction::mint_to(&world::T22, &self.wd.rmint[i], &self.wd.rvault[i], &world::mint_authority(), &[], amt).unwrap()
                    } else {
                        spl_token::instruction::mint_to(&world::TOKEN, &self.wd.rmint[i], &self.wd.rvault[i], &world::mint_authority(), &[], amt).unwrap()
                    };
                    svm::process_builtin(&mut l, &mi).map_err(|e| format!("harness: funding reward vault failed: {e}"))?;
                }
            }
            _ => {}
        }
        let settles = matches!(op, O::Base(Op::Swap { .. }) | O::SetEmissions { .. } | O::Base(Op::Inc { .. }) | O::Base(Op::Dec { .. }) | O::Base(Op::Update { .. }) | O::Base(Op::Repos { .. }));
        Ok(Some(St { l, g, last: if settles { ts.max(s.last) } else { s.last } }))
    }
    fn check_state(&self, s: &St) -> Result<(), String> {
        let w = self.w();
        let pool = w.pool.state(&s.l);
        // uninitialised rewards never accrue
        for i in 0..3 {
            if !M::initialized(&pool, i) {
                if pool.reward_infos[i].growth_global_x64 != 0 || pool.reward_infos[i].emissions_per_second_x64 != 0 {
                    return Err(format!("uninitialised reward {i} has growth {} / emissions {}", pool.reward_infos[i].growth_global_x64, pool.reward_infos[i].emissions_per_second_x64));
                }
                for p in &w.positions {
                    if p.state(&s.l).reward_infos[i].amount_owed != 0 {
                        return Err(format!("position is owed an uninitialised reward {i}"));
                    }
                }
            }
        }
        // bring every funded position up to date on a copy and compare with the shadow ledger
        let mut c = s.l.clone();
        let mut g = s.g.clone();
        let mut any_funded = None;
        let mut last = s.last;
        for (pi, p) in w.positions.iter().enumerate() {
            if p.state(&c).liquidity > 0 {
                any_funded = Some(pi);
                self.accrue(&c, last, c.unix_ts, &mut g, false);
                last = last.max(c.unix_ts);
                let upd = world::ix_update_fees_and_rewards(&p.at(&c));
                let o = svm::process(&mut c, &upd);
                if !o.ok() {
                    return Err(format!("update_fees_and_rewards failed on a funded position: {}", o.short()));
                }
                self.settle(&mut g[pi], false);
                let ps = p.state(&c);
                self.observe("virtual update", pi, &g[pi], [ps.reward_infos[0].amount_owed, ps.reward_infos[1].amount_owed, ps.reward_infos[2].amount_owed])?;
            } else {
                let ps = p.state(&c);
                self.observe("stored", pi, &g[pi], [ps.reward_infos[0].amount_owed, ps.reward_infos[1].amount_owed, ps.reward_infos[2].amount_owed])?;
            }
        }
        // an operation carrying a timestamp earlier than the last update fails
        if let Some(pi) = any_funded {
            if pool.reward_last_updated_timestamp > 0 {
                let mut b = s.l.clone();
                b.unix_ts = pool.reward_last_updated_timestamp as i64 - 1;
                for ix in [
                    world::ix_update_fees_and_rewards(&w.positions[pi].at(&b)),
                    world::ix_increase(&w.positions[pi].at(&b), &w.lp, 1000, u64::MAX, u64::MAX, pi % 2 == 0),
                    ops::build(&b, w, &Op::Swap { a_to_b: true, exact_in: true, amount: 1000, lim: Lim::None, v2: false }).unwrap(),
                ] {
                    let mut bb = b.clone();
                    let o = svm::process(&mut bb, &ix);
                    self.c.backwards_probes.fetch_add(1, Ordering::Relaxed);
                    // the specific refusal is demanded only where the timestamp is the one thing wrong (the same instruction succeeds
                    // at the present time); where it would be refused anyway (e.g. a swap at the price bound) it just has to fail
                    let mut now = s.l.clone();
                    let fine_now = svm::process(&mut now, &ix).ok();
                    if o.ok() || (fine_now && o.code() != Some(ec(ErrorCode::InvalidTimestamp))) {
                        return Err(format!("operation with a timestamp earlier than the last reward update gave {} instead of InvalidTimestamp", o.short()));
                    }
                }
            }
        }
        Ok(())
    }
}

fn mk_counters() -> Counters {
    Counters {
        accrual_intervals: AtomicU64::new(0),
        dropped_intervals: AtomicU64::new(0),
        zero_liquidity_intervals: AtomicU64::new(0),
        observations: AtomicU64::new(0),
        nonzero_owed: AtomicU64::new(0),
        collects: AtomicU64::new(0),
        partial_collects: AtomicU64::new(0),
        emissions_refused: AtomicU64::new(0),
        emissions_set: AtomicU64::new(0),
        backwards_probes: AtomicU64::new(0),
        position_drops: AtomicU64::new(0),
        beyond_u64: AtomicU64::new(0),
    }
}

fn root_states(wd: &Wd, m: &M) -> Result<Vec<(String, St)>, String> {
    let mut out = vec![];
    for (name, base, prefix) in &wd.prefixes {
        let mut cur = St { l: base.clone(), g: (0..wd.w.positions.len()).map(|_| [RG::new(), RG::new(), RG::new()]).collect(), last: wd.w.pool.state(base).reward_last_updated_timestamp as i64 };
        for op in prefix {
            cur = m.step(&cur, op)?.ok_or_else(|| format!("root prefix op {op:?} failed"))?;
        }
        out.push((name.clone(), cur));
    }
    Ok(out)
}

fn model<'a>(wd: &'a Wd, c: &'a Counters) -> M<'a> {
    M { wd, alphabet: wd.alphabet.clone(), c, fund_on_init: wd.fund_on_init }
}

pub fn run(ctx: &Ctx) -> Report {
    let mut r = Report::new("C11", "model_checking");
    let ws = worlds(!ctx.tier.is_quick());
    let c = mk_counters();
    for (wi, wd) in ws.iter().enumerate() {
        let share = ctx.left() * 0.95 / (ws.len() - wi) as f64;
        let m = model(wd, &c);
        let named = match root_states(wd, &m) {
            Ok(x) => x,
            Err(e) => {
                r.violation(format!("{}/root", wd.name), e, json!({"kind":"root","world": wd.name}));
                break;
            }
        };
        let roots: Vec<St> = named.iter().map(|x| x.1.clone()).collect();
        let lim = Limits { max_depth: ctx.depth(4, 7), budget_s: share.min(ctx.left().max(1.0)), max_states: 30_000_000 };
        let (stats, found) = explore::explore(&m, &roots, &lim);
        if let Some(f) = found {
            r.violation(
                format!("{}/{}/{}", wd.name, named[f.root].0, serde_json::to_string(&f.path).unwrap()),
                f.detail.clone(),
                json!({"kind":"ops","world": wd.name, "root": named[f.root].0, "ops": serde_json::to_value(&f.path).unwrap()}),
            );
        }
        let out = crate::poolexplore::RunOut { stats, outcomes: Default::default() };
        crate::poolexplore::fold(&mut r, &wd.name, &out, &[]);
        r.sample(json!({"world": wd.name, "op_sequence": serde_json::to_value(&m.alphabet[..4]).unwrap()}));
        if !r.violations.is_empty() {
            break;
        }
    }
    let ld = |a: &AtomicU64| a.load(Ordering::Relaxed);
    r.set("accrual_intervals_credited", ld(&c.accrual_intervals));
    r.set("entitlement_observations", ld(&c.observations));
    r.guard("accrual_intervals_credited", ld(&c.accrual_intervals));
    r.guard("intervals_dropped_by_u128_overflow", ld(&c.dropped_intervals)); // world c11-overflow: a 2^62 vault emitted per day, five idle days
    r.guard("zero_liquidity_intervals", ld(&c.zero_liquidity_intervals));
    r.guard("entitlement_observations", ld(&c.observations));
    r.guard("observations_with_nonzero_owed", ld(&c.nonzero_owed));
    r.guard("collect_reward_executions", ld(&c.collects));
    r.guard("collects_limited_by_vault_balance", ld(&c.partial_collects));
    r.guard("emission_changes_accepted", ld(&c.emissions_set));
    r.guard("emission_changes_refused_for_vault_balance", ld(&c.emissions_refused));
    r.guard("earlier_timestamp_probes", ld(&c.backwards_probes));
    r.set("position_credit_drops_u64", ld(&c.position_drops));
    r.set("observations_skipped_entitlement_beyond_u64", ld(&c.beyond_u64));
    r.set("mode", "ledger mode: fingerprint = pool/position/tick-array/vault bytes + exact shadow entitlements");
    r.set("exhaustive", false);
    r.assume("the harness clock is the only time source (Clock sysvar served from the ledger)");
    r.assume("rounding bound: L_P/2^64 per accrual interval + 1 per position update, per reward");
    r
}

pub fn replay(case: &Value) -> Result<(), String> {
    let ws = worlds(true);
    let name = case["world"].as_str().ok_or("world")?;
    let wd = ws.iter().find(|w| w.name == name).ok_or("unknown world")?;
    let c = mk_counters();
    let m = model(wd, &c);
    if case["kind"].as_str() == Some("root") {
        return root_states(wd, &m).map(|_| ());
    }
    let root = case["root"].as_str().ok_or("root")?;
    let named = root_states(wd, &m)?;
    let mut cur = named.iter().find(|r| r.0 == root).ok_or("unknown root")?.1.clone();
    let path: Vec<O> = serde_json::from_value(case["ops"].clone()).map_err(|e| e.to_string())?;
    m.check_state(&cur)?;
    for op in &path {
        match m.step(&cur, op)? {
            None => return Ok(()),
            Some(n) => {
                m.check_state(&n)?;
                cur = n;
            }
        }
    }
    let _ = BigUint::one();
    let _ = BigUint::zero();
    Ok(())
}
