//! C03, two-hop part: every two-hop variant (routes x v1/v2 x modes x amounts x limit pairs) executed in every state of a
//! small exploration of the three-pool world, judged from real balances and the decoded pools: never more than the specified
//! input (exact-in) / output (exact-out); each pool's price moves only in its leg's direction, stays in bounds and does not
//! pass that leg's limit; a shortfall of the specified amount ends exactly on the limit / bound of the leg that limits it;
//! exact-out without a limit on the second leg is all-or-nothing; thresholds flip exactly at the realised amount.
use super::c17_world::{self as w3, HopArgs, Kind, Op3, W3};
use crate::ops::{self, Lim};
use crate::oracles::ec;
use crate::refmodel::{MAX_SQRT_PRICE, MIN_SQRT_PRICE};
use crate::report::{Ctx, Report};
use crate::world::balance;
use serde_json::{json, Value};
use svm::Ledger;
use whirlpool::errors::ErrorCode;

#[derive(Clone, Debug, serde::Serialize, serde::Deserialize)]
pub struct V {
    pub one: usize,
    pub two: usize,
    pub a1: bool,
    pub a2: bool,
    pub v2: bool,
    pub exact_in: bool,
    pub amount: u64,
    pub lim1: Lim,
    pub lim2: Lim,
}

fn routes(w: &W3) -> Vec<(usize, usize, bool, bool)> {
    let mut v = vec![];
    for one in 0..3 {
        for two in 0..3 {
            if one == two {
                continue;
            }
            for a1 in [true, false] {
                for a2 in [true, false] {
                    if w3::out_mint(w.pool(one), a1) == w3::in_mint(w.pool(two), a2) && w3::in_mint(w.pool(one), a1) != w3::out_mint(w.pool(two), a2) {
                        v.push((one, two, a1, a2));
                    }
                }
            }
        }
    }
    v
}

fn variants(w: &W3, thorough: bool) -> Vec<V> {
    let mut out = vec![];
    let versions: &[bool] = if w.v1_capable() { &[false, true] } else { &[true] };
    let mut lims = vec![(Lim::None, Lim::None), (Lim::None, Lim::Mid), (Lim::Mid, Lim::None), (Lim::None, Lim::NextTick)];
    if thorough {
        lims.extend([(Lim::NextTick, Lim::None), (Lim::Mid, Lim::Mid), (Lim::Bound, Lim::Bound), (Lim::None, Lim::ShortOfNextTick)]);
    }
    let amounts: &[u64] = if thorough { &[1, 1_000, 1_000_000, 4_000_000, 40_000_000, 8_000_000_000] } else { &[1_000, 1_000_000, 40_000_000, 8_000_000_000] };
    for (one, two, a1, a2) in routes(w) {
        for &v2 in versions {
            for exact_in in [true, false] {
                for &amount in amounts {
                    for &(lim1, lim2) in &lims {
                        out.push(V { one, two, a1, a2, v2, exact_in, amount, lim1, lim2 });
                    }
                }
            }
        }
    }
    out
}

#[derive(Default)]
struct Counts {
    executed: u64,
    ok: u64,
    partial: u64,
    limit_two_binding: u64,
    limit_one_binding: u64,
    thresholds: u64,
    threshold_failures: u64,
}

fn eff(limit: u128, a_to_b: bool) -> u128 {
    if limit == 0 {
        if a_to_b {
            MIN_SQRT_PRICE
        } else {
            MAX_SQRT_PRICE
        }
    } else {
        limit
    }
}

fn check(l: &Ledger, w: &W3, v: &V, c: &mut Counts) -> Result<(), String> {
    let (p1, p2) = (w.pool(v.one), w.pool(v.two));
    let lim1 = ops::resolve_limit(l, p1, v.a1, v.lim1);
    let lim2 = ops::resolve_limit(l, p2, v.a2, v.lim2);
    let args = |th: u64| HopArgs { amount: v.amount, other_amount_threshold: th, exact_in: v.exact_in, a_to_b_one: v.a1, a_to_b_two: v.a2, limit_one: lim1, limit_two: lim2 };
    let mut post = l.clone();
    let o = svm::process(&mut post, &w3::ix_two_hop(l, w, v.one, v.two, args(if v.exact_in { 0 } else { u64::MAX }), v.v2));
    c.executed += 1;
    if !o.ok() {
        return Ok(());
    }
    c.ok += 1;
    let tin = w.trader_acct(&w3::in_mint(p1, v.a1));
    let tout = w.trader_acct(&w3::out_mint(p2, v.a2));
    let paid = balance(l, &tin).wrapping_sub(balance(&post, &tin));
    let got = balance(&post, &tout).wrapping_sub(balance(l, &tout));
    if v.exact_in && paid > v.amount {
        return Err(format!("exact-in two-hop of {} took {paid} from the trader", v.amount));
    }
    if !v.exact_in && got > v.amount {
        return Err(format!("exact-out two-hop for {} delivered {got}", v.amount));
    }
    for (which, p, a_to_b, lim) in [("one", p1, v.a1, lim1), ("two", p2, v.a2, lim2)] {
        let (s0, s1) = (p.state(l).sqrt_price, p.state(&post).sqrt_price);
        if a_to_b && s1 > s0 || !a_to_b && s1 < s0 {
            return Err(format!("pool {which} moved against its trade direction: {s0} -> {s1}"));
        }
        if s1 < MIN_SQRT_PRICE || s1 > MAX_SQRT_PRICE {
            return Err(format!("pool {which} price {s1} outside the protocol bounds"));
        }
        let e = eff(lim, a_to_b);
        if a_to_b && s1 < e || !a_to_b && s1 > e {
            return Err(format!("pool {which} moved beyond its price limit: {s1} past {e}"));
        }
    }
    // a shortfall of the specified amount ends exactly on the limiting leg's limit (or bound)
    let used = if v.exact_in { paid } else { got };
    if used < v.amount {
        c.partial += 1;
        let (p, a_to_b, lim, which) = if v.exact_in { (p1, v.a1, lim1, "one") } else { (p2, v.a2, lim2, "two") };
        let s1 = p.state(&post).sqrt_price;
        if s1 != eff(lim, a_to_b) {
            return Err(format!("two-hop used {used} of {} but pool {which} stopped at {s1}, not at its limit/bound {}", v.amount, eff(lim, a_to_b)));
        }
        if !v.exact_in && lim2 == 0 {
            return Err(format!("exact-out two-hop without a limit on the last leg delivered only {used} of {}", v.amount));
        }
        if v.exact_in {
            c.limit_one_binding += 1;
        } else {
            c.limit_two_binding += 1;
        }
    }
    // thresholds
    let x = if v.exact_in { got } else { paid };
    for th in [x.checked_sub(1), Some(x), x.checked_add(1)].into_iter().flatten() {
        let mut cpy = l.clone();
        let r = svm::process(&mut cpy, &w3::ix_two_hop(l, w, v.one, v.two, args(th), v.v2));
        c.thresholds += 1;
        let should = if v.exact_in { th <= x } else { th >= x };
        if r.ok() != should {
            return Err(format!("two-hop realising {x}: threshold {th} gave {} (expected {})", r.short(), if should { "success" } else { "failure" }));
        }
        if !r.ok() {
            c.threshold_failures += 1;
            let want = if v.exact_in { ec(ErrorCode::AmountOutBelowMinimum) } else { ec(ErrorCode::AmountInAboveMaximum) };
            if r.code() != Some(want) {
                return Err(format!("threshold {th} vs realised {x} failed with {} instead of {want}", r.short()));
            }
        }
    }
    Ok(())
}

fn states(w: &W3, base: &Ledger, thorough: bool) -> Vec<(String, Vec<Op3>, Ledger)> {
    let mut out = vec![];
    for (name, seq) in w3::roots(w) {
        let l = w3::apply_all3(base, w, &seq);
        out.push((name.to_string(), vec![], l.clone()));
        // one more single-pool op from each root: moves a pool onto a tick / across ticks / changes liquidity
        let mut extra = vec![];
        for p in 0..3u8 {
            extra.push(Op3 { pool: p, op: crate::ops::Op::Swap { a_to_b: true, exact_in: true, amount: u64::MAX >> 8, lim: Lim::NextTick, v2: true } });
            if thorough {
                extra.push(Op3 { pool: p, op: crate::ops::Op::Swap { a_to_b: false, exact_in: true, amount: 3_000_000, lim: Lim::None, v2: true } });
                extra.push(Op3 { pool: p, op: crate::ops::Op::Dec { pos: 0, part: crate::ops::Part::All, v2: true } });
            }
        }
        for e in extra {
            let s = w3::apply3(&l, w, &e);
            if s.outcome.ok() {
                out.push((name.to_string(), vec![e], s.ledger));
            }
        }
    }
    out
}

pub fn run_part(ctx: &Ctx, r: &mut Report) {
    let thorough = !ctx.tier.is_quick();
    let kinds: Vec<(Kind, &str)> = if thorough { vec![(Kind::Spl, "c03-3pool-spl"), (Kind::T22, "c03-3pool-t22")] } else { vec![(Kind::Spl, "c03-3pool-spl")] };
    let mut c = Counts::default();
    let mut n_states = 0u64;
    'outer: for (kind, name) in kinds {
        let (base, w) = w3::build(kind, name, [false, false, false], None);
        let vs = variants(&w, thorough);
        for (root, prefix, l) in states(&w, &base, thorough) {
            n_states += 1;
            for v in &vs {
                if let Err(e) = check(&l, &w, v, &mut c) {
                    let case = json!({"kind":"twohop","world":name,"root":root,"prefix":serde_json::to_value(&prefix).unwrap(),"variant":serde_json::to_value(v).unwrap()});
                    r.violation(format!("twohop/{name}/{root}/{}/{}", serde_json::to_string(&prefix).unwrap(), serde_json::to_string(v).unwrap()), e, case);
                    break 'outer;
                }
            }
            if r.coverage.get("twohop_sample").is_none() {
                r.set("twohop_sample", serde_json::to_value(&vs[0]).unwrap());
            }
        }
    }
    r.add("states", n_states);
    r.add("transitions", c.executed);
    r.add("traces_validated_against_impl", c.ok);
    r.set("twohop_states", n_states);
    r.set("twohop_executions", c.executed);
    r.set("twohop_successes_checked", c.ok);
    r.set("twohop_threshold_reexecutions", c.thresholds);
    r.guard("twohop_successes_checked", c.ok);
    r.guard("twohop_partial_fills", c.partial);
    r.guard("twohop_first_leg_limit_binding", c.limit_one_binding);
    r.guard("twohop_second_leg_limit_binding", c.limit_two_binding);
    r.guard("twohop_threshold_failures_seen", c.threshold_failures);
}

pub fn replay_part(case: &Value) -> Option<Result<(), String>> {
    if case["kind"].as_str() != Some("twohop") {
        return None;
    }
    let name = case["world"].as_str()?;
    let kind = if name.ends_with("t22") { Kind::T22 } else { Kind::Spl };
    let (base, w) = w3::build(kind, name, [false, false, false], None);
    let root = case["root"].as_str()?;
    let seq = w3::roots(&w).into_iter().find(|r| r.0 == root)?.1;
    let mut l = w3::apply_all3(&base, &w, &seq);
    let prefix: Vec<Op3> = serde_json::from_value(case["prefix"].clone()).ok()?;
    for e in &prefix {
        l = w3::apply3(&l, &w, e).ledger;
    }
    let v: V = serde_json::from_value(case["variant"].clone()).ok()?;
    let mut c = Counts::default();
    Some(check(&l, &w, &v, &mut c))
}
