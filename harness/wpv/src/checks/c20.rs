//! C20 — SDK quotes (rust-sdk/core, built on the `ethnum` shim) equal what the program executes (DESIGN §3 C20).
//!
//! Part 0  the trusted-base addition is checked first: the `ethnum::U256` shim against num-bigint, every operator the
//!         SDK uses, on all pairs of 256-bit values built from a word alphabet (read back through `Display`, which is
//!         independent of the operators under test). A shim defect is a machinery error, not a C20 violation.
//! Part 1  Engine A differential: the pool explorations of C06 (same worlds / roots / alphabets) plus a Token-2022
//!         transfer-fee world and adaptive-fee worlds (real initialize_adaptive_fee_tier / initialize_pool_with_adaptive_fee,
//!         swap sequences interleaved with clock steps). In EVERY distinct state, for every swap of a 60-element swap
//!         alphabet, the real swap instruction is executed on a copy and `compute_swap` / `swap_quote_by_*` are evaluated
//!         on facades decoded from the SAME pre-state bytes, the same three tick arrays, the same timestamp and oracle.
//!         program ok  => SDK ok with identical amount in, amount out (real balance deltas) and total fee (H2 trace = Traded event);
//!         program err => SDK may be Ok only for PartialFillError / TickArraySequenceInvalidIndex / TickArrayIndexOutofBounds;
//!         slippage bounds on the safe side for 0 / 1 / 100 / 10000 bps.
//! Part 2  Engine B: tick<->price conversions on all 887 273 ticks (and p-1, p, p+1), amount deltas, next prices, fee helpers,
//!         transfer-fee helpers, a whole-swap single-segment differential on the C02 boundary alphabets (SDK `compute_swap`
//!         on an all-uninitialized full-range tick sequence vs the program's step function driven by the program's loop
//!         bookkeeping), and the liquidity quote helpers vs calculate_liquidity_token_deltas /
//!         estimate_max_liquidity_from_token_amounts on the C08 alphabet.
//!
//! Disagreements found on the unchanged tree (each is reported under an input-keyed violation key; see the final report
//! of the build round for the triage):
//!  * the SDK builds `x << 64` with `checked_shl(64)`, which only rejects shift amounts >= 256: when liquidity * price(-difference)
//!    >= 2^192 the shifted-out bits are lost and try_get_amount_delta_a / try_get_next_sqrt_price_from_a / the liquidity quotes /
//!    compute_swap return Ok(wrong number) where the program answers MultiplicationOverflow (root cause established exactly,
//!    with big integers, for every failing input);
//!  * the SDK quotes an adaptive-fee pool before its trade_enable_timestamp (program: TradeIsNotEnabled);
//!  * swap_quote_by_input_token on a transfer-fee token reports token_in = reverse(apply(amount)), the instruction debits `amount`;
//!  * (program, repaired in commit 730ae7e) U256Muldiv::div indexed past the dividend: a 2-unit swap on a pool at sqrt price 2^64+1
//!    with liquidity 2^64 panicked while the SDK returned the exact result. `panic_probe` keeps the instruction-level witness.
use super::c20_world::{self as cw, AfSpec, DiffStats, Fees, SwapSpec};
use crate::ops::{Lim, Op, Part, Stepped};
use crate::poolexplore::{self, PoolModel};
use crate::refmodel::{MAX_SQRT_PRICE, MAX_TICK, MIN_SQRT_PRICE, MIN_TICK};
use crate::report::{Ctx, Report};
use crate::stdworlds::{self, Built, BIG, P0};
use crate::world::{self, Enc, StdWorld, T22Ext};
use anchor_lang::prelude::{AccountInfo, InterfaceAccount};
use anchor_spl::token_interface::Mint;
use ethnum::U256;
use num_bigint::BigUint;
use num_traits::{One, ToPrimitive, Zero};
use orca_whirlpools_core as sdk;
use rayon::prelude::*;
use serde_json::{json, Value};
use std::panic::{catch_unwind, AssertUnwindSafe};
use std::sync::atomic::{AtomicU64, Ordering};
use std::sync::Mutex;
use svm::keys::key;
use svm::Ledger;
use whirlpool::manager::liquidity_manager::calculate_liquidity_token_deltas;
use whirlpool::math::{
    checked_mul_div, checked_mul_div_round_up, estimate_max_liquidity_from_token_amounts, get_amount_delta_a, get_amount_delta_b,
    get_next_sqrt_price_from_a_round_up, get_next_sqrt_price_from_b_round_down, sqrt_price_from_tick_index, tick_index_from_sqrt_price,
};
use whirlpool::state::Position;
use whirlpool::util::{calculate_transfer_fee_excluded_amount, calculate_transfer_fee_included_amount};

// ================================================================================================
// small helpers
// ================================================================================================
use super::c20_world::QUIET;
/// Panics of the code under test inside `quiet` are results, not diagnostics: keep the default hook silent for them.
fn install_quiet_hook() {
    static ONCE: std::sync::Once = std::sync::Once::new();
    ONCE.call_once(|| {
        let prev = std::panic::take_hook();
        std::panic::set_hook(Box::new(move |info| {
            if !QUIET.with(|q| q.get()) {
                prev(info);
            }
        }));
    });
}
fn quiet<T>(f: impl FnOnce() -> T) -> Result<T, ()> {
    let was = QUIET.with(|q| q.replace(true));
    let r = catch_unwind(AssertUnwindSafe(f)).map_err(|_| ());
    QUIET.with(|q| q.set(was));
    r
}
/// Failure text of a function-level check: "[class] detail". The class is the stable identity of the disagreement.
fn cls(class: &str, detail: String) -> String {
    format!("[{class}] {detail}")
}

/// Outcome of one side: a value, an error (with a description), or a panic.
#[derive(Clone, Debug, PartialEq, Eq)]
enum R<T> {
    Ok(T),
    Err(String),
    Panic,
}
impl<T: std::fmt::Debug> R<T> {
    fn show(&self) -> String {
        match self {
            R::Ok(v) => format!("Ok({v:?})"),
            R::Err(e) => format!("Err({e})"),
            R::Panic => "panic".into(),
        }
    }
    fn is_ok(&self) -> bool {
        matches!(self, R::Ok(_))
    }
    /// short identity of a rejection, used in failure classes
    fn kind(&self) -> String {
        match self {
            R::Ok(_) => "ok".into(),
            R::Err(e) => e.replace(' ', "-"),
            R::Panic => "panic".into(),
        }
    }
}
fn prog<T>(f: impl FnOnce() -> Result<T, whirlpool::errors::ErrorCode>) -> R<T> {
    match quiet(f) {
        Ok(Ok(v)) => R::Ok(v),
        Ok(Err(e)) => R::Err(format!("{e:?}")),
        Err(()) => R::Panic,
    }
}
fn prog_anchor<T>(f: impl FnOnce() -> anchor_lang::Result<T>) -> R<T> {
    match quiet(f) {
        Ok(Ok(v)) => R::Ok(v),
        Ok(Err(e)) => {
            let pe: solana_program::program_error::ProgramError = e.into();
            let c: u64 = pe.into();
            R::Err(format!("code {c}"))
        }
        Err(()) => R::Panic,
    }
}
fn sdkr<T>(f: impl FnOnce() -> Result<T, sdk::CoreError>) -> R<T> {
    match quiet(f) {
        Ok(Ok(v)) => R::Ok(v),
        Ok(Err(e)) => R::Err(e.to_string()),
        Err(()) => R::Panic,
    }
}

#[derive(Default)]
struct FnStats {
    evaluations: AtomicU64,
    distinct_nontrivial: AtomicU64,
    conv_forward: AtomicU64,
    conv_inverse: AtomicU64,
    conv_out_of_range_agree: AtomicU64,
    conv_out_of_range_differ: AtomicU64,
    delta_both_ok: AtomicU64,
    delta_prog_overflow: AtomicU64,
    next_both_ok: AtomicU64,
    next_prog_err: AtomicU64,
    next_prog_div_by_zero_sdk_ok: AtomicU64,
    next_prog_panic_sdk_ok: AtomicU64,
    next_sdk_stricter: AtomicU64,
    fee_both_ok: AtomicU64,
    fee_sdk_stricter: AtomicU64,
    tf_both_ok: AtomicU64,
    tf_prog_err: AtomicU64,
    step_both_ok: [AtomicU64; 4],
    step_prog_err: AtomicU64,
    step_multi: AtomicU64,
    liq_both_ok: [AtomicU64; 2],
    liq_prog_overflow: AtomicU64,
    liq_shifted: AtomicU64,
    liq_slippage: AtomicU64,
    liq_fee_ok: AtomicU64,
    est_fee_ok: AtomicU64,
    est_both_ok: AtomicU64,
    est_sdk_stricter: AtomicU64,
}
fn inc(a: &AtomicU64) {
    a.fetch_add(1, Ordering::Relaxed);
}
fn get(a: &AtomicU64) -> u64 {
    a.load(Ordering::Relaxed)
}

/// One failing input of a function-level check.
#[derive(Clone)]
struct Fail {
    key: String,
    detail: String,
    case: Value,
}
fn smaller(a: &Fail, b: &Fail) -> bool {
    (a.key.len(), &a.key) < (b.key.len(), &b.key)
}
#[derive(Default)]
struct Group {
    rep_quick: Option<Fail>, // smallest failing input inside the quick alphabets (the same in both tiers: thorough alphabets are supersets)
    rep_all: Option<Fail>,
    count: u64,
    smallest: Vec<Fail>, // up to 5 smallest, for groups without an identified root cause
}
/// Collects failures of a parallel enumeration, deterministically whatever the thread schedule.
/// Violation keys are input-keyed ("<function>/<input tuple>#<class>"). Failing inputs for which a check identified one
/// root cause (exactly, with big integers) are represented by the smallest such input; every other failing input is
/// reported under its own key (at most 5 per class).
#[derive(Default)]
struct Fails(Mutex<std::collections::BTreeMap<(String, Option<String>), Group>>);
impl Fails {
    fn push(&self, key: String, detail: String, case: Value, in_quick: bool) {
        let (class, rc) = match (detail.find('['), detail.find(']')) {
            (Some(0), Some(e)) => {
                let t = &detail[1..e];
                match t.split_once('|') {
                    Some((c, r)) => (c.to_string(), Some(r.to_string())),
                    None => (t.to_string(), None),
                }
            }
            _ => ("unclassified".to_string(), None),
        };
        let f = Fail { key, detail, case };
        let mut m = self.0.lock().unwrap();
        let g = m.entry((class, rc)).or_default();
        g.count += 1;
        if in_quick && g.rep_quick.as_ref().map(|c| smaller(&f, c)).unwrap_or(true) {
            g.rep_quick = Some(f.clone());
        }
        if g.rep_all.as_ref().map(|c| smaller(&f, c)).unwrap_or(true) {
            g.rep_all = Some(f.clone());
        }
        g.smallest.push(f);
        g.smallest.sort_by(|a, b| (a.key.len(), &a.key).cmp(&(b.key.len(), &b.key)));
        g.smallest.truncate(5);
    }
    fn drain_into(self, r: &mut Report) {
        let m = self.0.into_inner().unwrap();
        let mut counts = serde_json::Map::new();
        for ((class, rc), g) in m {
            counts.insert(format!("{class}{}", rc.as_ref().map(|x| format!(" | {x}")).unwrap_or_default()), json!(g.count));
            match rc {
                Some(rc) => {
                    let f = g.rep_quick.or(g.rep_all).unwrap();
                    r.violation(
                        format!("{}#{class}", f.key),
                        format!("{} (root cause {rc}, established exactly for each of the {} failing inputs of this class; this is the smallest of them within the quick alphabets)", f.detail, g.count),
                        f.case,
                    );
                }
                None => {
                    for f in g.smallest {
                        r.violation(format!("{}#{class}", f.key), format!("{} ({} failing inputs in this class)", f.detail, g.count), f.case);
                    }
                }
            }
        }
        if !counts.is_empty() {
            r.set("function_level_failing_inputs_by_class", Value::Object(counts));
        }
    }
}

/// Root cause RC1: the SDK builds `x << 64` with `checked_shl(64)`, which (std / ethnum semantics) only rejects shift amounts
/// >= 256 and silently drops the bits shifted out; the program's `checked_shift_word_left` rejects them.
const RC1: &str = "sdk-checked_shl(64)-drops-bits-of-a-product-above-2^192";
fn exceeds_192(a: u128, b: u128) -> bool {
    BigUint::from(a) * BigUint::from(b) >= (BigUint::one() << 192u32)
}

// ================================================================================================
// Part 0 — ethnum shim self-check
// ================================================================================================
fn big_of_words(w: [u64; 4]) -> BigUint {
    let mut b = BigUint::zero();
    for i in (0..4).rev() {
        b = (b << 64u32) + BigUint::from(w[i]);
    }
    b
}
fn u256_of_words(w: [u64; 4]) -> U256 {
    let hi = ((w[3] as u128) << 64) | w[2] as u128;
    let lo = ((w[1] as u128) << 64) | w[0] as u128;
    (U256::from(hi) << 128u32) | U256::from(lo)
}
fn big_of_u256(x: U256) -> BigUint {
    x.to_string().parse().expect("U256 Display must print a decimal number")
}
fn m256() -> BigUint {
    BigUint::one() << 256u32
}

fn shim_pair(a: [u64; 4], b: [u64; 4]) -> Result<(), String> {
    let (ua, ub) = (u256_of_words(a), u256_of_words(b));
    let (ba, bb) = (big_of_words(a), big_of_words(b));
    if big_of_u256(ua) != ba || big_of_u256(ub) != bb {
        return Err(format!("construction From<u128>/<<128/| of {a:?} or {b:?} reads back differently through Display"));
    }
    let m = m256();
    let chk = |name: &str, got: U256, want: BigUint| -> Result<(), String> {
        if big_of_u256(got) != want {
            Err(format!("{name}: {ba} , {bb} -> {} but exact is {want}", big_of_u256(got)))
        } else {
            Ok(())
        }
    };
    let opt = |name: &str, got: Option<U256>, want: Option<BigUint>| -> Result<(), String> {
        match (got, want) {
            (None, None) => Ok(()),
            (Some(g), Some(w)) if big_of_u256(g) == w => Ok(()),
            (g, w) => Err(format!("{name}: {ba} , {bb} -> {:?} but exact is {:?}", g.map(big_of_u256), w)),
        }
    };
    // wrapping + - * (release semantics of ethnum and of the shim: wrap; the SDK only relies on non-overflowing uses)
    chk("add", ua + ub, (&ba + &bb) % &m)?;
    chk("sub", ua - ub, (&m + &ba - &bb) % &m)?;
    chk("mul", ua * ub, (&ba * &bb) % &m)?;
    opt("checked_add", ua.checked_add(ub), Some(&ba + &bb).filter(|x| x < &m))?;
    opt("checked_sub", ua.checked_sub(ub), if ba >= bb { Some(&ba - &bb) } else { None })?;
    opt("checked_mul", ua.checked_mul(ub), Some(&ba * &bb).filter(|x| x < &m))?;
    if !bb.is_zero() {
        chk("div", ua / ub, &ba / &bb)?;
        chk("rem", ua % ub, &ba % &bb)?;
        opt("checked_div", ua.checked_div(ub), Some(&ba / &bb))?;
    } else {
        opt("checked_div by zero", ua.checked_div(ub), None)?;
        if quiet(|| ua / ub).is_ok() || quiet(|| ua % ub).is_ok() {
            return Err(format!("division of {ba} by zero did not panic"));
        }
    }
    chk("bitand", ua & ub, &ba & &bb)?;
    chk("bitor", ua | ub, &ba | &bb)?;
    chk("bitxor", ua ^ ub, &ba ^ &bb)?;
    let mut t = ua;
    t += ub;
    chk("add_assign", t, (&ba + &bb) % &m)?;
    let mut t = ua;
    t *= ub;
    chk("mul_assign", t, (&ba * &bb) % &m)?;
    // comparisons
    if (ua < ub) != (ba < bb) || (ua <= ub) != (ba <= bb) || (ua == ub) != (ba == bb) || (ua > ub) != (ba > bb) || (ua >= ub) != (ba >= bb) {
        return Err(format!("comparison of {ba} and {bb} wrong"));
    }
    if ua.cmp(&ub) != ba.cmp(&bb) || ua.max(ub) != (if ba >= bb { ua } else { ub }) {
        return Err(format!("Ord of {ba} and {bb} wrong"));
    }
    // mixed with u128 (rhs = low 128 bits of b), as the SDK writes `x + 1`, `x > 0`, `(MIN..=MAX).contains(&x)`, `x / p`
    let lb: u128 = ((b[1] as u128) << 64) | b[0] as u128;
    let blb = BigUint::from(lb);
    chk("add u128", ua + lb, (&ba + &blb) % &m)?;
    chk("sub u128", ua - lb, (&m + &ba - &blb) % &m)?;
    chk("mul u128", ua * lb, (&ba * &blb) % &m)?;
    chk("bitand u128", ua & lb, &ba & &blb)?;
    if lb != 0 {
        chk("div u128", ua / lb, &ba / &blb)?;
        chk("rem u128", ua % lb, &ba % &blb)?;
    }
    if (ua == lb) != (ba == blb) || (ua > lb) != (ba > blb) || (ua < lb) != (ba < blb) || (lb == ua) != (ba == blb) || (lb <= ua) != (blb <= ba) || (lb >= ua) != (blb >= ba) {
        return Err(format!("mixed comparison of {ba} and u128 {lb} wrong"));
    }
    let (lo, hi) = (lb.min(a[0] as u128), lb.max(a[0] as u128));
    if (lo..=hi).contains(&ua) != (ba >= BigUint::from(lo) && ba <= BigUint::from(hi)) {
        return Err(format!("RangeInclusive<u128>::contains(&U256) wrong for {ba} in {lo}..={hi}"));
    }
    Ok(())
}

fn shim_single(a: [u64; 4]) -> Result<(), String> {
    let ua = u256_of_words(a);
    let ba = big_of_words(a);
    let m = m256();
    for n in [0u32, 1, 31, 32, 63, 64, 65, 96, 127, 128, 129, 191, 192, 255] {
        if big_of_u256(ua << n) != (&ba << n) % &m {
            return Err(format!("{ba} << {n} wrong"));
        }
        if big_of_u256(ua >> n) != (&ba >> n) {
            return Err(format!("{ba} >> {n} wrong"));
        }
        // ethnum / primitive semantics: only the shift amount is checked, shifted-out bits are lost silently
        match ua.checked_shl(n) {
            Some(x) if big_of_u256(x) == (&ba << n) % &m => {}
            o => return Err(format!("checked_shl({ba}, {n}) = {:?}", o.map(big_of_u256))),
        }
        match ua.checked_shr(n) {
            Some(x) if big_of_u256(x) == (&ba >> n) => {}
            o => return Err(format!("checked_shr({ba}, {n}) = {:?}", o.map(big_of_u256))),
        }
        let mut t = ua;
        t >>= n;
        if big_of_u256(t) != (&ba >> n) {
            return Err(format!("{ba} >>= {n} wrong"));
        }
    }
    if ua.checked_shl(256).is_some() || ua.checked_shr(256).is_some() || ua.checked_shl(u32::MAX).is_some() {
        return Err("checked_shl/shr by >= 256 must be None".into());
    }
    let low128 = ((a[1] as u128) << 64) | a[0] as u128;
    if ua.as_u128() != low128 || ua.as_u64() != a[0] || ua.as_u32() != a[0] as u32 || ua.as_u16() != a[0] as u16 || ua.as_u8() != a[0] as u8 {
        return Err(format!("as_* truncation of {ba} wrong"));
    }
    let t128: Result<u128, _> = ua.try_into();
    if t128.ok() != ba.to_u128() {
        return Err(format!("TryInto<u128> of {ba} wrong"));
    }
    let t64: Result<u64, _> = ua.try_into();
    if t64.ok() != ba.to_u64() {
        return Err(format!("TryInto<u64> of {ba} wrong"));
    }
    let t32: Result<u32, _> = ua.try_into();
    if t32.ok() != ba.to_u32() {
        return Err(format!("TryInto<u32> of {ba} wrong"));
    }
    let t16: Result<u16, _> = ua.try_into();
    if t16.ok() != ba.to_u16() {
        return Err(format!("TryInto<u16> of {ba} wrong"));
    }
    if ua.leading_zeros() as u64 != 256 - ba.bits() {
        return Err(format!("leading_zeros of {ba} wrong"));
    }
    if big_of_u256(!ua) != &m - BigUint::one() - &ba {
        return Err(format!("!{ba} wrong"));
    }
    // From<prim>
    if big_of_u256(U256::from(a[0])) != BigUint::from(a[0])
        || big_of_u256(U256::from(low128)) != BigUint::from(low128)
        || big_of_u256(U256::from(a[0] as u32)) != BigUint::from(a[0] as u32)
        || big_of_u256(U256::from(a[0] as u16)) != BigUint::from(a[0] as u16)
        || big_of_u256(U256::new(low128)) != BigUint::from(low128)
    {
        return Err(format!("From<primitive> wrong for words {a:?}"));
    }
    if U256::ZERO != U256::from(0u8) || U256::ONE != U256::from(1u8) || big_of_u256(U256::MAX) != &m - BigUint::one() || U256::MIN != U256::ZERO {
        return Err("constants wrong".into());
    }
    Ok(())
}

fn shim_values(quick: bool) -> Vec<[u64; 4]> {
    let words: Vec<u64> = if quick { vec![0, 1, 0x8000_0000_0000_0000, u64::MAX] } else { vec![0, 1, 0xFFFF_FFFF, 0x1_0000_0000, 0x8000_0000_0000_0000, u64::MAX] };
    let mut v = vec![];
    for &a in &words {
        for &b in &words {
            for &c in &words {
                for &d in &words {
                    v.push([a, b, c, d]);
                }
            }
        }
    }
    // the SDK's own constants and typical operands
    for x in [MIN_SQRT_PRICE, MAX_SQRT_PRICE, 79232123823359799118286999567u128, 38992368544603139932233054999993551u128, 1_000_000, 10_000] {
        v.push([x as u64, (x >> 64) as u64, 0, 0]);
        v.push([0, x as u64, (x >> 64) as u64, 0]);
    }
    v
}

/// Returns Err(description) on a shim defect (machinery problem).
fn shim_selfcheck(quick: bool, r: &mut Report) -> Result<(), String> {
    let vals = shim_values(quick);
    let bad: Mutex<Option<String>> = Mutex::new(None);
    let pairs = AtomicU64::new(0);
    vals.par_iter().for_each(|a| {
        if bad.lock().unwrap().is_some() {
            return;
        }
        if let Err(e) = shim_single(*a) {
            bad.lock().unwrap().get_or_insert(e);
            return;
        }
        for b in &vals {
            if let Err(e) = shim_pair(*a, *b) {
                bad.lock().unwrap().get_or_insert(e);
                return;
            }
            pairs.fetch_add(1, Ordering::Relaxed);
        }
    });
    r.set("shim_values", vals.len() as u64);
    r.set("shim_pairs_checked", get(&pairs));
    match bad.into_inner().unwrap() {
        Some(e) => Err(e),
        None => Ok(()),
    }
}

// ================================================================================================
// Part 2 — function level
// ================================================================================================
fn s128(v: &Value) -> Result<u128, String> {
    v.as_str().ok_or("expected string")?.parse::<u128>().map_err(|e| e.to_string())
}

// ---- conversions --------------------------------------------------------------------------------
fn chk_tick(t: i32, st: &FnStats) -> Result<(), String> {
    let p = sqrt_price_from_tick_index(t);
    let s: u128 = sdk::tick_index_to_sqrt_price(t);
    inc(&st.conv_forward);
    if p != s {
        return Err(cls("conv/forward-mismatch", format!("tick_index_to_sqrt_price({t}) = {s} but the program's sqrt_price_from_tick_index = {p}")));
    }
    for q in [p.wrapping_sub(1), p, p + 1] {
        if q < MIN_SQRT_PRICE || q > MAX_SQRT_PRICE {
            continue;
        }
        let a = tick_index_from_sqrt_price(&q);
        let b = sdk::sqrt_price_to_tick_index(q);
        inc(&st.conv_inverse);
        if a != b {
            return Err(cls("conv/inverse-mismatch", format!("sqrt_price_to_tick_index({q}) = {b} but the program's tick_index_from_sqrt_price = {a}")));
        }
    }
    Ok(())
}

fn conv_out_of_range(st: &FnStats) -> Vec<Value> {
    // Outside the accepted domain nothing is required; what each side does is recorded.
    let mut notes = vec![];
    for t in [MIN_TICK - 1, MAX_TICK + 1, MIN_TICK - 64, MAX_TICK + 64, -524287, 524287, -524288, 524288, -887272, 887272, i32::MIN + 1, i32::MAX] {
        let a = quiet(|| sqrt_price_from_tick_index(t));
        let b = quiet(|| -> u128 { sdk::tick_index_to_sqrt_price(t) });
        if a == b {
            inc(&st.conv_out_of_range_agree);
        } else {
            inc(&st.conv_out_of_range_differ);
            notes.push(json!({"fn":"tick_index_to_sqrt_price","tick":t,"program":format!("{a:?}"),"sdk":format!("{b:?}")}));
        }
    }
    for p in [0u128, 1, 2, MIN_SQRT_PRICE - 1, MAX_SQRT_PRICE + 1, 1u128 << 100, 1u128 << 127, u128::MAX] {
        let a = quiet(|| tick_index_from_sqrt_price(&p));
        let b = quiet(|| sdk::sqrt_price_to_tick_index(p));
        if a == b {
            inc(&st.conv_out_of_range_agree);
        } else {
            inc(&st.conv_out_of_range_differ);
            notes.push(json!({"fn":"sqrt_price_to_tick_index","sqrt_price":p.to_string(),"program":format!("{a:?}"),"sdk":format!("{b:?}")}));
        }
    }
    notes
}

// ---- alphabets ------------------------------------------------------------------------------------
fn price_alphabet(quick: bool) -> Vec<u128> {
    let mut v = vec![MIN_SQRT_PRICE, MIN_SQRT_PRICE + 1, MIN_SQRT_PRICE + 2, MAX_SQRT_PRICE - 2, MAX_SQRT_PRICE - 1, MAX_SQRT_PRICE, (1u128 << 64) - 1, 1u128 << 64, (1u128 << 64) + 1];
    let ticks: Vec<i32> = if quick {
        vec![MIN_TICK + 1, -300_000, -100_000, -5632, -64, -1, 1, 64, 5632, 100_000, 300_000, MAX_TICK - 1]
    } else {
        vec![MIN_TICK + 1, MIN_TICK + 64, -400_000, -300_000, -200_000, -100_000, -32768, -5632, -128, -64, -2, -1, 1, 2, 64, 128, 5632, 32768, 100_000, 200_000, 300_000, 400_000, MAX_TICK - 64, MAX_TICK - 1]
    };
    for t in ticks {
        let p = sqrt_price_from_tick_index(t);
        v.push(p);
        if !quick {
            v.push(p - 1);
            v.push(p + 1);
        }
    }
    v.sort();
    v.dedup();
    v
}
fn liq_alphabet(quick: bool) -> Vec<u128> {
    let mut v: Vec<u128> = vec![0, 1, 2, 1 << 32, (1 << 64) - 1, 1 << 64, (1 << 64) + 1, 1 << 96, 1 << 127, u128::MAX, 1_000_000_000, 10u128.pow(18), 1 << 112];
    if !quick {
        v.extend([3, 1000, 1 << 16, 1 << 48, 1 << 80, (1 << 96) - 1, (1 << 96) + 1, 1 << 120, (1 << 127) - 1, (1 << 127) + 1, u128::MAX - 1, 10u128.pow(27)]);
    }
    v.sort();
    v.dedup();
    v
}
fn amount_alphabet(quick: bool) -> Vec<u64> {
    let mut v: Vec<u64> = vec![0, 1, 2, (1 << 32) - 1, 1 << 32, (1 << 32) + 1, (1 << 63) - 1, 1 << 63, (1 << 63) + 1, u64::MAX - 1, u64::MAX, 1_000_000, 10u64.pow(12)];
    if !quick {
        v.extend([3, 1000, 1 << 16, 1 << 48, 10u64.pow(18), 20_000_000]);
    }
    v.sort();
    v.dedup();
    v
}

// ---- amount deltas ----------------------------------------------------------------------------------
fn chk_delta(is_a: bool, p0: u128, p1: u128, liq: u128, round_up: bool, st: &FnStats) -> Result<(), String> {
    inc(&st.evaluations);
    let name = if is_a { "try_get_amount_delta_a" } else { "try_get_amount_delta_b" };
    let a = prog(|| if is_a { get_amount_delta_a(p0, p1, liq, round_up) } else { get_amount_delta_b(p0, p1, liq, round_up) });
    let b = sdkr(|| if is_a { sdk::try_get_amount_delta_a(p0, p1, liq, round_up) } else { sdk::try_get_amount_delta_b(p0, p1, liq, round_up) });
    match (&a, &b) {
        (R::Ok(x), R::Ok(y)) if x == y => {
            inc(&st.delta_both_ok);
            if *x > 0 {
                inc(&st.distinct_nontrivial);
            }
            Ok(())
        }
        (R::Ok(x), _) => Err(cls("delta/program-ok-sdk-differs", format!("{name}({p0}, {p1}, liquidity {liq}, round_up {round_up}): program = {x}, SDK = {}", b.show()))),
        (R::Err(_), R::Ok(y)) | (R::Panic, R::Ok(y)) => Err(cls(
            &format!(
                "delta_{}/program-rejects-{}-sdk-ok{}",
                if is_a { "a" } else { "b" },
                a.kind(),
                if is_a && a.kind() == "MultiplicationOverflow" && exceeds_192(liq, p0.abs_diff(p1)) { format!("|{RC1}") } else { String::new() }
            ),
            format!("{name}({p0}, {p1}, liquidity {liq}, round_up {round_up}): the program rejects this input as overflowing ({}) but the SDK returns Ok({y})", a.show()),
        )),
        _ => {
            inc(&st.delta_prog_overflow);
            inc(&st.distinct_nontrivial);
            Ok(())
        }
    }
}

// ---- next sqrt price --------------------------------------------------------------------------------
fn chk_next(from_a: bool, p: u128, liq: u128, amount: u64, specified_input: bool, st: &FnStats) -> Result<(), String> {
    inc(&st.evaluations);
    let name = if from_a { "try_get_next_sqrt_price_from_a" } else { "try_get_next_sqrt_price_from_b" };
    let a = prog(|| if from_a { get_next_sqrt_price_from_a_round_up(p, liq, amount, specified_input) } else { get_next_sqrt_price_from_b_round_down(p, liq, amount, specified_input) });
    let b: R<u128> = sdkr(|| if from_a { sdk::try_get_next_sqrt_price_from_a(p, liq, amount, specified_input) } else { sdk::try_get_next_sqrt_price_from_b(p, liq, amount, specified_input) });
    let args = format!("{name}(price {p}, liquidity {liq}, amount {amount}, specified_input {specified_input})");
    match (&a, &b) {
        (R::Ok(x), R::Ok(y)) if x == y => {
            inc(&st.next_both_ok);
            if *x != p {
                inc(&st.distinct_nontrivial);
            }
            Ok(())
        }
        (R::Ok(x), R::Ok(y)) => Err(cls("next/value-mismatch", format!("{args}: program = {x}, SDK = {y}"))),
        (R::Ok(x), _) => {
            // the program's token-B function has no bounds check; the swap loop never calls it beyond its target.
            if *x < MIN_SQRT_PRICE || *x > MAX_SQRT_PRICE {
                inc(&st.next_sdk_stricter);
                Ok(())
            } else {
                Err(cls("next/program-ok-sdk-fails", format!("{args}: program = {x} (within price bounds), SDK = {}", b.show())))
            }
        }
        (R::Err(e), R::Ok(y)) => {
            if e.contains("DivideByZero") {
                // not an overflow rejection: exact-out request of at least the whole virtual reserve; outside the property's clause
                inc(&st.next_prog_div_by_zero_sdk_ok);
                Ok(())
            } else {
                Err(cls(
                    &format!(
                        "next_{}/program-rejects-{}-sdk-ok{}",
                        if from_a { "a" } else { "b" },
                        a.kind(),
                        if from_a && a.kind() == "MultiplicationOverflow" && exceeds_192(liq, p) { format!("|{RC1}") } else { String::new() }
                    ),
                    format!("{args}: the program rejects this input ({e}) but the SDK returns Ok({y})")))
            }
        }
        (R::Panic, R::Ok(_)) => {
            // a panic of the program's 256-bit division: seen in swap context by the segment differential below
            inc(&st.next_prog_panic_sdk_ok);
            Ok(())
        }
        _ => {
            inc(&st.next_prog_err);
            Ok(())
        }
    }
}

// ---- swap fee helpers --------------------------------------------------------------------------------
fn chk_fee(x: u64, f: u32, st: &FnStats) -> Result<(), String> {
    inc(&st.evaluations);
    // apply: amount net of fee (exact-in pre-step), program: checked_mul_div(x, 1e6 - f, 1e6)
    let a = prog(|| checked_mul_div(x as u128, 1_000_000 - f as u128, 1_000_000));
    let b = sdkr(|| sdk::try_apply_swap_fee(x, f));
    match (&a, &b) {
        (R::Ok(p), R::Ok(s)) if *p == *s as u128 => {}
        (R::Ok(p), _) => return Err(cls("fee/apply-mismatch", format!("try_apply_swap_fee({x}, {f}): program's net amount = {p}, SDK = {}", b.show()))),
        (_, R::Ok(s)) => return Err(cls("fee/apply-program-rejects-sdk-ok", format!("try_apply_swap_fee({x}, {f}): program rejects ({}) but SDK = {s}", a.show()))),
        _ => {}
    }
    // reverse: fee on top of a curve input, program: checked_mul_div_round_up(x, f, 1e6 - f)
    let a = prog(|| checked_mul_div_round_up(x as u128, f as u128, 1_000_000 - f as u128));
    let b = sdkr(|| sdk::try_reverse_apply_swap_fee(x, f));
    match (&a, &b) {
        (R::Ok(fee), R::Ok(pre)) => {
            if (*pre as u128) != x as u128 + *fee {
                return Err(cls("fee/reverse-mismatch", format!("try_reverse_apply_swap_fee({x}, {f}) = {pre}: implies fee {} but the program charges {fee}", *pre as i128 - x as i128)));
            }
            inc(&st.fee_both_ok);
            if *fee > 0 {
                inc(&st.distinct_nontrivial);
            }
        }
        (R::Ok(fee), _) => {
            if x as u128 + *fee > u64::MAX as u128 {
                inc(&st.fee_sdk_stricter); // amount + fee does not fit u64: the program's loop fails one line later
            } else {
                return Err(cls("fee/reverse-program-ok-sdk-fails", format!("try_reverse_apply_swap_fee({x}, {f}): program fee = {fee} but SDK = {}", b.show())));
            }
        }
        (_, R::Ok(pre)) => return Err(cls("fee/reverse-program-rejects-sdk-ok", format!("try_reverse_apply_swap_fee({x}, {f}): program rejects ({}) but SDK = {pre}", a.show()))),
        _ => {}
    }
    Ok(())
}

// ---- transfer fee helpers -----------------------------------------------------------------------------
fn t22_mint_image(bps: u16, max: u64) -> Vec<u8> {
    let mut l = world::base_ledger();
    let k = key(&format!("c20/tfmint/{bps}/{max}"));
    world::create_t22_mint(&mut l, k, 6, None, &[T22Ext::TransferFee { bps, max }]);
    l.data(&k).to_vec()
}
/// two fee configurations used by the liquidity-quote comparison: (bps, max, mint image)
fn fee_images() -> &'static [(u16, u64, Vec<u8>); 2] {
    static IMG: std::sync::OnceLock<[(u16, u64, Vec<u8>); 2]> = std::sync::OnceLock::new();
    IMG.get_or_init(|| [(300, 5_000, t22_mint_image(300, 5_000)), (1000, u64::MAX, t22_mint_image(1000, u64::MAX))])
}
/// the program's transfer-fee-included (what must be sent so that `amount` arrives) / -excluded (what arrives of `amount`) amount
fn prog_fee_amount(image: &[u8], amount: u64, included: bool) -> R<u64> {
    svm::set_clock(1_700_000_000, 0);
    let k = key("c20/tfmint");
    let mut lamports = 1u64;
    let mut d = image.to_vec();
    let owner = world::T22;
    let info = AccountInfo::new(&k, false, false, &mut lamports, &mut d, &owner, false, 0);
    let mint = match InterfaceAccount::<Mint>::try_from(&info) {
        Ok(m) => m,
        Err(e) => return R::Err(format!("machinery: {e:?}")),
    };
    if included {
        prog_anchor(|| calculate_transfer_fee_included_amount(&mint, amount).map(|x| x.amount))
    } else {
        prog_anchor(|| calculate_transfer_fee_excluded_amount(&mint, amount).map(|x| x.amount))
    }
}
fn chk_transfer_fee(image: &[u8], bps: u16, max: u64, amount: u64, st: &FnStats) -> Result<(), String> {
    svm::set_clock(1_700_000_000, 0);
    let k = key("c20/tfmint");
    let mut lamports = 1u64;
    let mut d = image.to_vec();
    let owner = world::T22;
    let info = AccountInfo::new(&k, false, false, &mut lamports, &mut d, &owner, false, 0);
    let mint = InterfaceAccount::<Mint>::try_from(&info).map_err(|e| format!("machinery: InterfaceAccount<Mint>::try_from failed: {e:?}"))?;
    let tf = sdk::TransferFee::new_with_max(bps, max);
    inc(&st.evaluations);
    let a = prog_anchor(|| calculate_transfer_fee_excluded_amount(&mint, amount).map(|x| x.amount));
    let b = sdkr(|| sdk::try_apply_transfer_fee(amount, tf));
    match (&a, &b) {
        (R::Ok(x), R::Ok(y)) if x == y => {
            inc(&st.tf_both_ok);
            if x != &amount {
                inc(&st.distinct_nontrivial);
            }
        }
        (R::Ok(x), _) => return Err(cls("tf/apply-mismatch", format!("try_apply_transfer_fee({amount}, {bps} bps max {max}): program = {x}, SDK = {}", b.show()))),
        (_, R::Ok(y)) => return Err(cls("tf/apply-program-rejects-sdk-ok", format!("try_apply_transfer_fee({amount}, {bps} bps max {max}): program rejects ({}) but SDK = {y}", a.show()))),
        _ => inc(&st.tf_prog_err),
    }
    inc(&st.evaluations);
    let a = prog_anchor(|| calculate_transfer_fee_included_amount(&mint, amount).map(|x| x.amount));
    let b = sdkr(|| sdk::try_reverse_apply_transfer_fee(amount, tf));
    match (&a, &b) {
        (R::Ok(x), R::Ok(y)) if x == y => {
            inc(&st.tf_both_ok);
            if x != &amount {
                inc(&st.distinct_nontrivial);
            }
        }
        (R::Ok(x), _) => return Err(cls("tf/reverse-mismatch", format!("try_reverse_apply_transfer_fee({amount}, {bps} bps max {max}): program = {x}, SDK = {}", b.show()))),
        (_, R::Ok(y)) => return Err(cls("tf/reverse-program-rejects-sdk-ok", format!("try_reverse_apply_transfer_fee({amount}, {bps} bps max {max}): program rejects ({}) but SDK = {y}", a.show()))),
        _ => inc(&st.tf_prog_err),
    }
    Ok(())
}

// ---- whole swap on one constant-liquidity segment ---------------------------------------------------
/// The program's swap loop on a segment without initialized ticks: its real step function + the loop's own bookkeeping.
fn program_segment_swap(amount: u64, fee_rate: u32, liq: u128, p: u128, target: u128, exact_in: bool, a_to_b: bool) -> R<(u64, u64, u64, u32)> {
    if amount == 0 {
        return R::Err("ZeroTradableAmount".into());
    }
    let (mut rem, mut calc, mut fee_sum, mut price, mut steps) = (amount, 0u64, 0u64, p, 0u32);
    while rem > 0 && price != target {
        steps += 1;
        if steps > 64 {
            return R::Err("no progress".into());
        }
        let s = match prog(|| whirlpool::math::compute_swap(rem, fee_rate, liq, price, target, exact_in, a_to_b)) {
            R::Ok(s) => s,
            R::Err(e) => return R::Err(e),
            R::Panic => return R::Panic,
        };
        if exact_in {
            rem = match rem.checked_sub(s.amount_in).and_then(|x| x.checked_sub(s.fee_amount)) {
                Some(x) => x,
                None => return R::Err("AmountRemainingOverflow".into()),
            };
            calc = match calc.checked_add(s.amount_out) {
                Some(x) => x,
                None => return R::Err("AmountCalcOverflow".into()),
            };
        } else {
            rem = match rem.checked_sub(s.amount_out) {
                Some(x) => x,
                None => return R::Err("AmountRemainingOverflow".into()),
            };
            calc = match calc.checked_add(s.amount_in).and_then(|x| x.checked_add(s.fee_amount)) {
                Some(x) => x,
                None => return R::Err("AmountCalcOverflow".into()),
            };
        }
        fee_sum = match fee_sum.checked_add(s.fee_amount) {
            Some(x) => x,
            None => return R::Err("AmountCalcOverflow".into()),
        };
        if s.next_price == price && rem > 0 && s.amount_in == 0 && s.amount_out == 0 && s.fee_amount == 0 {
            return R::Err("no progress".into());
        }
        price = s.next_price;
    }
    let used = amount - rem;
    if exact_in {
        R::Ok((used, calc, fee_sum, steps))
    } else {
        R::Ok((calc, used, fee_sum, steps))
    }
}

fn full_range_sequence() -> ([sdk::TickArrayFacade; 2], u16) {
    let ts: u16 = 32768;
    let n = 88 * ts as i32;
    ([cw::uninitialized_tick_array(-n), cw::uninitialized_tick_array(0)], ts)
}

fn chk_segment(p: u128, target: u128, liq: u128, amount: u64, fee_rate: u16, exact_in: bool, st: &FnStats) -> Result<(), String> {
    if p == target {
        return Ok(());
    }
    inc(&st.evaluations);
    let a_to_b = target < p;
    let a = program_segment_swap(amount, fee_rate as u32, liq, p, target, exact_in, a_to_b);
    let (arrays, ts) = full_range_sequence();
    let pool = sdk::WhirlpoolFacade {
        fee_tier_index_seed: ts.to_le_bytes(),
        tick_spacing: ts,
        fee_rate,
        liquidity: liq,
        sqrt_price: p,
        tick_current_index: tick_index_from_sqrt_price(&p),
        ..Default::default()
    };
    let b = sdkr(|| {
        let seq = sdk::TickArraySequence::<2>::new([Some(arrays[0]), Some(arrays[1])], ts)?;
        let r = sdk::compute_swap(amount, target, pool, seq, a_to_b, exact_in, 0, None)?;
        let (i, o) = if a_to_b { (r.token_a, r.token_b) } else { (r.token_b, r.token_a) };
        Ok((i, o, r.trade_fee))
    });
    let args = format!(
        "swap on one segment: price {p} -> limit {target} ({}), liquidity {liq}, amount {amount} {}, fee rate {fee_rate}",
        if a_to_b { "a->b" } else { "b->a" },
        if exact_in { "exact-in" } else { "exact-out" }
    );
    match (&a, &b) {
        (R::Ok((i, o, f, steps)), R::Ok((si, so, sf))) => {
            if (i, o, f) != (si, so, sf) {
                return Err(cls("segment/value-mismatch", format!("{args}: program in/out/fee = {i}/{o}/{f}, SDK compute_swap = {si}/{so}/{sf}")));
            }
            let k = (if a_to_b { 0 } else { 2 }) + (if exact_in { 0 } else { 1 });
            inc(&st.step_both_ok[k]);
            if *steps >= 2 {
                inc(&st.step_multi);
            }
            if *i > 0 || *o > 0 {
                inc(&st.distinct_nontrivial);
            }
            Ok(())
        }
        (R::Ok((i, o, f, _)), _) => Err(cls("segment/program-ok-sdk-fails", format!("{args}: program succeeds with in/out/fee = {i}/{o}/{f} but SDK compute_swap = {}", b.show()))),
        (R::Err(e), R::Ok((si, so, sf))) if e == "no progress" => {
            let _ = (si, so, sf);
            Ok(()) // harness loop guard, never expected
        }
        (_, R::Ok((si, so, sf))) => Err(cls(
            &format!(
                "segment/program-rejects-{}-sdk-ok{}",
                a.kind(),
                if a.kind() == "MultiplicationOverflow" && (exceeds_192(liq, p.abs_diff(target)) || exceeds_192(liq, p)) { format!("|{RC1}") } else { String::new() }
            ),
            format!("{args}: the program rejects the swap ({}) but SDK compute_swap returns in/out/fee = {si}/{so}/{sf}", a.show()),
        )),
        _ => {
            inc(&st.step_prog_err);
            inc(&st.distinct_nontrivial);
            Ok(())
        }
    }
}

// ---- liquidity quotes -----------------------------------------------------------------------------------
fn chk_liq(lower: i32, upper: i32, price: u128, tick: i32, liq: u128, increase: bool, st: &FnStats) -> Result<(), String> {
    inc(&st.evaluations);
    let pos = Position { tick_lower_index: lower, tick_upper_index: upper, ..Default::default() };
    let delta: i128 = if increase { liq as i128 } else { -(liq as i128) };
    let a = prog_anchor(|| calculate_liquidity_token_deltas(tick, price, &pos, delta));
    let args = format!(
        "{}_liquidity_quote(liquidity {liq}, sqrt_price {price} [tick_current {tick}], range {lower}..{upper})",
        if increase { "increase" } else { "decrease" }
    );
    let mut first: Option<(u64, u64)> = None;
    for sl in cw::SLIPPAGES {
        let b: R<(u64, u64, u64, u64, u128)> = if increase {
            sdkr(|| sdk::increase_liquidity_quote(liq, sl, price, lower, upper, None, None).map(|q| (q.token_est_a, q.token_est_b, q.token_max_a, q.token_max_b, q.liquidity_delta)))
        } else {
            sdkr(|| sdk::decrease_liquidity_quote(liq, sl, price, lower, upper, None, None).map(|q| (q.token_est_a, q.token_est_b, q.token_min_a, q.token_min_b, q.liquidity_delta)))
        };
        match (&a, &b) {
            (R::Ok((pa, pb)), R::Ok((ea, eb, ba, bb, l))) => {
                if (pa, pb) != (ea, eb) {
                    return Err(cls("liq/value-mismatch", format!("{args}: program deltas = ({pa}, {pb}) but SDK estimates = ({ea}, {eb})")));
                }
                if *l != liq {
                    return Err(cls("liq/liquidity-delta", format!("{args}: quote reports liquidity_delta {l}")));
                }
                let safe = if increase { ba >= ea && bb >= eb } else { ba <= ea && bb <= eb };
                if !safe {
                    return Err(cls("liq/slippage-unsafe", format!("{args}: slippage {sl} bps: bounds ({ba}, {bb}) on the unsafe side of the estimates ({ea}, {eb})")));
                }
                inc(&st.liq_slippage);
                first.get_or_insert((*ea, *eb));
            }
            (R::Ok((pa, pb)), _) => {
                // the slippage multiplication may exceed u64 on the increase side; the estimate itself must not fail
                if sl == 0 || !increase {
                    return Err(cls("liq/program-ok-sdk-fails", format!("{args}: program deltas = ({pa}, {pb}) but SDK (slippage {sl}) = {}", b.show())));
                }
                let over = |x: u64| (x as u128) * (10_000 + sl as u128) / 10_000 + 1 > u64::MAX as u128;
                if !(over(*pa) || over(*pb)) {
                    return Err(cls("liq/program-ok-sdk-fails", format!("{args}: program deltas = ({pa}, {pb}) but SDK (slippage {sl}) = {}", b.show())));
                }
            }
            (_, R::Ok((ea, eb, _, _, _))) => {
                let (pl, pu) = (sqrt_price_from_tick_index(lower), sqrt_price_from_tick_index(upper));
                let a_span = if tick < lower { pu - pl } else if tick < upper { pu.saturating_sub(price) } else { 0 };
                let rc = if a.kind() == "code-6033" && exceeds_192(liq, a_span) { format!("|{RC1}") } else { String::new() };
                return Err(cls(&format!("liq/program-rejects-{}-sdk-ok{rc}", a.kind()), format!("{args}: the program rejects this input as overflowing ({}) but the SDK returns estimates ({ea}, {eb})", a.show())));
            }
            _ => {}
        }
    }
    // the same quote over mints with a transfer fee on A only, on B only, on both: what the user is debited (increase: the smallest
    // amount whose fee-reduced value is the delta) / credited (decrease: the delta less the fee), by the program's own functions
    if let R::Ok((pa, pb)) = &a {
        let imgs = fee_images();
        for (fa, fb) in [(Some(0usize), None), (None, Some(1usize)), (Some(0), Some(1))] {
            let exp = |x: u64, f: Option<usize>| -> R<u64> {
                match f {
                    None => R::Ok(x),
                    Some(i) => prog_fee_amount(&imgs[i].2, x, increase),
                }
            };
            let tf = |f: Option<usize>| f.map(|i| sdk::TransferFee::new_with_max(imgs[i].0, imgs[i].1));
            let q: R<(u64, u64)> = if increase {
                sdkr(|| sdk::increase_liquidity_quote(liq, 0, price, lower, upper, tf(fa), tf(fb)).map(|q| (q.token_est_a, q.token_est_b)))
            } else {
                sdkr(|| sdk::decrease_liquidity_quote(liq, 0, price, lower, upper, tf(fa), tf(fb)).map(|q| (q.token_est_a, q.token_est_b)))
            };
            let fees = format!("transfer fee A {:?} / B {:?} (bps, max)", fa.map(|i| (imgs[i].0, imgs[i].1)), fb.map(|i| (imgs[i].0, imgs[i].1)));
            match (exp(*pa, fa), exp(*pb, fb), &q) {
                (R::Ok(x), R::Ok(y), R::Ok((sa, sb))) => {
                    if (x, y) != (*sa, *sb) {
                        return Err(cls("liq/transfer-fee-mismatch", format!("{args} with {fees}: the program moves ({x}, {y}) on the user's accounts but the SDK estimates ({sa}, {sb})")));
                    }
                    inc(&st.liq_fee_ok);
                }
                (R::Ok(x), R::Ok(y), _) => return Err(cls("liq/transfer-fee-program-ok-sdk-fails", format!("{args} with {fees}: the program moves ({x}, {y}) but the SDK = {}", q.show()))),
                _ => {}
            }
        }
    }
    if a.is_ok() {
        inc(&st.liq_both_ok[if increase { 0 } else { 1 }]);
        if first.map(|x| x.0 > 0 || x.1 > 0).unwrap_or(false) {
            inc(&st.distinct_nontrivial);
        }
    } else {
        inc(&st.liq_prog_overflow);
        inc(&st.distinct_nontrivial);
    }
    Ok(())
}

fn chk_est(lower: i32, upper: i32, price: u128, max_a: u64, max_b: u64, st: &FnStats) -> Result<(), String> {
    inc(&st.evaluations);
    let a = prog(|| estimate_max_liquidity_from_token_amounts(price, lower, upper, max_a, max_b));
    let qa = sdkr(|| sdk::increase_liquidity_quote_a(max_a, 0, price, lower, upper, None, None).map(|q| q.liquidity_delta));
    let qb = sdkr(|| sdk::increase_liquidity_quote_b(max_b, 0, price, lower, upper, None, None).map(|q| q.liquidity_delta));
    let (pl, pu) = (sqrt_price_from_tick_index(lower), sqrt_price_from_tick_index(upper));
    let args = format!("liquidity from token maxima (a {max_a}, b {max_b}) at sqrt_price {price}, range {lower}..{upper}");
    let expect: Option<u128> = if price >= pu {
        match &qb {
            R::Ok(l) => Some(*l),
            _ => None,
        }
    } else if price <= pl {
        match &qa {
            R::Ok(l) => Some(*l),
            _ => None,
        }
    } else {
        match (&qa, &qb) {
            (R::Ok(x), R::Ok(y)) => Some(*x.min(y)),
            _ => None,
        }
    };
    // the quotes by ONE token amount over a mint with a (capped) transfer fee, at several slippage tolerances: the estimate is what
    // the program debits for the quoted liquidity (its own fee-included amount), never more than the amount offered, the same
    // whatever the tolerance, and never above the quote's maximum
    let imgs = fee_images();
    let tick = natural_tick(price);
    for is_a in [true, false] {
        let x = if is_a { max_a } else { max_b };
        let tf = Some(sdk::TransferFee::new_with_max(imgs[0].0, imgs[0].1));
        let mut est0: Option<u64> = None;
        for sl in [0u16, 100, 1000] {
            let q = sdkr(|| {
                if is_a { sdk::increase_liquidity_quote_a(x, sl, price, lower, upper, tf, None) } else { sdk::increase_liquidity_quote_b(x, sl, price, lower, upper, None, tf) }
                    .map(|q| (q.liquidity_delta, if is_a { q.token_est_a } else { q.token_est_b }, if is_a { q.token_max_a } else { q.token_max_b }))
            });
            let R::Ok((l, est, max)) = q else { continue };
            if l == 0 || l > i128::MAX as u128 {
                continue;
            }
            let pos = Position { tick_lower_index: lower, tick_upper_index: upper, ..Default::default() };
            let R::Ok((pa, pb)) = prog_anchor(|| calculate_liquidity_token_deltas(tick, price, &pos, l as i128)) else { continue };
            let R::Ok(want) = prog_fee_amount(&imgs[0].2, if is_a { pa } else { pb }, true) else { continue };
            let what = format!("increase_liquidity_quote_{}({x}, slippage {sl} bps, sqrt_price {price}, range {lower}..{upper}, transfer fee {} bps max {})", if is_a { "a" } else { "b" }, imgs[0].0, imgs[0].1);
            if est != want {
                return Err(cls("est/transfer-fee-estimate", format!("{what}: liquidity {l}: the program debits {want} but the quote's estimate is {est}")));
            }
            if est > x {
                return Err(cls("est/transfer-fee-estimate-above-offer", format!("{what}: estimate {est} exceeds the amount offered")));
            }
            if max < est {
                return Err(cls("est/transfer-fee-max-below-estimate", format!("{what}: maximum {max} below the estimate {est}")));
            }
            if *est0.get_or_insert(est) != est {
                return Err(cls("est/transfer-fee-estimate-depends-on-slippage", format!("{what}: estimate {est}, with tolerance 0 it is {}", est0.unwrap())));
            }
            inc(&st.est_fee_ok);
        }
    }
    match (&a, expect) {
        (R::Ok(p), Some(s)) => {
            if *p != s {
                return Err(cls("est/value-mismatch", format!("{args}: program estimate = {p} but increase_liquidity_quote_a/b give {s} (a: {}, b: {})", qa.show(), qb.show())));
            }
            inc(&st.est_both_ok);
            if s > 0 {
                inc(&st.distinct_nontrivial);
            }
            Ok(())
        }
        (R::Ok(_), None) => {
            // quote_a/b additionally price the other token for the derived liquidity and may overflow u64 there
            inc(&st.est_sdk_stricter);
            Ok(())
        }
        (_, Some(s)) => Err(cls(&format!("est/program-rejects-{}-sdk-ok", a.kind()), format!("{args}: the program rejects this input ({}) but the SDK derives liquidity {s}", a.show()))),
        _ => Ok(()),
    }
}

fn natural_tick(price: u128) -> i32 {
    tick_index_from_sqrt_price(&price)
}

fn liq_tick_alphabet(ts: i32, quick: bool) -> Vec<i32> {
    let lo = MIN_TICK / ts * ts;
    let hi = MAX_TICK / ts * ts;
    let mut ks = vec![0, 1, 2, 88, 89];
    if !quick {
        ks.extend([3, 44, 87, 176, 1000, 3000]);
    }
    let mut v = vec![lo, lo + ts, hi - ts, hi];
    for k in ks {
        let x = (k as i64 * ts as i64).min(i32::MAX as i64) as i32;
        v.push(x);
        v.push(-x);
    }
    v.retain(|t| *t >= MIN_TICK && *t <= MAX_TICK && *t % ts == 0);
    v.sort();
    v.dedup();
    v
}

fn run_part2(ctx: &Ctx, r: &mut Report, st: &FnStats) {
    let quick = ctx.tier.is_quick();
    let fails = Fails::default();

    // conversions: the complete tick domain
    (MIN_TICK..=MAX_TICK).into_par_iter().for_each(|t| {
        if let Err(e) = chk_tick(t, st) {
            fails.push(format!("fn/tick/{t}"), e, json!({"kind":"fn","f":"tick","t":t}), true);
        }
    });
    st.evaluations.fetch_add(get(&st.conv_forward) + get(&st.conv_inverse), Ordering::Relaxed);
    st.distinct_nontrivial.fetch_add(get(&st.conv_forward) + get(&st.conv_inverse), Ordering::Relaxed);
    let notes = conv_out_of_range(st);
    r.set("conversions_outside_domain", json!(notes));

    let prices = price_alphabet(quick);
    let liqs = liq_alphabet(quick);
    let amounts = amount_alphabet(quick);
    // membership in the quick alphabets (thorough alphabets are supersets): representatives of root-cause groups are chosen there
    let pq: std::collections::BTreeSet<u128> = price_alphabet(true).into_iter().collect();
    let lq: std::collections::BTreeSet<u128> = liq_alphabet(true).into_iter().collect();
    let aq: std::collections::BTreeSet<u64> = amount_alphabet(true).into_iter().collect();

    // amount deltas
    let pairs: Vec<(u128, u128)> = prices.iter().flat_map(|a| prices.iter().map(move |b| (*a, *b))).collect();
    pairs.par_iter().for_each(|(p0, p1)| {
        for &l in &liqs {
            for round_up in [false, true] {
                for is_a in [true, false] {
                    if let Err(e) = chk_delta(is_a, *p0, *p1, l, round_up, st) {
                        fails.push(
                            format!("fn/delta_{}/{p0}/{p1}/{l}/{round_up}", if is_a { "a" } else { "b" }),
                            e,
                            json!({"kind":"fn","f":"delta","is_a":is_a,"p0":p0.to_string(),"p1":p1.to_string(),"liq":l.to_string(),"round_up":round_up}),
                            pq.contains(p0) && pq.contains(p1) && lq.contains(&l),
                        );
                    }
                }
            }
        }
    });

    // next sqrt price
    prices.par_iter().for_each(|p| {
        for &l in &liqs {
            for &x in &amounts {
                for si in [false, true] {
                    for from_a in [true, false] {
                        if let Err(e) = chk_next(from_a, *p, l, x, si, st) {
                            fails.push(
                                format!("fn/next_{}/{p}/{l}/{x}/{si}", if from_a { "a" } else { "b" }),
                                e,
                                json!({"kind":"fn","f":"next","from_a":from_a,"p":p.to_string(),"liq":l.to_string(),"amount":x,"specified_input":si}),
                                pq.contains(p) && lq.contains(&l) && aq.contains(&x),
                            );
                        }
                    }
                }
            }
        }
    });

    // swap fee helpers
    let fee_rates: Vec<u32> = vec![0, 1, 100, 3000, 10_000, 60_000, 65_535, 99_999, 100_000];
    for &x in &amounts {
        for &f in &fee_rates {
            if let Err(e) = chk_fee(x, f, st) {
                fails.push(format!("fn/fee/{x}/{f}"), e, json!({"kind":"fn","f":"fee","x":x,"rate":f}), x < 2_000 || aq.contains(&x));
            }
        }
    }
    // dense small amounts: every rounding residue
    (0u64..ctx.pick(2_000, 20_000)).into_par_iter().for_each(|x| {
        for &f in &[1u32, 100, 3000, 60_000, 100_000] {
            if let Err(e) = chk_fee(x, f, st) {
                fails.push(format!("fn/fee/{x}/{f}"), e, json!({"kind":"fn","f":"fee","x":x,"rate":f}), x < 2_000 || aq.contains(&x));
            }
        }
    });

    // transfer fee helpers
    let bpss: Vec<u16> = if quick { vec![0, 1, 100, 9999, 10_000] } else { vec![0, 1, 2, 50, 100, 250, 5000, 9999, 10_000] };
    let maxes: Vec<u64> = if quick { vec![0, 1, 5000, u64::MAX] } else { vec![0, 1, 2, 1000, 5000, 1_000_000_000, u64::MAX - 1, u64::MAX] };
    let combos: Vec<(u16, u64)> = bpss.iter().flat_map(|b| maxes.iter().map(move |m| (*b, *m))).collect();
    combos.par_iter().for_each(|(bps, max)| {
        let img = t22_mint_image(*bps, *max);
        let mut xs: Vec<u64> = amounts.clone();
        xs.extend(0..ctx.pick(300u64, 3000u64));
        xs.extend([9_900, 9_901, 10_000, 10_001, 499_999, 500_000, 500_001]);
        for x in xs {
            if let Err(e) = chk_transfer_fee(&img, *bps, *max, x, st) {
                fails.push(format!("fn/tf/{bps}/{max}/{x}"), e, json!({"kind":"fn","f":"tf","bps":bps,"max":max,"x":x}), [0u16, 1, 100, 9999, 10_000].contains(bps) && [0u64, 1, 5000, u64::MAX].contains(max) && (x < 300 || x >= 9_900));
            }
        }
    });

    // whole swaps on one segment
    let seg_fees: Vec<u16> = if quick { vec![0, 3000, 60_000] } else { vec![0, 1, 3000, 60_000, 65_535] };
    let seg_prices: Vec<u128> = if quick { prices.clone() } else { price_alphabet(true).into_iter().chain([sqrt_price_from_tick_index(-2), sqrt_price_from_tick_index(2), sqrt_price_from_tick_index(443_000), sqrt_price_from_tick_index(-443_000)]).collect() };
    let seg_pairs: Vec<(u128, u128)> = seg_prices.iter().flat_map(|a| seg_prices.iter().map(move |b| (*a, *b))).filter(|(a, b)| a != b).collect();
    let cut = std::sync::atomic::AtomicBool::new(false);
    seg_pairs.par_iter().for_each(|(p, t)| {
        if ctx.left() < 5.0 {
            cut.store(true, Ordering::Relaxed);
            return;
        }
        for &l in &liqs {
            for &x in &amounts {
                for &f in &seg_fees {
                    for exact_in in [true, false] {
                        if let Err(e) = chk_segment(*p, *t, l, x, f, exact_in, st) {
                            fails.push(
                                format!("fn/segment/{p}/{t}/{l}/{x}/{f}/{exact_in}"),
                                e,
                                json!({"kind":"fn","f":"segment","p":p.to_string(),"target":t.to_string(),"liq":l.to_string(),"amount":x,"rate":f,"exact_in":exact_in}),
                                pq.contains(p) && pq.contains(t) && lq.contains(&l) && aq.contains(&x) && [0u16, 3000, 60_000].contains(&f),
                            );
                        }
                    }
                }
            }
        }
    });

    if cut.load(Ordering::Relaxed) {
        r.set("segment_enumeration_cut_short_by_wall_budget", true);
    }
    // liquidity quotes
    let mut ranges: Vec<(i32, i32)> = vec![];
    for ts in [1i32, 64, 32768] {
        let a = liq_tick_alphabet(ts, quick);
        for (i, &lo) in a.iter().enumerate() {
            for &hi in &a[i + 1..] {
                ranges.push((lo, hi));
            }
        }
    }
    ranges.sort();
    ranges.dedup();
    let mut rq: std::collections::BTreeSet<(i32, i32)> = Default::default();
    for ts in [1i32, 64, 32768] {
        let a = liq_tick_alphabet(ts, true);
        for (i, &lo) in a.iter().enumerate() {
            for &hi in &a[i + 1..] {
                rq.insert((lo, hi));
            }
        }
    }
    r.set("liquidity_ranges", ranges.len() as u64);
    let lq: Vec<u128> = liq_alphabet(quick).into_iter().filter(|l| *l >= 1 && *l <= i128::MAX as u128).collect();
    // (160 000 .. 166 667: around the amount at which the 300 bps fee of the quote-by-amount comparison reaches its cap of 5 000)
    let maxes64: Vec<u64> = vec![0, 1, 2, 1000, 160_000, 166_000, 166_666, 166_667, 1_000_000_000, 1 << 32, 1 << 63, u64::MAX];
    ranges.par_iter().for_each(|(lo, hi)| {
        let (pl, pu) = (sqrt_price_from_tick_index(*lo), sqrt_price_from_tick_index(*hi));
        let mid = sqrt_price_from_tick_index(lo + (hi - lo) / 2);
        let mut ps = vec![pl.wrapping_sub(1), pl, pl + 1, mid, mid + 1, pu - 1, pu, pu + 1, MIN_SQRT_PRICE, MAX_SQRT_PRICE, 1u128 << 64];
        ps.retain(|p| *p >= MIN_SQRT_PRICE && *p <= MAX_SQRT_PRICE);
        ps.sort();
        ps.dedup();
        for p in ps {
            let nat = natural_tick(p);
            let mut ticks = vec![nat];
            if sqrt_price_from_tick_index(nat) == p && nat > MIN_TICK {
                ticks.push(nat - 1); // shifted state after a downward crossing
            }
            for (ti, t) in ticks.iter().enumerate() {
                for &l in &lq {
                    for increase in [true, false] {
                        if ti == 1 {
                            inc(&st.liq_shifted);
                        }
                        if let Err(e) = chk_liq(*lo, *hi, p, *t, l, increase, st) {
                            fails.push(
                                format!("fn/liq/{lo}/{hi}/{p}/{t}/{l}/{increase}"),
                                e,
                                json!({"kind":"fn","f":"liq","lower":lo,"upper":hi,"price":p.to_string(),"tick":t,"liq":l.to_string(),"increase":increase}),
                                rq.contains(&(*lo, *hi)) && lq.contains(&l),
                            );
                        }
                    }
                }
            }
            for &ma in &maxes64 {
                for &mb in &maxes64 {
                    if let Err(e) = chk_est(*lo, *hi, p, ma, mb, st) {
                        fails.push(
                            format!("fn/est/{lo}/{hi}/{p}/{ma}/{mb}"),
                            e,
                            json!({"kind":"fn","f":"est","lower":lo,"upper":hi,"price":p.to_string(),"max_a":ma,"max_b":mb}),
                            rq.contains(&(*lo, *hi)),
                        );
                    }
                }
            }
        }
    });

    r.sample(json!({"fn":"tick_index_to_sqrt_price / sqrt_price_to_tick_index","domain":"all ticks -443636..=443636 and p(t)-1, p(t), p(t)+1"}));
    r.sample(json!({"fn":"try_get_amount_delta_a","p0":prices[0].to_string(),"p1":prices[prices.len()-1].to_string(),"liquidity":liqs[liqs.len()-1].to_string(),"round_up":true}));
    r.sample(json!({"fn":"compute_swap (one segment)","price":(1u128<<64).to_string(),"limit":MIN_SQRT_PRICE.to_string(),"liquidity":"18446744073709551616","amount":1000000,"fee_rate":3000,"exact_in":true}));
    fails.drain_into(r);
}

fn replay_fn(case: &Value) -> Result<(), String> {
    let st = FnStats::default();
    let f = case["f"].as_str().ok_or("f")?;
    match f {
        "tick" => chk_tick(case["t"].as_i64().ok_or("t")? as i32, &st),
        "delta" => chk_delta(case["is_a"].as_bool().ok_or("is_a")?, s128(&case["p0"])?, s128(&case["p1"])?, s128(&case["liq"])?, case["round_up"].as_bool().ok_or("round_up")?, &st),
        "next" => chk_next(case["from_a"].as_bool().ok_or("from_a")?, s128(&case["p"])?, s128(&case["liq"])?, case["amount"].as_u64().ok_or("amount")?, case["specified_input"].as_bool().ok_or("si")?, &st),
        "fee" => chk_fee(case["x"].as_u64().ok_or("x")?, case["rate"].as_u64().ok_or("rate")? as u32, &st),
        "tf" => {
            let (bps, max) = (case["bps"].as_u64().ok_or("bps")? as u16, case["max"].as_u64().ok_or("max")?);
            chk_transfer_fee(&t22_mint_image(bps, max), bps, max, case["x"].as_u64().ok_or("x")?, &st)
        }
        "segment" => chk_segment(s128(&case["p"])?, s128(&case["target"])?, s128(&case["liq"])?, case["amount"].as_u64().ok_or("amount")?, case["rate"].as_u64().ok_or("rate")? as u16, case["exact_in"].as_bool().ok_or("exact_in")?, &st),
        "liq" => chk_liq(
            case["lower"].as_i64().ok_or("lower")? as i32,
            case["upper"].as_i64().ok_or("upper")? as i32,
            s128(&case["price"])?,
            case["tick"].as_i64().ok_or("tick")? as i32,
            s128(&case["liq"])?,
            case["increase"].as_bool().ok_or("increase")?,
            &st,
        ),
        "est" => chk_est(
            case["lower"].as_i64().ok_or("lower")? as i32,
            case["upper"].as_i64().ok_or("upper")? as i32,
            s128(&case["price"])?,
            case["max_a"].as_u64().ok_or("max_a")?,
            case["max_b"].as_u64().ok_or("max_b")?,
            &st,
        ),
        _ => Err(format!("unknown function case {f}")),
    }
}

// ================================================================================================
// Part 1 — Engine A
// ================================================================================================
#[derive(Clone, Copy, PartialEq, Eq, Debug)]
enum Kind {
    Std,
    T22,
    Af,
}

const HUGE_IN: u64 = u64::MAX >> 8;
const HUGE_OUT: u64 = 1_000_000_000_000_000;

/// both directions x exact-in/exact-out x amounts {1, 1000, 10^6, 2*10^7 (crosses ticks), huge} x limits {none, next tick, mid}
fn swap_alphabet(kind: Kind) -> Vec<SwapSpec> {
    let mut v = vec![];
    let mut n = 0usize;
    if kind == Kind::T22 {
        // amounts on which "apply the transfer fee, then invert it" is not the identity (1% fee: 10001 -> 9900 -> 10000)
        for a_to_b in [true, false] {
            for exact_in in [true, false] {
                for amount in [101u64, 10_001, 499_999] {
                    v.push(SwapSpec { a_to_b, exact_in, amount, lim: Lim::None, v2: true });
                }
            }
        }
    }
    for a_to_b in [true, false] {
        for exact_in in [true, false] {
            for amount in [1u64, 1000, 1_000_000, 20_000_000, if exact_in { HUGE_IN } else { HUGE_OUT }] {
                for lim in [Lim::None, Lim::NextTick, Lim::Mid] {
                    n += 1;
                    v.push(SwapSpec { a_to_b, exact_in, amount, lim, v2: n % 2 == 0 });
                }
            }
        }
    }
    v
}


struct W {
    built: Built,
    kind: Kind,
    fees: Fees,
    depth: (usize, usize),
    weight: f64,
}

fn af_spec(label: &str, group: u16, max_vol: u32, control: u32, reduction: u16, trade_enable_in: Option<u64>) -> AfSpec {
    AfSpec {
        label: label.into(),
        tick_spacing: 64,
        fee_tier_index: 1024 + 64,
        base_fee_rate: 3000,
        protocol_fee_rate: 300,
        filter_period: 30,
        decay_period: 600,
        reduction_factor: reduction,
        control_factor: control,
        max_volatility_accumulator: max_vol,
        tick_group_size: group,
        major_swap_threshold_ticks: 64,
        trade_enable_in,
        sqrt_price: P0,
        arrays: vec![(-79, Enc::Fixed), (-1, Enc::Dynamic), (0, Enc::Fixed), (1, Enc::Dynamic), (78, Enc::Dynamic)],
        positions: vec![(-128, 128, false), (128, 5696, true), (-443584, 443584, false)],
    }
}

fn af_roots() -> Vec<(&'static str, Vec<Op>)> {
    let fund = vec![Op::Inc { pos: 0, liq: BIG, v2: true }, Op::Inc { pos: 1, liq: BIG, v2: true }, Op::Inc { pos: 2, liq: 50_000_000, v2: true }];
    let mut moved = fund.clone();
    moved.push(Op::Swap { a_to_b: false, exact_in: true, amount: 20_000_000, lim: Lim::None, v2: true });
    moved.push(Op::Clock(45));
    moved.push(Op::Swap { a_to_b: true, exact_in: true, amount: 9_000_000, lim: Lim::None, v2: true });
    moved.push(Op::Clock(5));
    vec![("funded", fund), ("moved", moved)]
}

fn build_af_world(spec: &AfSpec) -> Built {
    let (l, w) = cw::build_af(spec);
    let roots = af_roots().iter().map(|(n, seq)| (n.to_string(), stdworlds::apply_all(&l, &w, seq))).collect();
    Built { name: spec.label.clone(), w, roots }
}

fn worlds(thorough: bool) -> Vec<W> {
    let roots = stdworlds::std_roots();
    let mut v = vec![];
    let std = |name: &str, enc: [Enc; 3], fee: u16, pfee: u16, rs: &[(&'static str, Vec<Op>)], weight: f64| W {
        built: stdworlds::build_with_roots(&stdworlds::std_spec(name, enc, fee, pfee), rs),
        kind: Kind::Std,
        fees: Fees::default(),
        depth: (2, 3),
        weight,
    };
    // roots: funded, fee-laden, shifted (price exactly on tick -128 after a downward crossing), above all narrow ranges
    let first: Vec<(&'static str, Vec<Op>)> = if thorough { roots[1..].to_vec() } else { vec![roots[1].clone(), roots[3].clone()] };
    v.push(std("c20-std-3000-300", [Enc::Dynamic, Enc::Fixed, Enc::Fixed], 3000, 300, &first, 2.0));
    v.push(std("c20-std-1-1", [Enc::Fixed, Enc::Dynamic, Enc::Dynamic], 1, 1, &roots[1..3], 1.5));
    if thorough {
        v.push(std("c20-std-60000-2500", [Enc::Fixed, Enc::Fixed, Enc::Dynamic], 60000, 2500, &roots[1..], 1.0));
        v.push(std("c20-std-0-0", [Enc::Dynamic, Enc::Dynamic, Enc::Fixed], 0, 0, &roots[1..3], 1.0));
        let ts1_roots: Vec<(&'static str, Vec<Op>)> =
            vec![("funded", vec![Op::Inc { pos: 0, liq: BIG * 1000, v2: false }, Op::Inc { pos: 1, liq: BIG * 100, v2: true }, Op::Inc { pos: 2, liq: BIG * 100, v2: true }])];
        v.push(W { built: stdworlds::build_with_roots(&stdworlds::ts1_spec("c20-ts1"), &ts1_roots), kind: Kind::Std, fees: Fees::default(), depth: (2, 3), weight: 1.0 });
    }
    if thorough {
        // chained ranges without a full-range position: the price can leave all liquidity (zero-liquidity stretches inside swaps)
        v.push(W {
            built: stdworlds::build_with_roots(&stdworlds::chain_spec("c20-chain", [Enc::Dynamic, Enc::Dynamic, Enc::Fixed], 3000, 300), &stdworlds::chain_roots()[1..]),
            kind: Kind::Std,
            fees: Fees::default(),
            depth: (2, 3),
            weight: 1.0,
        });
    }
    // full-range-only pool: one tick array pair spans every price, so exact-out requests beyond the reserves end in PartialFillError
    // ... and a thinly funded copy drained by one no-limit swap: the pool then sits exactly on the protocol price bound with zero
    // liquidity, where the program refuses a further swap in that direction (and the SDK must not quote one)
    let thin = |a_to_b: bool| vec![Op::Inc { pos: 1, liq: 7_000_000, v2: true }, Op::Swap { a_to_b, exact_in: true, amount: HUGE_IN, lim: Lim::None, v2: a_to_b }];
    let splash_roots: Vec<(&'static str, Vec<Op>)> = vec![
        ("funded", vec![Op::Inc { pos: 0, liq: BIG, v2: false }, Op::Inc { pos: 1, liq: 7_000_000, v2: true }]),
        ("drained-to-min-price", thin(true)),
        ("drained-to-max-price", thin(false)),
    ];
    v.push(W { built: stdworlds::build_with_roots(&stdworlds::splash_spec("c20-splash"), &splash_roots), kind: Kind::Std, fees: Fees::default(), depth: (2, 3), weight: 0.5 });
    // tick spacing 1 with every position bound on a tick-array edge: -176 / 263 are the first / last tick of the outermost arrays a
    // swap from tick 0 is given, -88 / 87 / 88 / 175 the first / last ticks of the inner arrays
    let edge_spec = world::StdSpec {
        label: "c20-edge-ts1".into(),
        tick_spacing: 1,
        fee_rate: 100,
        protocol_fee_rate: 2500,
        sqrt_price: P0,
        arrays: vec![(-3, Enc::Dynamic), (-2, Enc::Fixed), (-1, Enc::Dynamic), (0, Enc::Fixed), (1, Enc::Dynamic), (2, Enc::Fixed), (3, Enc::Dynamic)],
        positions: vec![(-176, 263, false), (-88, 87, true), (88, 175, false)],
        t22_a: None,
        t22_b: None,
    };
    let fund_edge = vec![Op::Inc { pos: 0, liq: 2 * BIG, v2: false }, Op::Inc { pos: 1, liq: BIG, v2: true }, Op::Inc { pos: 2, liq: BIG, v2: false }];
    let mut on_last = fund_edge.clone();
    on_last.push(Op::Swap { a_to_b: false, exact_in: true, amount: u64::MAX >> 8, lim: Lim::NextTick, v2: false }); // price on tick 87, last of array 0
    let mut on_first = on_last.clone();
    on_first.push(Op::Swap { a_to_b: false, exact_in: true, amount: u64::MAX >> 8, lim: Lim::NextTick, v2: true }); // tick 88, first of array 1
    let mut below = fund_edge.clone();
    below.push(Op::Swap { a_to_b: true, exact_in: true, amount: u64::MAX >> 8, lim: Lim::NextTick, v2: true }); // shifted onto -88, first of array -1
    let edge_roots: Vec<(&'static str, Vec<Op>)> = vec![("funded", fund_edge), ("on-last-tick-of-array", on_last), ("on-first-tick-of-array", on_first), ("shifted-onto-first-tick", below)];
    v.push(W { built: stdworlds::build_with_roots(&edge_spec, &edge_roots), kind: Kind::Std, fees: Fees::default(), depth: (1, 3), weight: 1.0 });
    // tick spacing 64 with bounds exactly on a tick-array edge (5632 = slot 0 of array 1): roots whose price sits in the LAST spacing of
    // array 0, strictly between usable ticks (tick 5631) — an upward quote is then handed the arrays the program takes (starting at
    // the next array, whose start lies above the current tick) and must find slot 0; floor and truncating division differ here only
    // for spacings above 1
    v.push(W {
        built: stdworlds::build_with_roots(&stdworlds::edge_spec("c20-edge-ts64", [Enc::Dynamic, Enc::Fixed, Enc::Dynamic]), &stdworlds::edge_roots()),
        kind: Kind::Std,
        fees: Fees::default(),
        depth: (1, 2),
        weight: 0.5,
    });
    // tick spacing 4: one of the three spacings for which the lowest tick (-443636) is usable. Position 0 is bounded by it; one
    // root sits on the minimum price (tick -443637) after a swap crossed that bound, so every upward quote has to find it again
    {
        let n = 88 * 4;
        let start = MIN_TICK.div_euclid(n) * n;
        let min_spec = world::StdSpec {
            label: "c20-min-edge-ts4".into(),
            tick_spacing: 4,
            fee_rate: 3000,
            protocol_fee_rate: 300,
            sqrt_price: sqrt_price_from_tick_index(MIN_TICK + 40),
            arrays: vec![(start / n, Enc::Dynamic), (start / n + 1, Enc::Fixed), (start / n + 2, Enc::Dynamic)],
            positions: vec![(MIN_TICK, MIN_TICK + 80, false), (MIN_TICK + 16, MIN_TICK + 64, true), (MIN_TICK + 80, MIN_TICK + 400, false)],
            t22_a: None,
            t22_b: None,
        };
        let fund_min = vec![Op::Inc { pos: 0, liq: 1_000_000, v2: true }, Op::Inc { pos: 1, liq: 3_000_000, v2: false }, Op::Inc { pos: 2, liq: 2_000_000, v2: true }];
        let mut drained = fund_min.clone();
        drained.push(Op::Swap { a_to_b: true, exact_in: true, amount: HUGE_IN, lim: Lim::None, v2: true });
        let min_roots: Vec<(&'static str, Vec<Op>)> = vec![("funded", fund_min), ("on-the-minimum-price", drained)];
        v.push(W { built: stdworlds::build_with_roots(&min_spec, &min_roots), kind: Kind::Std, fees: Fees::default(), depth: (1, 2), weight: 0.5 });
    }
    // Token-2022 transfer fees on both mints: A 1% capped at 5000 (the cap binds for the large swaps), B 2.5% uncapped
    v.push(W {
        built: stdworlds::build_with_roots(&stdworlds::t22_spec("c20-t22", 100, 5_000, 250, u64::MAX), &roots[1..3]),
        kind: Kind::T22,
        fees: Fees { a: Some(sdk::TransferFee::new_with_max(100, 5_000)), b: Some(sdk::TransferFee::new_with_max(250, u64::MAX)) },
        depth: (2, 3),
        weight: 1.0,
    });
    // An adaptive-fee tier whose index EQUALS its tick spacing (the index reserved for the static tier of that spacing, by which the
    // SDK tells the two kinds of pool apart): the program refuses to create it (InvalidFeeTierIndex), so on the unchanged tree this
    // world does not exist. Should the program ever accept it, the pool it yields is explored like the other adaptive-fee worlds —
    // "for static- and adaptive-fee pools ... never fails where the program succeeds" applies to it as to any pool that can exist.
    {
        let mut spec = af_spec("c20-af-reserved-index", 64, 30_000, 50_000, 5000, None);
        spec.fee_tier_index = 64;
        let prev = std::panic::take_hook();
        std::panic::set_hook(Box::new(|_| {}));
        let built = std::panic::catch_unwind(|| build_af_world(&spec));
        std::panic::set_hook(prev);
        if let Ok(b) = built {
            v.push(W { built: b, kind: Kind::Af, fees: Fees::default(), depth: (1, 2), weight: 0.5 });
        }
    }
    // adaptive fee: small saturation range (3 groups): the skip logic runs on every crossing swap
    v.push(W { built: build_af_world(&af_spec("c20-af-g64-sat3", 64, 30_000, 50_000, 5000, None)), kind: Kind::Af, fees: Fees::default(), depth: (2, 3), weight: 2.0 });
    // a maximum accumulator that is NOT a multiple of 10 000 (one group of distance adds exactly 10 000): saturation lands between two
    // groups, so "clamp the distance" and "clamp the accumulator" are different computations (35 500: between the third and fourth)
    v.push(W { built: build_af_world(&af_spec("c20-af-g64-odd-max", 64, 35_500, 50_000, 5000, None)), kind: Kind::Af, fees: Fees::default(), depth: (1, 2), weight: 0.5 });
    // strongest control factor: the total rate passes 65 535 four groups from the reference and reaches the 10 % hard limit at five
    v.push(W { built: build_af_world(&af_spec("c20-af-g64-hot", 64, 350_000, 99_999, 5000, None)), kind: Kind::Af, fees: Fees::default(), depth: (2, 3), weight: 1.0 });
    // zero-liquidity gaps (no full-range position): [-640,-256) [-256,128) gap [128,256) [256,640) — a swap leaves one range, crosses the
    // gap in one skipped step and goes on trading in the next range, far from saturation (the group reached after the skip matters)
    {
        let mut gap = af_spec("c20-af-gap", 64, 350_000, 50_000, 5000, None);
        gap.positions = vec![(-256, 128, false), (256, 640, true), (-640, -256, false)];
        v.push(W { built: build_af_world(&gap), kind: Kind::Af, fees: Fees::default(), depth: (1, 3), weight: 1.0 });
    }
    if thorough {
        // fine groups, wide core range, strong decay
        v.push(W { built: build_af_world(&af_spec("c20-af-g16-wide", 16, 350_000, 10_000, 9000, None)), kind: Kind::Af, fees: Fees::default(), depth: (2, 3), weight: 1.0 });
        // control factor zero: always skipped, must equal a static pool
        v.push(W { built: build_af_world(&af_spec("c20-af-zero", 64, 100_000, 0, 0, None)), kind: Kind::Af, fees: Fees::default(), depth: (2, 3), weight: 0.5 });
    }
    v
}

fn transition_alphabet(kind: Kind) -> Vec<Op> {
    let mut a = vec![];
    match kind {
        Kind::Std | Kind::T22 => {
            // C06's alphabet
            for a_to_b in [true, false] {
                a.push(Op::Swap { a_to_b, exact_in: true, amount: 1_000_000, lim: Lim::None, v2: a_to_b });
                a.push(Op::Swap { a_to_b, exact_in: false, amount: 100_000, lim: Lim::None, v2: !a_to_b });
                a.push(Op::Swap { a_to_b, exact_in: true, amount: 20_000_000, lim: Lim::None, v2: !a_to_b });
                a.push(Op::Swap { a_to_b, exact_in: true, amount: u64::MAX >> 8, lim: Lim::NextTick, v2: a_to_b });
                a.push(Op::Swap { a_to_b, exact_in: true, amount: 3, lim: Lim::None, v2: a_to_b });
                a.push(Op::Swap { a_to_b, exact_in: false, amount: 30_000_000, lim: Lim::Mid, v2: !a_to_b });
                a.push(Op::Swap { a_to_b, exact_in: true, amount: 1_000_001, lim: Lim::ShortOfNextTick, v2: a_to_b });
            }
            a.push(Op::CollectProtocol { v2: false });
            a.push(Op::CollectProtocol { v2: true });
            a.push(Op::Dec { pos: 2, part: Part::All, v2: false });
            a.push(Op::Dec { pos: 0, part: Part::All, v2: true });
            a.push(Op::Inc { pos: 0, liq: 5_000, v2: false });
            a.push(Op::SetFeeRate(0));
            a.push(Op::SetFeeRate(60_000));
            a.push(Op::SetProtocolFeeRate(0));
            a.push(Op::SetProtocolFeeRate(2_500));
        }
        Kind::Af => {
            for a_to_b in [true, false] {
                a.push(Op::Swap { a_to_b, exact_in: true, amount: 1_000_000, lim: Lim::None, v2: true });
                a.push(Op::Swap { a_to_b, exact_in: true, amount: 20_000_000, lim: Lim::None, v2: true });
                a.push(Op::Swap { a_to_b, exact_in: false, amount: 6_000_000, lim: Lim::None, v2: true });
                a.push(Op::Swap { a_to_b, exact_in: true, amount: u64::MAX >> 8, lim: Lim::NextTick, v2: true });
                a.push(Op::Swap { a_to_b, exact_in: true, amount: 150_000_000, lim: Lim::None, v2: true });
            }
            // below the filter period (30), exactly the filter period (first second of the decay window; 30+1 is inside it),
            // exactly the decay period (600, first second outside the window), beyond the maximum reference age (3600)
            a.push(Op::Clock(1));
            a.push(Op::Clock(30));
            a.push(Op::Clock(600));
            a.push(Op::Clock(3601));
            a.push(Op::Dec { pos: 0, part: Part::All, v2: true });
            a.push(Op::Inc { pos: 0, liq: 5_000, v2: true });
        }
    }
    a
}

fn model<'a>(w: &'a W, stats: &'a DiffStats, specs: &'a [SwapSpec]) -> PoolModel<'a> {
    let fees = w.fees;
    PoolModel::new(
        &w.built.w,
        transition_alphabet(w.kind),
        Box::new(move |l: &Ledger, sw: &StdWorld| cw::diff_state(l, sw, specs, &fees, stats)),
        Box::new(move |pre: &Ledger, st: &Stepped, sw: &StdWorld, op: &Op| match op {
            // the transition itself (already executed by the explorer) is compared too
            Op::Swap { a_to_b, exact_in, amount, lim, v2 } => {
                let s = SwapSpec { a_to_b: *a_to_b, exact_in: *exact_in, amount: *amount, lim: *lim, v2: *v2 };
                let ex = cw::Executed { post: st.ledger.clone(), outcome: st.outcome.clone(), trace: st.trace.clone(), limit: crate::ops::resolve_limit(pre, &sw.pool, *a_to_b, *lim) };
                cw::compare(pre, sw, &s, &ex, &fees, stats)
            }
            _ => Ok(()),
        }),
    )
}

/// Pools whose trading is not yet enabled: the program refuses every swap (TradeIsNotEnabled); so must the SDK.
fn trade_enable_probe(r: &mut Report, stats: &DiffStats) -> u64 {
    let spec = af_spec("c20-af-not-enabled", 64, 30_000, 50_000, 5000, Some(3600));
    let (l, w) = cw::build_af(&spec);
    let l = stdworlds::apply_all(&l, &w, &af_roots()[0].1);
    let mut n = 0;
    for s in [
        SwapSpec { a_to_b: true, exact_in: true, amount: 1_000_000, lim: Lim::None, v2: true },
        SwapSpec { a_to_b: false, exact_in: false, amount: 1_000, lim: Lim::None, v2: false },
    ] {
        let ex = cw::exec_swap(&l, &w, &s);
        if ex.outcome.code() != Some(6064) {
            r.violation("trade-enable/machinery".into(), format!("expected TradeIsNotEnabled, got {}", ex.outcome.short()), json!({"kind":"trade_enable"}));
            return n;
        }
        n += 1;
        if let Err(e) = cw::compare(&l, &w, &s, &ex, &Fees::default(), stats) {
            r.violation(
                format!(
                    "trade-enable/c20-af-not-enabled/funded/{}-{}-{}-{}#sdk-quotes-before-trade-enable",
                    if s.a_to_b { "a2b" } else { "b2a" },
                    if s.exact_in { "exact-in" } else { "exact-out" },
                    s.amount,
                    if s.v2 { "v2" } else { "v1" }
                ),
                format!("adaptive-fee pool with trade_enable_timestamp one hour ahead: {e}"),
                json!({"kind":"trade_enable"}),
            );
            break;
        }
    }
    n
}

/// The smallest instance of the transfer-fee token_in disagreement: 101 units of token A (1% fee) into the funded T22 pool.
fn replay_t22_token_in() -> Result<(), String> {
    let ws = worlds(false);
    let w = ws.iter().find(|w| w.kind == Kind::T22).ok_or("no T22 world")?;
    let l = &w.built.roots[0].1;
    let st = DiffStats::default();
    let s = SwapSpec { a_to_b: true, exact_in: true, amount: 101, lim: Lim::None, v2: true };
    let ex = cw::exec_swap(l, &w.built.w, &s);
    cw::compare(l, &w.built.w, &s, &ex, &w.fees, &st)?;
    let m = st.findings.lock().unwrap();
    match m.get(cw::T22_TOKEN_IN_CLASS) {
        Some((d, _)) => Err(d.clone()),
        None => Ok(()),
    }
}

/// Instruction-level witness of the function-level class "segment/program-rejects-panic-sdk-ok": a pool initialised at
/// sqrt price 2^64+1 with liquidity 2^64 in [-128,128); a 2-unit a->b exact-in swap makes the program's 256-bit division
/// index out of bounds (the transaction fails), while the SDK quotes it.
fn panic_probe(r: &mut Report, stats: &DiffStats) -> u64 {
    let mut spec = stdworlds::std_spec("c20-div-panic", [Enc::Fixed, Enc::Fixed, Enc::Fixed], 3000, 300);
    spec.sqrt_price = P0 + 1;
    let (l, w) = world::build_std(&spec);
    let l = stdworlds::apply_all(&l, &w, &[Op::Inc { pos: 0, liq: 1u128 << 64, v2: false }]);
    let mut n = 0;
    for s in [SwapSpec { a_to_b: true, exact_in: true, amount: 2, lim: Lim::None, v2: false }, SwapSpec { a_to_b: true, exact_in: true, amount: 2, lim: Lim::None, v2: true }] {
        let ex = cw::exec_swap(&l, &w, &s);
        let p0 = w.pool.state(&l);
        let pool = cw::pool_facade(&p0);
        let (tas, _) = cw::swap_array_facades(&l, &w.pool, p0.tick_current_index, true);
        let q = cw::sdk_compute(pool, tas, None, l.unix_ts as u64, &s, 0);
        n += 1;
        let _ = stats;
        if let (Some(svm::ExecError::Panic(msg)), Ok(a)) = (&ex.outcome.result, &q) {
            r.violation(
                format!("finding/c20-div-panic/a2b-exact-in-2-{}#program-panics-sdk-quotes", if s.v2 { "v2" } else { "v1" }),
                format!(
                    "pool at sqrt_price 2^64+1, liquidity 2^64 in [-128,128), fee 3000: swap a->b exact-in amount 2 ({}): the program panics ({}) so the transaction fails, SDK compute_swap returns in/out/fee = {}/{}/{}",
                    if s.v2 { "swap_v2" } else { "swap" },
                    msg.lines().last().unwrap_or(""),
                    a.amt_in,
                    a.amt_out,
                    a.fee
                ),
                json!({"kind":"panic_probe"}),
            );
            break;
        }
    }
    n
}

fn replay_panic_probe() -> Result<(), String> {
    let mut r = Report::new("C20", "model_checking");
    let st = DiffStats::default();
    panic_probe(&mut r, &st);
    match r.violations.first() {
        Some(v) => Err(v.detail.clone()),
        None => Ok(()),
    }
}

fn replay_trade_enable() -> Result<(), String> {
    let mut r = Report::new("C20", "model_checking");
    let st = DiffStats::default();
    trade_enable_probe(&mut r, &st);
    match r.violations.first() {
        Some(v) => Err(v.detail.clone()),
        None => Ok(()),
    }
}

pub fn run(ctx: &Ctx) -> Report {
    let mut r = Report::new("C20", "model_checking");
    let quick = ctx.tier.is_quick();
    install_quiet_hook();

    // ---- Part 0: trusted base
    if let Err(e) = shim_selfcheck(quick, &mut r) {
        r.set("machinery_error", format!("ethnum shim defect: {e}"));
        r.guard("ethnum_shim_agrees_with_bigint", 0);
        eprintln!("MACHINERY ERROR: ethnum shim defect: {e}");
        return r;
    }
    r.guard("ethnum_shim_agrees_with_bigint", 1);

    // ---- Part 1: Engine A
    let stats = DiffStats::default();
    let ws = worlds(!quick);
    let ea_budget = ctx.pick(16.0, 330.0f64).min(ctx.left() * 0.6);
    let mut weight_left: f64 = ws.iter().map(|w| w.weight).sum();
    let t_ea = ctx.elapsed();
    for w in &ws {
        let specs = swap_alphabet(w.kind);
        let m = model(w, &stats, &specs);
        // time a world does not use is passed on to the following ones
        let share = ((ea_budget - (ctx.elapsed() - t_ea)) * w.weight / weight_left).max(1.0);
        weight_left -= w.weight;
        let out = poolexplore::run_world(ctx, &mut r, &w.built, &m, ctx.depth(w.depth.0, w.depth.1), share);
        poolexplore::fold(&mut r, &w.built.name, &out, &m.alphabet[..3.min(m.alphabet.len())]);
        if !r.violations.is_empty() {
            break;
        }
    }
    r.set("engine_a_wall_s", ((ctx.elapsed() - t_ea) * 10.0).round() / 10.0);
    let engine_a_clean = r.violations.is_empty();
    let probed = if engine_a_clean { trade_enable_probe(&mut r, &stats) } else { 0 };
    if engine_a_clean {
        let n = panic_probe(&mut r, &stats);
        r.set("division_panic_probes", n);
    }

    // classified state-level disagreements (one violation per class, smallest instance)
    for (class, (detail, n)) in stats.findings.lock().unwrap().iter() {
        // input-keyed by a fixed witness (the smallest instance: 101 units of token A into the funded root); the other
        // occurrences satisfy the same exact predicate (see c20_world::compare) and are counted, not listed
        match if class == cw::T22_TOKEN_IN_CLASS { replay_t22_token_in().err() } else { None } {
            Some(d) => r.violation(format!("finding/c20-t22/funded/a2b-exact-in-101-v2#{class}"), format!("{d} ({n} occurrences of this class in this run)"), json!({"kind":"finding","class":class})),
            None => r.violation(format!("finding/{detail}#{class}"), format!("{detail} ({n} occurrences in this run)"), json!({"kind":"finding","class":class})),
        }
    }
    let g = cw::get;
    let ok_total: u64 = stats.compared_ok.iter().map(g).sum();
    // for this property a validated trace is one real swap execution whose outcome was compared with the SDK's quote of the pre-state
    let seqs = r.coverage.get("traces_validated_against_impl").and_then(|v| v.as_u64()).unwrap_or(0);
    r.set("op_sequences_explored", seqs);
    r.set("traces_validated_against_impl", g(&stats.evaluations));
    r.set("sdk_quotes_compared_with_real_executions", g(&stats.evaluations));
    let specs = swap_alphabet(Kind::Std);
    r.set("swap_alphabet_size", specs.len() as u64);
    r.set("program_failures_by_code", json!(*stats.fail_other_codes.lock().unwrap()));
    r.set("program_failures_noncustom_not_constrained", g(&stats.fail_noncustom));
    r.set("sdk_ok_where_program_partial_fill", g(&stats.sdk_ok_on_partial_fill));
    r.set("sdk_ok_where_program_ran_off_arrays", g(&stats.sdk_ok_off_arrays));
    r.set("tick_arrays_defaulted_for_sdk", g(&stats.missing_arrays));
    r.guard("program_success_a2b_exact_in", g(&stats.compared_ok[0]));
    r.guard("program_success_a2b_exact_out", g(&stats.compared_ok[1]));
    r.guard("program_success_b2a_exact_in", g(&stats.compared_ok[2]));
    r.guard("program_success_b2a_exact_out", g(&stats.compared_ok[3]));
    r.guard("swap_quote_wrappers_compared", g(&stats.quotes_ok));
    r.guard("slippage_bounds_checked", g(&stats.slippage_checks));
    r.guard("program_failure_partial_fill", g(&stats.fail_partial_fill));
    r.guard("program_failure_off_tick_arrays", g(&stats.fail_off_arrays));
    r.guard("program_failure_other_sdk_must_fail", g(&stats.fail_other));
    r.guard("tick_crossings_inside_compared_swaps", g(&stats.crossings));
    r.guard("multi_step_swaps_compared", g(&stats.multi_step));
    r.guard("partial_fills_at_price_limit_compared", g(&stats.partial_limit_fills));
    r.guard("nonzero_fee_swaps_compared", g(&stats.nonzero_fee));
    r.guard("adaptive_fee_swaps_compared", g(&stats.adaptive_ok));
    r.guard("adaptive_fee_swaps_with_skip", g(&stats.adaptive_skips));
    r.guard("adaptive_fee_swaps_with_varying_rate", g(&stats.adaptive_rate_varied));
    r.guard("transfer_fee_swaps_compared", g(&stats.transfer_fee_ok));
    if engine_a_clean {
        r.guard("trade_not_enabled_probes", probed);
    }

    // ---- Part 2: Engine B
    let fst = FnStats::default();
    if engine_a_clean {
        run_part2(ctx, &mut r, &fst);
    }
    r.set("evaluations", get(&fst.evaluations) + g(&stats.evaluations));
    r.set("distinct_nontrivial", get(&fst.distinct_nontrivial) + ok_total);
    r.set(
        "rule",
        "function level: an input tuple counts once (alphabets are sorted+deduplicated, tuples are enumerated as a product) and is non-trivial when the program's result is \
         non-zero / differs from the input price / is a rejection; conversions: every tick and every in-bounds p(t)-1, p(t), p(t)+1 counts; state level: one per (distinct state, swap of the \
         alphabet) on which the program succeeded and the SDK result was compared",
    );
    r.set("exhaustive", false);
    r.set("conversion_ticks_enumerated", get(&fst.conv_forward));
    r.set("next_price_program_divide_by_zero_sdk_ok_not_constrained", get(&fst.next_prog_div_by_zero_sdk_ok));
    r.set("next_price_program_panic_sdk_ok_not_constrained", get(&fst.next_prog_panic_sdk_ok));
    r.set("next_price_sdk_stricter_out_of_bounds", get(&fst.next_sdk_stricter));
    r.set("conversions_outside_domain_agree", get(&fst.conv_out_of_range_agree));
    r.set("conversions_outside_domain_differ", get(&fst.conv_out_of_range_differ));
    if engine_a_clean {
        r.guard("conversion_forward_all_ticks", (get(&fst.conv_forward) == (MAX_TICK - MIN_TICK + 1) as u64) as u64);
        r.guard("conversion_inverse_evaluations", get(&fst.conv_inverse));
        r.guard("amount_delta_equal_values", get(&fst.delta_both_ok));
        r.guard("amount_delta_program_overflow_sdk_error", get(&fst.delta_prog_overflow));
        r.guard("next_price_equal_values", get(&fst.next_both_ok));
        r.guard("next_price_program_error", get(&fst.next_prog_err));
        r.guard("swap_fee_helpers_equal", get(&fst.fee_both_ok));
        r.guard("transfer_fee_helpers_equal", get(&fst.tf_both_ok));
        r.guard("segment_swap_a2b_exact_in", get(&fst.step_both_ok[0]));
        r.guard("segment_swap_a2b_exact_out", get(&fst.step_both_ok[1]));
        r.guard("segment_swap_b2a_exact_in", get(&fst.step_both_ok[2]));
        r.guard("segment_swap_b2a_exact_out", get(&fst.step_both_ok[3]));
        r.guard("segment_swap_program_rejects_sdk_errors", get(&fst.step_prog_err));
        r.guard("liquidity_quote_increase_equal", get(&fst.liq_both_ok[0]));
        r.guard("liquidity_quote_decrease_equal", get(&fst.liq_both_ok[1]));
        r.guard("liquidity_quote_program_overflow_sdk_error", get(&fst.liq_prog_overflow));
        r.guard("liquidity_quote_shifted_tick_states", get(&fst.liq_shifted));
        r.guard("liquidity_quote_slippage_side", get(&fst.liq_slippage));
        r.guard("liquidity_quote_with_transfer_fee_equal", get(&fst.liq_fee_ok));
        r.guard("liquidity_quote_by_token_amount_with_transfer_fee_equal", get(&fst.est_fee_ok));
        r.guard("liquidity_from_token_maxima_equal", get(&fst.est_both_ok));
    }
    r.sample(json!({"state_level":"every distinct state x swap alphabet","swap_alphabet":serde_json::to_value(&specs[..6]).unwrap()}));
    r.assume("the ethnum shim (self-checked above against num-bigint) has ethnum's semantics: + - * wrap in release builds, checked_shl/shr only check the shift amount, TryFrom fails iff the value does not fit");
    r.assume("the SDK is compiled with the program's release profile (overflow-checks off), as the shipped WASM build is");
    r.assume("facades are filled field-by-field from the harness's own account decoders; a tick-array address holding no account becomes the SDK client's default (uninitialized) array");
    r.assume("hook H2 records the step fees the program's swap loop charged; their sum is cross-checked against the Traded event");
    r.assume("svm-lite faithfully replaces the validator (DESIGN §2.1)");
    r.assume("the TypeScript SDK's WASM core is the same Rust source on another target; it is not run here");
    r
}

pub fn replay(case: &Value) -> Result<(), String> {
    install_quiet_hook();
    match case["kind"].as_str().unwrap_or("") {
        "fn" => replay_fn(case),
        "trade_enable" => replay_trade_enable(),
        "panic_probe" => replay_panic_probe(),
        "finding" if case["class"].as_str() == Some(cw::T22_TOKEN_IN_CLASS) => replay_t22_token_in(),
        "ops" => {
            let ws = worlds(true);
            let name = case["world"].as_str().ok_or("world")?;
            let w = ws.iter().find(|w| w.built.name == name).ok_or("unknown world")?;
            let stats = DiffStats::default();
            let specs = swap_alphabet(w.kind);
            let m = model(w, &stats, &specs);
            poolexplore::replay_ops(&w.built, &m, case["root"].as_str().ok_or("root")?, &case["ops"])
        }
        k => Err(format!("unknown case kind {k}")),
    }
}
