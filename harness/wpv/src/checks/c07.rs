//! C07 — a position earns its pro-rata share of fees only while the price is in range (DESIGN §3 C07).
//! Engine A, *ledger mode*: the state carries an exact shadow ledger (rationals) of every position's fee entitlement, so
//! histories with different entitlements are never merged. Entitlements are derived independently of the program's
//! accumulators: the active set is tracked from position ranges and the H2 crossing records, every swap step with
//! liquidity L credits each active position lp_fee * L_P / L, and at every observation point
//!     entitlement - slack <= collected + owed <= entitlement ,
//! slack = sum over credited steps of L_P / 2^64 (floor of the growth per step) + one unit per position update (floor of the credit).
use crate::decode;
use crate::explore::{self, Limits, Model};
use crate::ops::{self, Lim, Op, Part};
use crate::refmodel::*;
use crate::report::{Ctx, Report};
use crate::stdworlds::{self, Built};
use crate::world::{self, balance, Enc, StdSpec, StdWorld};
use num_bigint::BigUint;
use num_traits::Zero;
use serde_json::{json, Value};
use std::sync::atomic::{AtomicU64, Ordering};
use svm::Ledger;
use whirlpool::verif_hooks::SwapTrace;

#[derive(Clone, Debug)]
struct PosGhost {
    ent: [Q; 2],      // exact entitlement per token
    slack: [Q; 2],    // allowed shortfall per token
    collected: [u128; 2],
    steps_credited: u64,
}
impl PosGhost {
    fn new() -> Self {
        PosGhost { ent: [Q::zero(), Q::zero()], slack: [Q::zero(), Q::zero()], collected: [0, 0], steps_credited: 0 }
    }
}

#[derive(Clone)]
struct St {
    l: Ledger,
    g: Vec<PosGhost>,
}

fn spec(label: &str, enc: [Enc; 3], full_range: bool, start_tick: i32) -> StdSpec {
    let mut positions = vec![(-128, 128, false), (-128, 128, true), (128, 5696, false)];
    let mut arrays = vec![(-1, enc[0]), (0, enc[1]), (1, enc[2])];
    if full_range {
        positions.push((-443584, 443584, false));
        arrays.push((-79, Enc::Dynamic));
        arrays.push((78, Enc::Fixed));
    }
    StdSpec { label: label.into(), tick_spacing: 64, fee_rate: 3000, protocol_fee_rate: 300, sqrt_price: whirlpool::math::sqrt_price_from_tick_index(start_tick), arrays, positions, t22_a: None, t22_b: None }
}

const NEAR_WRAP: u128 = u128::MAX - 1_000_000;

struct World {
    b: Built,
    /// (root name, base ledger, prefix ops) — the prefix is executed through the model so that the shadow ledger is in step
    prefixes: Vec<(String, Ledger, Vec<Op>)>,
}

/// Roots: funded (accumulators at 0) and funded with both global accumulators preset just below 2^128 *before* any tick is
/// initialised or liquidity exists (so every stored `outside`/checkpoint stays consistent and wrap-around happens inside the search).
fn build(label: &str, enc: [Enc; 3], full_range: bool, start_tick: i32) -> World {
    let s = spec(label, enc, full_range, start_tick);
    let (l, w) = world::build_std(&s);
    let mut fund = vec![
        Op::Inc { pos: 0, liq: stdworlds::BIG, v2: false },
        Op::Inc { pos: 1, liq: stdworlds::BIG / 3, v2: true },
        Op::Inc { pos: 2, liq: stdworlds::BIG, v2: false },
    ];
    if full_range {
        fund.push(Op::Inc { pos: 3, liq: 40_000_000, v2: true });
    }
    let preset = |base: u128| {
        let mut lw = l.clone();
        lw.patch(&w.pool.addr, |d| {
            d[decode::pool_off::FEE_GROWTH_A..decode::pool_off::FEE_GROWTH_A + 16].copy_from_slice(&base.to_le_bytes());
            d[decode::pool_off::FEE_GROWTH_B..decode::pool_off::FEE_GROWTH_B + 16].copy_from_slice(&(base + 7).to_le_bytes());
        });
        lw
    };
    let lw = preset(NEAR_WRAP);
    // far from zero in both directions: a missing or extra copy of the accumulator in any `outside` value is a huge error
    let lm = preset((1u128 << 127) + 0x1234_5678_9abc_def0);
    // a root where liquidity is added after fees were already earned by others: later liquidity must not earn earlier fees
    let mut late = vec![Op::Inc { pos: 1, liq: stdworlds::BIG / 3, v2: true }, Op::Inc { pos: 2, liq: stdworlds::BIG, v2: false }];
    late.push(Op::Swap { a_to_b: false, exact_in: true, amount: 3_000_000, lim: Lim::None, v2: false });
    late.push(Op::Swap { a_to_b: true, exact_in: true, amount: 1_000_000, lim: Lim::None, v2: true });
    // A lower bound initialised *after* the shared upper bound collected fees above it: the new position's fee growth inside
    // starts as a wrapped "negative" u128 (below + above > global) and passes through zero as in-range fees accrue.
    let reinit = vec![
        Op::Inc { pos: 1, liq: stdworlds::BIG / 3, v2: true },
        Op::Inc { pos: 2, liq: stdworlds::BIG, v2: false },
        Op::Swap { a_to_b: false, exact_in: true, amount: 3_000_000, lim: Lim::None, v2: true }, // up across 128, fees accrue above it
        Op::Swap { a_to_b: true, exact_in: true, amount: u64::MAX >> 8, lim: Lim::NextTick, v2: false }, // back down onto 128
        Op::Dec { pos: 1, part: Part::All, v2: true }, // de-initialises -128 (128 stays initialised through position 2)
        Op::Inc { pos: 0, liq: stdworlds::BIG, v2: false }, // -128 is initialised afresh
    ];
    let prefixes = vec![
        ("reinit-lower".to_string(), l.clone(), reinit),
        ("funded".to_string(), l.clone(), fund.clone()),
        ("near-wrap".to_string(), lw, fund.clone()),
        ("mid-accumulator".to_string(), lm, fund),
        ("late-liquidity".to_string(), l.clone(), late),
    ];
    World { b: Built { name: label.into(), w, roots: vec![] }, prefixes }
}

fn root_states(wd: &World, m: &M) -> Result<Vec<(String, St)>, String> {
    let mut out = vec![];
    for (name, base, prefix) in &wd.prefixes {
        let mut cur = St { l: base.clone(), g: vec![PosGhost::new(); wd.b.w.positions.len()] };
        for op in prefix {
            cur = m.step(&cur, op)?.ok_or_else(|| format!("root prefix op {op:?} failed"))?;
        }
        out.push((name.clone(), cur));
    }
    Ok(out)
}

fn worlds(thorough: bool) -> Vec<World> {
    let mut first = build("c07-dfd", [Enc::Dynamic, Enc::Fixed, Enc::Dynamic], false, 0);
    if !thorough {
        first.prefixes.retain(|p| p.0 != "mid-accumulator");
    }
    let mut v = vec![first];
    // the pool starts exactly on the shared bound 128, so that bound is first initialised while tick_current == tick
    // (the `current >= tick` convention for a new tick's outside value matters only then, and only with non-zero accumulators)
    let mut on = build("c07-onbound", [Enc::Fixed, Enc::Dynamic, Enc::Fixed], false, 128);
    on.prefixes.retain(|p| p.0 == "mid-accumulator");
    v.push(on);
    if thorough {
        v.push(build("c07-fdf-full", [Enc::Fixed, Enc::Dynamic, Enc::Fixed], true, 0));
        v.push(build("c07-onbound-lower", [Enc::Dynamic, Enc::Dynamic, Enc::Fixed], false, -128));
    }
    v
}

fn alphabet(w: &StdWorld) -> Vec<Op> {
    let n = w.positions.len() as u8;
    let mut a = vec![];
    for a_to_b in [true, false] {
        a.push(Op::Swap { a_to_b, exact_in: true, amount: 1_000_000, lim: Lim::None, v2: a_to_b });
        a.push(Op::Swap { a_to_b, exact_in: true, amount: u64::MAX >> 8, lim: Lim::NextTick, v2: !a_to_b }); // onto the bound (crosses it)
        a.push(Op::Swap { a_to_b, exact_in: true, amount: u64::MAX >> 8, lim: Lim::ShortOfNextTick, v2: a_to_b }); // short of the bound
        a.push(Op::Swap { a_to_b, exact_in: false, amount: 7_000_000, lim: Lim::Bound, v2: !a_to_b }); // across several bounds
    }
    for pos in 0..n {
        a.push(Op::Update { pos });
    }
    for pos in 0..n {
        a.push(Op::CollectFees { pos, v2: pos % 2 == 0 });
    }
    a.push(Op::Inc { pos: 0, liq: stdworlds::BIG, v2: true });
    a.push(Op::Dec { pos: 0, part: Part::All, v2: false });
    a.push(Op::Dec { pos: 1, part: Part::Half, v2: true });
    a.push(Op::Inc { pos: 1, liq: 12_345, v2: false });
    a.push(Op::Dec { pos: 2, part: Part::All, v2: true }); // de-initialises bound 5696 and (if P0/P1 are empty) 128
    a.push(Op::Inc { pos: 2, liq: 999_999_999, v2: false });
    // reposition_liquidity_v2 keeps the owed fees and restarts the checkpoints on the new range
    a.push(Op::Repos { pos: 0, lower: -64, upper: 192, liq: stdworlds::BIG / 2 });
    a.push(Op::Repos { pos: 0, lower: -128, upper: 128, liq: stdworlds::BIG });
    a
}

struct Counters {
    steps_credited: AtomicU64,
    crossings: AtomicU64,
    observations: AtomicU64,
    nonzero_owed_seen: AtomicU64,
    wraps: AtomicU64,
    same_range_comparisons: AtomicU64,
    zero_liq_steps: AtomicU64,
}

struct M<'a> {
    w: &'a StdWorld,
    alphabet: Vec<Op>,
    c: &'a Counters,
}

fn fp_q(h: &mut svm::Fp, q: &Q) {
    let n = q.clone().norm();
    h.bytes(&n.n.to_bytes_le());
    h.bytes(&n.d.to_bytes_le());
}

impl<'a> M<'a> {
    /// lower <= tick < upper with non-zero liquidity
    fn active_set(&self, l: &Ledger, tick: i32) -> Vec<(usize, u128)> {
        let mut v = vec![];
        for (i, p) in self.w.positions.iter().enumerate() {
            let ps = p.state(l);
            if ps.liquidity > 0 && ps.tick_lower_index <= tick && tick < ps.tick_upper_index {
                v.push((i, ps.liquidity));
            }
        }
        v
    }

    /// Credit the steps of one successful swap to the shadow ledger. Positions and their liquidity are those of the
    /// pre-state (a swap does not change positions); the active set follows the crossing records.
    fn credit_swap(&self, pre: &Ledger, g: &mut [PosGhost], trace: &[SwapTrace], a_to_b: bool) -> Result<(), String> {
        let pool = self.w.pool.state(pre);
        let side = if a_to_b { 0 } else { 1 };
        let pos: Vec<decode::Position> = self.w.positions.iter().map(|p| p.state(pre)).collect();
        let mut active: Vec<bool> = pos.iter().map(|ps| ps.liquidity > 0 && ps.tick_lower_index <= pool.tick_current_index && pool.tick_current_index < ps.tick_upper_index).collect();
        for t in trace {
            match t {
                SwapTrace::Begin { .. } => {}
                SwapTrace::Cross(c) => {
                    self.c.crossings.fetch_add(1, Ordering::Relaxed);
                    for (i, ps) in pos.iter().enumerate() {
                        if ps.liquidity == 0 {
                            continue;
                        }
                        if a_to_b {
                            // moving down through tick t: ranges starting at t are left, ranges ending at t are entered
                            if ps.tick_lower_index == c.tick_index {
                                active[i] = false;
                            }
                            if ps.tick_upper_index == c.tick_index {
                                active[i] = true;
                            }
                        } else {
                            if ps.tick_lower_index == c.tick_index {
                                active[i] = true;
                            }
                            if ps.tick_upper_index == c.tick_index {
                                active[i] = false;
                            }
                        }
                    }
                }
                SwapTrace::Step(s) => {
                    let sum: u128 = pos.iter().zip(active.iter()).filter(|(_, a)| **a).map(|(p, _)| p.liquidity).sum();
                    if sum != s.liquidity {
                        return Err(format!(
                            "step traded against liquidity {} but the positions whose range contains the step sum to {} (price {} -> {})",
                            s.liquidity, sum, s.sqrt_price_before, s.next_price
                        ));
                    }
                    if s.liquidity == 0 {
                        self.c.zero_liq_steps.fetch_add(1, Ordering::Relaxed);
                        continue;
                    }
                    let cut = (bu(s.fee_amount as u128) * bu(pool.protocol_fee_rate as u128)) / bu(10_000);
                    let lp = bu(s.fee_amount as u128) - cut;
                    if lp.is_zero() {
                        continue;
                    }
                    for (i, ps) in pos.iter().enumerate() {
                        if active[i] {
                            let share = Q::new(&lp * bu(ps.liquidity), bu(s.liquidity));
                            g[i].ent[side] = g[i].ent[side].add(&share);
                            g[i].slack[side] = g[i].slack[side].add(&Q::new(bu(ps.liquidity), pow2(64)));
                            g[i].steps_credited += 1;
                            self.c.steps_credited.fetch_add(1, Ordering::Relaxed);
                        }
                    }
                }
            }
        }
        Ok(())
    }

    fn observe(&self, what: &str, i: usize, g: &PosGhost, owed: [u64; 2], extra_updates: u32) -> Result<(), String> {
        self.c.observations.fetch_add(1, Ordering::Relaxed);
        for side in 0..2 {
            let got = Q::int(g.collected[side] + owed[side] as u128);
            if owed[side] > 0 {
                self.c.nonzero_owed_seen.fetch_add(1, Ordering::Relaxed);
            }
            let p = &self.w.positions[i];
            if !got.le(&g.ent[side]) {
                return Err(format!(
                    "{what}: position {} [{}..{}) token {}: collected+owed = {} exceeds its exact pro-rata entitlement {:.6} ({} steps credited)",
                    i, p.lower, p.upper, if side == 0 { "A" } else { "B" }, g.collected[side] + owed[side] as u128, g.ent[side].to_f64(), g.steps_credited
                ));
            }
            let slack = g.slack[side].add(&Q::int(extra_updates as u128));
            if !g.ent[side].le(&got.add(&slack)) {
                return Err(format!(
                    "{what}: position {} [{}..{}) token {}: collected+owed = {} falls short of entitlement {:.6} by more than the rounding bound {:.6}",
                    i, p.lower, p.upper, if side == 0 { "A" } else { "B" }, g.collected[side] + owed[side] as u128, g.ent[side].to_f64(), slack.to_f64()
                ));
            }
        }
        Ok(())
    }
}

impl<'a> Model for M<'a> {
    type S = St;
    type O = Op;
    fn fp(&self, s: &St) -> u128 {
        let mut h = svm::Fp::new();
        h.u128(s.l.fingerprint_of(&ops::core_keys(&s.l, self.w), false));
        for g in &s.g {
            for side in 0..2 {
                fp_q(&mut h, &g.ent[side]);
                fp_q(&mut h, &g.slack[side]);
                h.u128(g.collected[side]);
            }
        }
        h.finish()
    }
    fn ops(&self, _s: &St) -> Vec<Op> {
        self.alphabet.clone()
    }
    fn step(&self, s: &St, op: &Op) -> Result<Option<St>, String> {
        let st = ops::apply(&s.l, self.w, op);
        if !st.outcome.ok() {
            return Ok(None);
        }
        let mut g = s.g.clone();
        match op {
            Op::Swap { a_to_b, .. } => {
                let p0 = self.w.pool.state(&s.l);
                let p1 = self.w.pool.state(&st.ledger);
                if (*a_to_b && p1.fee_growth_global_a < p0.fee_growth_global_a) || (!*a_to_b && p1.fee_growth_global_b < p0.fee_growth_global_b) {
                    self.c.wraps.fetch_add(1, Ordering::Relaxed);
                }
                self.credit_swap(&s.l, &mut g, &st.trace, *a_to_b)?;
            }
            Op::Inc { pos, .. } | Op::Dec { pos, .. } | Op::Update { pos } | Op::Repos { pos, .. } => {
                // the position was updated: one more floor in its credit
                let i = *pos as usize;
                for side in 0..2 {
                    g[i].slack[side] = g[i].slack[side].add(&Q::int(1));
                }
                let ps = self.w.positions[i].state(&st.ledger);
                self.observe(&format!("after {op:?}"), i, &g[i], [ps.fee_owed_a, ps.fee_owed_b], 0)?;
            }
            Op::CollectFees { pos, .. } => {
                let i = *pos as usize;
                let before = self.w.positions[i].state(&s.l);
                let da = balance(&st.ledger, &self.w.lp.acct_a) - balance(&s.l, &self.w.lp.acct_a);
                let db = balance(&st.ledger, &self.w.lp.acct_b) - balance(&s.l, &self.w.lp.acct_b);
                if da != before.fee_owed_a || db != before.fee_owed_b {
                    return Err(format!("collect_fees paid {da}/{db} but the position was owed {}/{}", before.fee_owed_a, before.fee_owed_b));
                }
                g[i].collected[0] += da as u128;
                g[i].collected[1] += db as u128;
                let ps = self.w.positions[i].state(&st.ledger);
                if ps.fee_owed_a != 0 || ps.fee_owed_b != 0 {
                    return Err("fees owed not reset by collect_fees".into());
                }
            }
            _ => {}
        }
        Ok(Some(St { l: st.ledger, g }))
    }
    fn check_state(&self, s: &St) -> Result<(), String> {
        // in every state: bring every funded position up to date on a copy and compare with the shadow ledger
        let mut c = s.l.clone();
        let mut owed: Vec<Option<[u64; 2]>> = vec![None; self.w.positions.len()];
        for (i, p) in self.w.positions.iter().enumerate() {
            if p.state(&c).liquidity > 0 {
                let pnow = p.at(&c);
                let o = svm::process(&mut c, &world::ix_update_fees_and_rewards(&pnow));
                if !o.ok() {
                    return Err(format!("update_fees_and_rewards failed on a funded position: {}", o.short()));
                }
                let ps = p.state(&c);
                owed[i] = Some([ps.fee_owed_a, ps.fee_owed_b]);
                self.observe("virtual update", i, &s.g[i], [ps.fee_owed_a, ps.fee_owed_b], 1)?;
            } else {
                let ps = p.state(&c);
                self.observe("stored", i, &s.g[i], [ps.fee_owed_a, ps.fee_owed_b], 0)?;
            }
        }
        // two positions with the same range earn in proportion to their liquidity *while both are funded with constant
        // liquidity* — that is implied by the two-sided bound above; here the direct cross-multiplied form for P0/P1
        // (same range) whenever neither has ever changed liquidity in this history is covered by the bound, so only count.
        if owed[0].is_some() && owed[1].is_some() {
            self.c.same_range_comparisons.fetch_add(1, Ordering::Relaxed);
        }
        Ok(())
    }
}

fn mk_counters() -> Counters {
    Counters {
        steps_credited: AtomicU64::new(0),
        crossings: AtomicU64::new(0),
        observations: AtomicU64::new(0),
        nonzero_owed_seen: AtomicU64::new(0),
        wraps: AtomicU64::new(0),
        same_range_comparisons: AtomicU64::new(0),
        zero_liq_steps: AtomicU64::new(0),
    }
}

pub fn run(ctx: &Ctx) -> Report {
    let mut r = Report::new("C07", "model_checking");
    let ws = worlds(!ctx.tier.is_quick());
    let c = mk_counters();
    let share = ctx.budget_s * 0.95 / ws.len() as f64;
    for wd in &ws {
        let b = &wd.b;
        let m = M { w: &b.w, alphabet: alphabet(&b.w), c: &c };
        let named = match root_states(wd, &m) {
            Ok(x) => x,
            Err(e) => {
                r.violation(format!("{}/root", b.name), e, json!({"kind":"root","world": b.name}));
                break;
            }
        };
        let roots: Vec<St> = named.iter().map(|x| x.1.clone()).collect();
        let lim = Limits { max_depth: ctx.depth(4, 6), budget_s: share.min(ctx.left().max(1.0)), max_states: 30_000_000 };
        let (stats, found) = explore::explore(&m, &roots, &lim);
        if let Some(f) = found {
            r.violation(
                format!("{}/{}/{}", b.name, named[f.root].0, serde_json::to_string(&f.path).unwrap()),
                f.detail.clone(),
                json!({"kind":"ops","world": b.name, "root": named[f.root].0, "ops": serde_json::to_value(&f.path).unwrap()}),
            );
        }
        let out = crate::poolexplore::RunOut { stats, outcomes: Default::default() };
        crate::poolexplore::fold(&mut r, &b.name, &out, &m.alphabet[..3]);
        if !r.violations.is_empty() {
            break;
        }
    }
    if r.violations.is_empty() {
        super::c07_twohop::run_part(ctx, &mut r);
    }
    let ld = |a: &AtomicU64| a.load(Ordering::Relaxed);
    r.set("swap_steps_credited_to_positions", ld(&c.steps_credited));
    r.set("tick_crossings", ld(&c.crossings));
    r.set("entitlement_observations", ld(&c.observations));
    r.set("accumulator_wraparounds_during_search", ld(&c.wraps));
    r.guard("swap_steps_credited_to_positions", ld(&c.steps_credited));
    r.guard("tick_crossings", ld(&c.crossings));
    r.guard("entitlement_observations", ld(&c.observations));
    r.guard("observations_with_nonzero_owed", ld(&c.nonzero_owed_seen));
    r.guard("accumulator_wraparounds_during_search", ld(&c.wraps));
    r.guard("states_with_both_same_range_positions_funded", ld(&c.same_range_comparisons));
    r.guard("zero_liquidity_steps", ld(&c.zero_liq_steps));
    r.set("mode", "ledger mode: fingerprint = pool/position/tick-array/vault bytes + exact shadow entitlements, so histories are merged only when indistinguishable");
    r.set("exhaustive", false);
    r.assume("hook H2 reports each step's liquidity, fee and the crossed ticks; the active set is derived from position ranges and those crossings and cross-checked against each step's liquidity");
    r.assume("rounding bound: L_P/2^64 per credited step + 1 per position update, per token");
    r.assume("two-hop part (c07_twohop): the two recorded swap computations are attributed to their pools by (direction, start price, start liquidity); indistinguishable pairs are counted and not judged");
    r
}

pub fn replay(case: &Value) -> Result<(), String> {
    if let Some(r) = super::c07_twohop::replay_part(case) {
        return r;
    }
    let ws = worlds(true);
    let name = case["world"].as_str().ok_or("world")?;
    let wd = ws.iter().find(|w| w.b.name == name).ok_or("unknown world")?;
    let b = &wd.b;
    let c = mk_counters();
    let m = M { w: &b.w, alphabet: alphabet(&b.w), c: &c };
    if case["kind"].as_str() == Some("root") {
        return root_states(wd, &m).map(|_| ());
    }
    let root = case["root"].as_str().ok_or("root")?;
    let named = root_states(wd, &m)?;
    let mut cur = named.iter().find(|r| r.0 == root).ok_or("unknown root")?.1.clone();
    let path: Vec<Op> = serde_json::from_value(case["ops"].clone()).map_err(|e| e.to_string())?;
    m.check_state(&cur)?;
    for op in &path {
        match m.step(&cur, op)? {
            None => return Ok(()),
            Some(n) => {
                m.check_state(&n)?;
                cur = n;
            }
        }
    }
    Ok(())
}
