//! C03 — swaps honour amount, price-limit and slippage bounds (DESIGN §3 C03). Engine A, graph mode: every swap
//! transition from every state reached by liquidity/swap prefixes, judged from real balances; each successful swap is
//! re-executed with thresholds realised-1 / realised / realised+1; must-fail limit variants are executed in every state.
use crate::ops::{self, Lim, Op, Part, Stepped};
use crate::oracles::{self, C03Stats};
use crate::poolexplore::{self, PoolModel};
use crate::refmodel::{MAX_SQRT_PRICE, MIN_SQRT_PRICE};
use crate::report::{Ctx, Report};
use crate::stdworlds::{self, Built};
use crate::world::{self, Enc, StdWorld, SwapArgs};
use serde_json::Value;
use std::sync::Mutex;
use svm::Ledger;

fn worlds(thorough: bool) -> Vec<Built> {
    let roots = stdworlds::std_roots();
    let mut v = vec![stdworlds::build_with_roots(&stdworlds::std_spec("c03-std", [Enc::Dynamic, Enc::Fixed, Enc::Dynamic], 3000, 300), &roots[1..])];
    let splash_roots: Vec<(&'static str, Vec<Op>)> = vec![("funded", vec![Op::Inc { pos: 0, liq: 1_000_000, v2: false }, Op::Inc { pos: 1, liq: 7, v2: true }])];
    v.push(stdworlds::build_with_roots(&stdworlds::splash_spec("c03-splash"), &splash_roots));
    // either token program: Token-2022 mints with different transfer fees (thresholds apply to what the trader receives / pays)
    v.push(stdworlds::build_with_roots(&stdworlds::t22_spec("c03-t22", 100, 5_000, 5_000, u64::MAX), if thorough { &roots[1..3] } else { &roots[1..2] }));
    // a transfer-fee change pending on both mints: the Epoch op walks through the epoch before the newer schedule, the epoch it
    // starts and the one after; thresholds must hold for what the trader really receives / pays under the schedule in force
    let mut eve = roots[1].1.clone();
    eve.push(Op::SetTransferFee { a: true, bps: 700, max: 2_000_000 });
    eve.push(Op::SetTransferFee { a: false, bps: 20, max: 55 });
    eve.push(Op::Epoch(1));
    let sched_roots: Vec<(&'static str, Vec<Op>)> = vec![("fee-change-pending", eve)];
    v.push(stdworlds::build_with_roots(&stdworlds::t22_spec("c03-t22-sched", 100, 5_000, 5_000, u64::MAX), &sched_roots));
    if thorough {
        let ts1_roots: Vec<(&'static str, Vec<Op>)> = vec![(
            "funded",
            vec![Op::Inc { pos: 0, liq: stdworlds::BIG * 1000, v2: false }, Op::Inc { pos: 1, liq: stdworlds::BIG * 100, v2: true }, Op::Inc { pos: 2, liq: stdworlds::BIG * 100, v2: true }],
        )];
        v.push(stdworlds::build_with_roots(&stdworlds::ts1_spec("c03-ts1"), &ts1_roots));
    }
    v
}

fn alphabet(b: &Built) -> Vec<Op> {
    let v1 = b.w.pool.is_v1_capable();
    let mut a = vec![];
    if b.name.contains("sched") {
        a.push(Op::Epoch(1));
    }
    for a_to_b in [true, false] {
        for (i, (exact_in, amount, lim)) in [
            (true, 1_000_000u64, Lim::None),
            (false, 100_000, Lim::None),
            (true, 20_000_000, Lim::None),
            (true, u64::MAX >> 8, Lim::NextTick),
            (false, 50_000_000, Lim::Mid),
            (true, 50_000_000, Lim::Mid),
            (true, u64::MAX >> 8, Lim::Bound),
            (false, u64::MAX >> 8, Lim::None), // exact-out beyond the pool's reserves without a limit: must fail, never partially fill
            (false, u64::MAX >> 8, Lim::Bound), // the same with an explicit limit: partial fill ending exactly on the bound
            (true, 1, Lim::None),
            (false, 1, Lim::None),
        ]
        .into_iter()
        .enumerate()
        {
            a.push(Op::Swap { a_to_b, exact_in, amount, lim, v2: !v1 || (i % 2 == 0) == a_to_b });
        }
    }
    a.push(Op::Dec { pos: 2, part: Part::All, v2: !v1 });
    a.push(Op::Dec { pos: 0, part: Part::All, v2: true });
    a.push(Op::Inc { pos: 1, liq: 77_777, v2: true });
    a
}

fn model<'a>(b: &'a Built, stats: &'a Mutex<C03Stats>) -> PoolModel<'a> {
    PoolModel::new(
        &b.w,
        alphabet(b),
        Box::new(move |l: &Ledger, w: &StdWorld| {
            // must-fail limit variants, executed in every distinct state
            let st = w.pool.state(l);
            let v2 = !w.pool.is_v1_capable();
            let mut n = 0;
            for a_to_b in [true, false] {
                let bad_limits = [
                    st.sqrt_price,                                                     // equal to the current price
                    if a_to_b { st.sqrt_price + 1 } else { st.sqrt_price - 1 },       // wrong side
                    if a_to_b { MIN_SQRT_PRICE - 1 } else { MAX_SQRT_PRICE + 1 },     // out of bounds
                ];
                for lim in bad_limits {
                    for exact_in in [true, false] {
                        let args = SwapArgs { amount: 1000, other_amount_threshold: if exact_in { 0 } else { u64::MAX }, sqrt_price_limit: lim, amount_specified_is_input: exact_in, a_to_b };
                        let tas = world::swap_tick_arrays(&w.pool, st.tick_current_index, a_to_b);
                        let mut c = l.clone();
                        let o = svm::process(&mut c, &world::ix_swap(&w.pool, &w.trader, args, tas, v2 || exact_in, &[]));
                        n += 1;
                        if o.ok() {
                            return Err(format!("swap with invalid price limit {lim} (current {}, a_to_b {a_to_b}) succeeded", st.sqrt_price));
                        }
                    }
                }
            }
            stats.lock().unwrap().must_fail_variants += n;
            Ok(())
        }),
        Box::new(move |pre: &Ledger, st: &Stepped, w: &StdWorld, op: &Op| match op {
            Op::Swap { a_to_b, exact_in, amount, lim, v2 } => {
                let limit = ops::resolve_limit(pre, &w.pool, *a_to_b, *lim);
                let p0 = w.pool.state(pre);
                let tas = world::swap_tick_arrays(&w.pool, p0.tick_current_index, *a_to_b);
                let ix_of = |th: u64| {
                    let args = SwapArgs { amount: *amount, other_amount_threshold: th, sqrt_price_limit: limit, amount_specified_is_input: *exact_in, a_to_b: *a_to_b };
                    world::ix_swap(&w.pool, &w.trader, args, tas, *v2, &[])
                };
                let mut local = C03Stats::default();
                let res = oracles::c03_swap_oracle(pre, &st.ledger, w, *a_to_b, *exact_in, *amount, limit, &ix_of, &mut local);
                let mut g = stats.lock().unwrap();
                g.swaps_ok += local.swaps_ok;
                g.partial_fills += local.partial_fills;
                g.threshold_reruns += local.threshold_reruns;
                g.threshold_failures_seen += local.threshold_failures_seen;
                res
            }
            _ => Ok(()),
        }),
    )
}

pub fn run(ctx: &Ctx) -> Report {
    let mut r = Report::new("C03", "model_checking");
    let ws = worlds(!ctx.tier.is_quick());
    let share = ctx.budget_s * 0.95 / ws.len() as f64;
    let stats = Mutex::new(C03Stats::default());
    for b in &ws {
        let m = model(b, &stats);
        let out = poolexplore::run_world(ctx, &mut r, b, &m, ctx.depth(3, 5), share);
        poolexplore::fold(&mut r, &b.name, &out, &m.alphabet[..3]);
        if !r.violations.is_empty() {
            break;
        }
    }
    if r.violations.is_empty() {
        super::c03_twohop::run_part(ctx, &mut r);
    }
    let s = stats.lock().unwrap().clone();
    r.set("successful_swaps_checked", s.swaps_ok);
    r.set("threshold_reexecutions", s.threshold_reruns);
    r.guard("successful_swaps_checked", s.swaps_ok);
    r.guard("partial_fills", s.partial_fills);
    r.guard("threshold_failures_seen", s.threshold_failures_seen);
    r.guard("must_fail_limit_variants", s.must_fail_variants);
    r.set("exhaustive", false);
    r.assume("svm-lite faithfully replaces the validator (DESIGN §2.1); balances are moved by the real SPL Token / Token-2022 processors");
    r.assume("two-hop swaps: every variant in the states of a small three-pool exploration (c03_twohop); the full two-hop == two-single-swaps differential is C17");
    r
}

pub fn replay(case: &Value) -> Result<(), String> {
    if let Some(r) = super::c03_twohop::replay_part(case) {
        return r;
    }
    let ws = worlds(true);
    let name = case["world"].as_str().ok_or("world")?;
    let b = ws.iter().find(|b| b.name == name).ok_or("unknown world")?;
    let stats = Mutex::new(C03Stats::default());
    let m = model(b, &stats);
    poolexplore::replay_ops(b, &m, case["root"].as_str().ok_or("root")?, &case["ops"])
}
