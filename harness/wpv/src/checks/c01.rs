//! C01 — pool solvency (DESIGN §3 C01). Engine A: explicit-state search over W-std / W-splash / ts=1 worlds.
//! State oracle: vault >= all claims (pending fees credited through a real update on a copy); drain in every order;
//! second phase (ledger mode): no swap-only sequence leaves the trader with more of one token and no less of the other.
use crate::explore::{self, Limits, Model};
use crate::ops::{self, Op};
use crate::oracles;
use crate::poolexplore::{self, PoolModel};
use crate::report::{Ctx, Report};
use crate::stdworlds::{self, Built};
use crate::world::{balance, Enc, StdWorld};
use serde_json::{json, Value};
use std::sync::atomic::{AtomicU64, Ordering};
use svm::Ledger;

fn worlds(thorough: bool) -> Vec<Built> {
    let mut v = vec![stdworlds::build_with_roots(&stdworlds::std_spec("c01-std-dff", [Enc::Dynamic, Enc::Fixed, Enc::Fixed], 3000, 300), &stdworlds::std_roots())];
    v.push(stdworlds::build_with_roots(&stdworlds::chain_spec("c01-chain-fdd-bump0", [Enc::Fixed, Enc::Dynamic, Enc::Dynamic], 60000, 2500), &stdworlds::chain_roots()));
    v.push(stdworlds::build_with_roots(&stdworlds::chain_spec("c01-dust-dfd", [Enc::Dynamic, Enc::Fixed, Enc::Dynamic], 3000, 2500), &stdworlds::dust_roots()));
    // a position bound exactly on a tick-array edge (tick 5632 = slot 0 of the next array), roots just below / just above it
    // (all three arrays variable-size: a bound on the edge booked through the neighbouring array has room there)
    v.push(stdworlds::build_with_roots(&stdworlds::edge_spec("c01-edge-ddd", [Enc::Dynamic, Enc::Dynamic, Enc::Dynamic]), &stdworlds::edge_roots()));
    if thorough {
        v.push(stdworlds::build_with_roots(&stdworlds::edge_spec("c01-edge-dfd", [Enc::Dynamic, Enc::Fixed, Enc::Dynamic]), &stdworlds::edge_roots()));
        v.push(stdworlds::build_with_roots(&stdworlds::chain_spec_at("c01-chain-low", [Enc::Dynamic, Enc::Dynamic, Enc::Fixed], 3000, 300, -112640), &stdworlds::chain_roots()));
        v.push(stdworlds::build_with_roots(&stdworlds::chain_spec_at("c01-chain-high", [Enc::Fixed, Enc::Dynamic, Enc::Dynamic], 100, 2500, 225280), &stdworlds::chain_roots()));
        v.push(stdworlds::build_with_roots(&stdworlds::std_spec("c01-std-fdd", [Enc::Fixed, Enc::Dynamic, Enc::Dynamic], 60000, 2500), &stdworlds::std_roots()[1..4]));
    }
    if thorough {
        let splash_roots: Vec<(&'static str, Vec<Op>)> = vec![
            ("fresh", vec![]),
            ("funded", vec![Op::Inc { pos: 0, liq: stdworlds::BIG, v2: false }, Op::Inc { pos: 1, liq: 7, v2: true }]),
        ];
        v.push(stdworlds::build_with_roots(&stdworlds::splash_spec("c01-splash"), &splash_roots));
        let ts1_roots: Vec<(&'static str, Vec<Op>)> = vec![
            ("fresh", vec![]),
            ("funded", vec![Op::Inc { pos: 0, liq: stdworlds::BIG * 1000, v2: false }, Op::Inc { pos: 1, liq: stdworlds::BIG * 100, v2: true }, Op::Inc { pos: 2, liq: stdworlds::BIG * 100, v2: true }]),
        ];
        v.push(stdworlds::build_with_roots(&stdworlds::ts1_spec("c01-ts1"), &ts1_roots));
    }
    v
}

fn alphabet(b: &Built) -> Vec<Op> {
    stdworlds::shift_repos(alphabet0(b), stdworlds::origin_of(&b.w))
}

fn alphabet0(b: &Built) -> Vec<Op> {
    let n = b.w.positions.len() as u8;
    if b.name.contains("dust") {
        stdworlds::dust_alphabet(n)
    } else if b.name.contains("edge") {
        // deposits that name the array BEFORE the one holding a bound that is the first tick of its array (must be refused: the
        // tick is not in that array; accepted, the liquidity is booked where no swap looks and never leaves the pool's total)
        let mut a = stdworlds::std_alphabet(n, false);
        a.push(Op::IncTa { pos: 1, liq: stdworlds::BIG / 4, lower_shift: 0, upper_shift: -1, v2: true });
        a.push(Op::IncTa { pos: 2, liq: stdworlds::BIG / 4, lower_shift: -1, upper_shift: 0, v2: false });
        a
    } else {
        stdworlds::std_alphabet(n, false)
    }
}

struct Counters {
    vault_checks: AtomicU64,
    drains: AtomicU64,
    drain_instructions: AtomicU64,
}

fn model<'a>(b: &'a Built, c: &'a Counters, drain_every: u128) -> PoolModel<'a> {
    PoolModel::new(
        &b.w,
        alphabet(b),
        Box::new(move |l: &Ledger, w: &StdWorld| {
            c.vault_checks.fetch_add(1, Ordering::Relaxed);
            oracles::c01_vault_invariant(l, w)?;
            // the drain in all orders is the expensive oracle: every state whose fingerprint is 0 mod `drain_every`
            if drain_every > 0 && l.fingerprint_of(&ops::core_keys(l, w), false) % drain_every == 0 {
                let n = oracles::c01_drain(l, w)?;
                c.drains.fetch_add(1, Ordering::Relaxed);
                c.drain_instructions.fetch_add(n, Ordering::Relaxed);
            }
            Ok(())
        }),
        Box::new(|_pre, _st, _w, _op| Ok(())),
    )
}

// ---- phase 2: no extraction by swapping back and forth (ledger mode: histories are not merged) ----
struct SwapOnly<'a> {
    w: &'a StdWorld,
    alphabet: Vec<Op>,
    base: (u64, u64),
    seqs: AtomicU64,
    gains_one_side: AtomicU64,
}
impl<'a> Model for SwapOnly<'a> {
    type S = Ledger;
    type O = Op;
    fn fp(&self, s: &Ledger) -> u128 {
        s.fingerprint()
    }
    fn ops(&self, _s: &Ledger) -> Vec<Op> {
        self.alphabet.clone()
    }
    fn step(&self, s: &Ledger, op: &Op) -> Result<Option<Ledger>, String> {
        let st = ops::apply(s, self.w, op);
        if !st.outcome.ok() {
            return Ok(None);
        }
        self.seqs.fetch_add(1, Ordering::Relaxed);
        Ok(Some(st.ledger))
    }
    fn check_state(&self, s: &Ledger) -> Result<(), String> {
        let a = balance(s, &self.w.trader.acct_a) as i128 - self.base.0 as i128;
        let b = balance(s, &self.w.trader.acct_b) as i128 - self.base.1 as i128;
        if a > 0 || b > 0 {
            self.gains_one_side.fetch_add(1, Ordering::Relaxed);
        }
        if a >= 0 && b >= 0 && (a > 0 || b > 0) {
            return Err(format!("a party that only swapped ended with delta A = {a}, delta B = {b}"));
        }
        Ok(())
    }
}

/// Collect the distinct states within `depth` of the roots (graph mode) to start swap-only histories from.
fn collect_states(b: &Built, depth: usize, cap: usize) -> Vec<Ledger> {
    let mut seen = std::collections::HashSet::new();
    let mut frontier: Vec<Ledger> = b.roots.iter().map(|r| r.1.clone()).collect();
    let mut all = vec![];
    for l in &frontier {
        if seen.insert(l.fingerprint_of(&ops::core_keys(l, &b.w), false)) {
            all.push(l.clone());
        }
    }
    let alpha = alphabet(b);
    for _ in 0..depth {
        let mut next = vec![];
        for l in &frontier {
            for op in &alpha {
                if matches!(op, Op::Swap { .. }) {
                    continue; // swap prefixes are covered by the swap-only phase itself
                }
                let st = ops::apply(l, &b.w, op);
                if st.outcome.ok() && seen.insert(st.ledger.fingerprint_of(&ops::core_keys(&st.ledger, &b.w), false)) {
                    all.push(st.ledger.clone());
                    next.push(st.ledger);
                    if all.len() >= cap {
                        return all;
                    }
                }
            }
        }
        frontier = next;
    }
    all
}

/// The legacy `initialize_pool` carries a bump argument that is documented as ignored. A pool created with any value there must
/// work like every other pool: positions can be opened and funded, trades settle, and everything can be paid out again (a pool
/// that stored the argument could never sign for its vaults: funds go in and never come out).
fn bump_arg_case(bump: u8) -> Result<(), String> {
    let prev = std::panic::take_hook();
    std::panic::set_hook(Box::new(|_| {}));
    let built = std::panic::catch_unwind(|| {
        let (l, w) = crate::world::build_std(&stdworlds::chain_spec(&format!("c01-arg-bump{bump}"), [Enc::Fixed, Enc::Dynamic, Enc::Dynamic], 3000, 300));
        (l, w)
    });
    std::panic::set_hook(prev);
    let (l, w) = match built {
        Ok(x) => x,
        Err(p) => {
            let msg = p.downcast_ref::<String>().cloned().or_else(|| p.downcast_ref::<&str>().map(|s| s.to_string())).unwrap_or_default();
            return Err(format!("a pool created through the legacy initialize_pool with bump argument {bump} cannot be set up like any other pool: {msg}"));
        }
    };
    let seq = [
        Op::Inc { pos: 0, liq: stdworlds::BIG, v2: false },
        Op::Swap { a_to_b: true, exact_in: true, amount: 1_000_000, lim: crate::ops::Lim::None, v2: false },
        Op::Swap { a_to_b: false, exact_in: true, amount: 1_000_000, lim: crate::ops::Lim::None, v2: true },
        Op::Dec { pos: 0, part: crate::ops::Part::All, v2: true },
        Op::CollectFees { pos: 0, v2: false },
    ];
    let mut cur = l;
    for op in &seq {
        let st = ops::apply(&cur, &w, op);
        if !st.outcome.ok() {
            return Err(format!("on a pool created through the legacy initialize_pool with bump argument {bump}, {op:?} fails: {}", st.outcome.short()));
        }
        cur = st.ledger;
    }
    oracles::c01_vault_invariant(&cur, &w).map(|_| ())
}

/// Aliased accounts: the caller names the pool's OWN vault where its token account belongs (as the source of a swap's input or of a
/// deposit, as the destination of an output, a withdrawal or collected fees — one token or both). Each such instruction is run on
/// a copy of a funded, fee-laden pool through the v1 and the v2 handler. It may be refused (the token program does, when the vault
/// is the SOURCE and the caller is not its owner) or go through as a transfer of the vault to itself; either way the vaults must
/// still cover every claim afterwards, and a swap that paid the caller something must have brought its input into the vault.
fn aliased_accounts_case() -> Result<(u64, u64), String> {
    use crate::ops::{Lim, Part};
    use crate::world::{self, Wallet};
    let (l, w) = world::build_std(&stdworlds::chain_spec("c01-alias", [Enc::Fixed, Enc::Dynamic, Enc::Dynamic], 3000, 300));
    let mut base = l;
    for op in [
        Op::Inc { pos: 0, liq: stdworlds::BIG, v2: false },
        Op::Swap { a_to_b: true, exact_in: true, amount: 2_000_000, lim: Lim::None, v2: false },
        Op::Swap { a_to_b: false, exact_in: true, amount: 3_000_000, lim: Lim::None, v2: true },
    ] {
        let st = ops::apply(&base, &w, &op);
        if !st.outcome.ok() {
            return Err(format!("machinery: set-up op {op:?} failed: {}", st.outcome.short()));
        }
        base = st.ledger;
    }
    oracles::c01_vault_invariant(&base, &w)?;
    let alias = |wal: &Wallet, a: bool, b: bool| Wallet { owner: wal.owner, acct_a: if a { w.pool.vault_a } else { wal.acct_a }, acct_b: if b { w.pool.vault_b } else { wal.acct_b } };
    let (mut refused, mut accepted) = (0u64, 0u64);
    let mut judge = |what: String, ix: solana_program::instruction::Instruction, payer: &Wallet, swap_in_is_a: Option<bool>| -> Result<(), String> {
        let mut post = base.clone();
        let out = svm::process(&mut post, &ix);
        if !out.ok() {
            refused += 1;
            return Ok(());
        }
        accepted += 1;
        oracles::c01_vault_invariant(&post, &w).map_err(|e| format!("{what} was accepted and afterwards {e}"))?;
        if let Some(in_a) = swap_in_is_a {
            let (vin, real_out) = if in_a { (w.pool.vault_a, payer.acct_b) } else { (w.pool.vault_b, payer.acct_a) };
            let gained = balance(&post, &real_out).saturating_sub(balance(&base, &real_out));
            let arrived = balance(&post, &vin).saturating_sub(balance(&base, &vin));
            if gained > 0 && arrived == 0 {
                return Err(format!("{what} was accepted: the caller received {gained} of the output token although nothing arrived in the input vault"));
            }
        }
        Ok(())
    };
    let st = w.pool.state(&base);
    for (ea, eb) in [(true, false), (false, true), (true, true)] {
        for v2 in [false, true] {
            for a_to_b in [true, false] {
                for exact_in in [true, false] {
                    let args = world::SwapArgs {
                        amount: 1_000_000,
                        other_amount_threshold: if exact_in { 0 } else { u64::MAX },
                        sqrt_price_limit: 0,
                        amount_specified_is_input: exact_in,
                        a_to_b,
                    };
                    let tas = world::swap_tick_arrays(&w.pool, st.tick_current_index, a_to_b);
                    let ix = world::ix_swap(&w.pool, &alias(&w.trader, ea, eb), args, tas, v2, &[]);
                    judge(format!("swap{} (a_to_b={a_to_b}, exact_in={exact_in}) naming the pool's vault as the trader's token account (A: {ea}, B: {eb})", if v2 { "_v2" } else { "" }), ix, &w.trader, Some(a_to_b))?;
                }
            }
            let pos = w.positions[0].at(&base);
            let lp = alias(&w.lp, ea, eb);
            judge(format!("increase_liquidity{} naming the pool's vault as the owner's token account (A: {ea}, B: {eb})", if v2 { "_v2" } else { "" }), world::ix_increase(&pos, &lp, 1_000_000, u64::MAX, u64::MAX, v2), &w.lp, None)?;
            judge(format!("decrease_liquidity{} paying into the pool's own vault (A: {ea}, B: {eb})", if v2 { "_v2" } else { "" }), world::ix_decrease(&pos, &lp, Part::Half.amount(pos.state(&base).liquidity), 0, 0, v2), &w.lp, None)?;
            judge(format!("collect_fees{} paying into the pool's own vault (A: {ea}, B: {eb})", if v2 { "_v2" } else { "" }), world::ix_collect_fees(&pos, &lp, v2), &w.lp, None)?;
        }
    }
    Ok((refused, accepted))
}

/// An adaptive-fee pool (its address is derived from a fee-tier index that differs from its tick spacing) pays out like any other
/// pool: deposits, trades, withdrawals through both decrease instructions and the reposition instruction, fee collection.
fn adaptive_pool_case() -> Result<u64, String> {
    use super::c20_world as cw;
    let spec = cw::AfSpec {
        label: "c01-adaptive".into(),
        tick_spacing: 64,
        fee_tier_index: 1024 + 64,
        base_fee_rate: 3000,
        protocol_fee_rate: 300,
        filter_period: 30,
        decay_period: 600,
        reduction_factor: 5000,
        control_factor: 1500,
        max_volatility_accumulator: 350_000,
        tick_group_size: 64,
        major_swap_threshold_ticks: 64,
        trade_enable_in: None,
        sqrt_price: stdworlds::P0,
        arrays: vec![(-1, Enc::Dynamic), (0, Enc::Fixed), (1, Enc::Dynamic)],
        positions: vec![(-128, 128, false), (128, 5696, true), (-5632, 5696, false)],
    };
    let (l, w) = cw::build_af(&spec);
    let seq = [
        Op::Inc { pos: 0, liq: stdworlds::BIG, v2: true },
        Op::Inc { pos: 1, liq: stdworlds::BIG, v2: false },
        Op::Inc { pos: 2, liq: stdworlds::BIG / 2, v2: true },
        Op::Swap { a_to_b: false, exact_in: true, amount: 20_000_000, lim: crate::ops::Lim::None, v2: true },
        Op::Swap { a_to_b: true, exact_in: true, amount: 9_000_000, lim: crate::ops::Lim::None, v2: true },
        Op::Dec { pos: 0, part: crate::ops::Part::Half, v2: false },
        Op::Dec { pos: 0, part: crate::ops::Part::All, v2: true },
        Op::Repos { pos: 1, lower: 192, upper: 5696, liq: 12_345 },
        Op::Dec { pos: 2, part: crate::ops::Part::All, v2: false },
        Op::CollectFees { pos: 0, v2: true },
        Op::CollectFees { pos: 2, v2: false },
    ];
    let mut cur = l;
    let mut n = 0;
    for op in &seq {
        let st = ops::apply(&cur, &w, op);
        if !st.outcome.ok() {
            return Err(format!("on an adaptive-fee pool (fee-tier index 1088, tick spacing 64), {op:?} fails: {}", st.outcome.short()));
        }
        cur = st.ledger;
        oracles::c01_vault_invariant(&cur, &w).map_err(|e| format!("adaptive-fee pool after {op:?}: {e}"))?;
        n += 1;
    }
    Ok(n)
}

pub fn run(ctx: &Ctx) -> Report {
    let mut r = Report::new("C01", "model_checking");
    let thorough = !ctx.tier.is_quick();
    match adaptive_pool_case() {
        Ok(n) => r.guard("adaptive_fee_pool_operations_paid_out", n),
        Err(e) => {
            r.violation("adaptive_pool".into(), e, json!({"kind": "adaptive_pool"}));
            return r;
        }
    }
    match aliased_accounts_case() {
        Ok((refused, accepted)) => {
            r.guard("instructions_naming_the_pools_vault_refused", refused);
            r.guard("instructions_naming_the_pools_vault_accepted_and_judged", accepted);
        }
        Err(e) => {
            r.violation("aliased_accounts".into(), e, json!({"kind": "aliased_accounts"}));
            return r;
        }
    }
    let mut bump_cases = 0u64;
    for bump in [0u8, 1, 255] {
        bump_cases += 1;
        if let Err(e) = bump_arg_case(bump) {
            r.violation(format!("bump_arg/{bump}"), e, json!({"kind": "bump_arg", "bump": bump}));
            r.set("pools_created_with_arbitrary_bump_argument", bump_cases);
            return r;
        }
    }
    r.set("pools_created_with_arbitrary_bump_argument", bump_cases);
    let ws = worlds(thorough);
    let share = ctx.budget_s * 0.75 / ws.len() as f64;
    let counters = Counters { vault_checks: AtomicU64::new(0), drains: AtomicU64::new(0), drain_instructions: AtomicU64::new(0) };
    let max_depth = ctx.depth(3, 6);
    for b in &ws {
        let m = model(b, &counters, ctx.pick(4, 16));
        let out = poolexplore::run_world(ctx, &mut r, b, &m, max_depth, share);
        poolexplore::fold(&mut r, &b.name, &out, &m.alphabet[..3.min(m.alphabet.len())]);
        if !r.violations.is_empty() {
            break;
        }
    }
    // phase 2
    let mut swap_states = 0u64;
    let mut swap_seqs = 0u64;
    let mut one_side = 0u64;
    if r.violations.is_empty() {
        let k = ctx.pick(3, 5);
        for b in ws.iter().take(ctx.pick(1, 2)) {
            let starts = collect_states(b, ctx.pick(1, 2), ctx.pick(40, 400));
            let per = (ctx.left() * 0.8 / starts.len() as f64).max(0.2);
            for (i, s) in starts.iter().enumerate() {
                if ctx.left() < 1.0 {
                    r.set("swap_only_cap_hit", format!("wall budget after {i} of {} start states", starts.len()));
                    break;
                }
                let m = SwapOnly {
                    w: &b.w,
                    alphabet: stdworlds::swap_alphabet(),
                    base: (balance(s, &b.w.trader.acct_a), balance(s, &b.w.trader.acct_b)),
                    seqs: AtomicU64::new(0),
                    gains_one_side: AtomicU64::new(0),
                };
                let (st, found) = explore::explore(&m, &[s.clone()], &Limits { max_depth: k, budget_s: per, max_states: 5_000_000 });
                swap_states += st.states;
                swap_seqs += m.seqs.load(Ordering::Relaxed);
                one_side += m.gains_one_side.load(Ordering::Relaxed);
                if let Some(f) = found {
                    r.violation(
                        format!("{}/swap-only/{}/{}", b.name, i, serde_json::to_string(&f.path).unwrap()),
                        f.detail,
                        json!({"kind":"swap_only","world": b.name, "start": i, "ops": serde_json::to_value(&f.path).unwrap()}),
                    );
                    break;
                }
            }
        }
        r.set("swap_only_depth", k as u64);
    }
    r.add("states", swap_states);
    r.add("transitions", swap_seqs);
    r.set("swap_only_states", swap_states);
    r.set("swap_only_successful_swaps", swap_seqs);
    r.set("vault_invariant_evaluations", counters.vault_checks.load(Ordering::Relaxed));
    r.set("drains_all_orders", counters.drains.load(Ordering::Relaxed));
    r.set("drain_instructions", counters.drain_instructions.load(Ordering::Relaxed));
    r.guard("vault_invariant_evaluations", counters.vault_checks.load(Ordering::Relaxed));
    r.guard("drains_all_orders", counters.drains.load(Ordering::Relaxed));
    r.guard("swap_only_states_with_one_sided_gain", one_side);
    r.set("exhaustive", false);
    r.assume("svm-lite faithfully replaces the validator (DESIGN §2.1); SPL Token processors are the real ones");
    r.assume("alphabets and depth bound as listed under `worlds`; drains in all orders are run on every state whose fingerprint is 0 mod 4 (quick) / 16 (thorough)");
    r
}

pub fn replay(case: &Value) -> Result<(), String> {
    if case["kind"].as_str() == Some("adaptive_pool") {
        return adaptive_pool_case().map(|_| ());
    }
    if case["kind"].as_str() == Some("aliased_accounts") {
        return aliased_accounts_case().map(|_| ());
    }
    if case["kind"].as_str() == Some("bump_arg") {
        return bump_arg_case(case["bump"].as_u64().ok_or("bump")? as u8);
    }
    let ws = worlds(true);
    let name = case["world"].as_str().ok_or("world")?;
    let b = ws.iter().find(|b| b.name == name).ok_or("unknown world")?;
    let counters = Counters { vault_checks: AtomicU64::new(0), drains: AtomicU64::new(0), drain_instructions: AtomicU64::new(0) };
    match case["kind"].as_str() {
        Some("ops") => {
            let m = model(b, &counters, 1);
            poolexplore::replay_ops(b, &m, case["root"].as_str().ok_or("root")?, &case["ops"])
        }
        Some("swap_only") => {
            let starts = collect_states(b, 2, 400);
            let s = starts.get(case["start"].as_u64().ok_or("start")? as usize).ok_or("start index")?;
            let m = SwapOnly { w: &b.w, alphabet: vec![], base: (balance(s, &b.w.trader.acct_a), balance(s, &b.w.trader.acct_b)), seqs: AtomicU64::new(0), gains_one_side: AtomicU64::new(0) };
            let path: Vec<Op> = serde_json::from_value(case["ops"].clone()).map_err(|e| e.to_string())?;
            let mut cur = s.clone();
            for op in &path {
                match m.step(&cur, op)? {
                    None => return Ok(()),
                    Some(n) => {
                        m.check_state(&n)?;
                        cur = n;
                    }
                }
            }
            Ok(())
        }
        _ => Err("bad case".into()),
    }
}
