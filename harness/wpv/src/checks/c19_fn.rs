//! C19, table / function-level part: mint admission, adaptive-fee constant validity, bounds of the setters.
//!
//! (1) every combination of Token-2022 mint extensions (built with the REAL Token-2022 processor where the
//!     processor permits the combination, otherwise as a TLV image assembled from entries harvested from real
//!     mints) x DefaultAccountState variant x freeze authority x token-badge state, evaluated with the real
//!     `is_supported_token_mint` / `is_token_badge_initialized` / `verify_supported_token_mint` over real
//!     `InterfaceAccount<Mint>` / `UncheckedAccount` objects, against an admission table written here by
//!     extension TYPE NUMBER (independent of the program's enum);
//! (2) representatives of every verdict class through the real `initialize_pool_v2` / `initialize_reward_v2`;
//! (3) `AdaptiveFeeConstants::validate_constants` (+ the tier setter) over a full cross product of boundary values;
//! (4) all 65 536 values through every fee-rate setter.
#![allow(clippy::too_many_arguments, clippy::type_complexity)]
use crate::decode;
use crate::refmodel::{MAX_SQRT_PRICE, MIN_SQRT_PRICE};
use crate::report::{Ctx, Report};
use crate::world::{self, Config, PoolRef, RICH, T22, TOKEN, WP};
use anchor_lang::prelude::{Account, AccountInfo, InterfaceAccount, UncheckedAccount};
use anchor_lang::{AccountSerialize, InstructionData, ToAccountMetas};
use anchor_spl::token_interface::Mint as IfMint;
use rayon::prelude::*;
use serde_json::{json, Value};
use sha2::{Digest, Sha256};
use solana_program::{
    instruction::{AccountMeta, Instruction},
    program_error::ProgramError,
    program_option::COption,
    program_pack::Pack,
    pubkey::Pubkey,
    system_program,
};
use std::collections::{BTreeMap, HashMap, HashSet};
use std::panic::{catch_unwind, AssertUnwindSafe};
use svm::{keys::key, Acct, Ledger};
use whirlpool::accounts as wa;
use whirlpool::instruction as wi;
use whirlpool::state::{AdaptiveFeeConstants, AdaptiveFeeTier, FeeTier, Whirlpool, WhirlpoolControlFlags, WhirlpoolsConfig};

// ------------------------------------------------------------------------------------------------
// bounds, restated from the property text (NOT imported from the program)
// ------------------------------------------------------------------------------------------------
/// 6 % of the fee-rate denominator 1 000 000 (hundredths of a basis point)
const FEE_RATE_BOUND: u16 = 60_000;
/// 25 % of the protocol-fee denominator 10 000 (basis points of the fee)
const PROTOCOL_FEE_RATE_BOUND: u16 = 2_500;
const ERR_UNSUPPORTED_TOKEN_MINT: u32 = 6047;

// ------------------------------------------------------------------------------------------------
// extension atoms
// ------------------------------------------------------------------------------------------------
#[derive(Clone, Copy, Debug, PartialEq, Eq)]
enum Atom {
    TransferFee,
    MintClose,
    CtMint,
    NonTransferable,
    InterestBearing,
    PermDelegate,
    TransferHook,
    MetadataPointer,
    GroupPointer,
    GroupMemberPointer,
    CtFee,
    ScaledUi,
    Pausable,
    TokenMetadata,
    TokenGroup,
    TokenGroupMember,
    ConfMintBurn,
}
use Atom::*;
const ATOMS: [Atom; 17] = [
    TransferFee,
    MintClose,
    CtMint,
    NonTransferable,
    InterestBearing,
    PermDelegate,
    TransferHook,
    MetadataPointer,
    GroupPointer,
    GroupMemberPointer,
    CtFee,
    ScaledUi,
    Pausable,
    TokenMetadata,
    TokenGroup,
    TokenGroupMember,
    ConfMintBurn,
];
const N_ATOMS: usize = ATOMS.len();
const DAS_TYPE: u16 = 6;

impl Atom {
    fn bit(self) -> u32 {
        1 << ATOMS.iter().position(|a| *a == self).unwrap()
    }
    /// TLV type number as published in the Token-2022 ExtensionType table.
    fn type_no(self) -> u16 {
        match self {
            TransferFee => 1,
            MintClose => 3,
            CtMint => 4,
            NonTransferable => 9,
            InterestBearing => 10,
            PermDelegate => 12,
            TransferHook => 14,
            CtFee => 16,
            MetadataPointer => 18,
            TokenMetadata => 19,
            GroupPointer => 20,
            TokenGroup => 21,
            GroupMemberPointer => 22,
            TokenGroupMember => 23,
            ConfMintBurn => 24,
            ScaledUi => 25,
            Pausable => 26,
        }
    }
    fn name(self) -> &'static str {
        match self {
            TransferFee => "TransferFeeConfig",
            MintClose => "MintCloseAuthority",
            CtMint => "ConfidentialTransferMint",
            NonTransferable => "NonTransferable",
            InterestBearing => "InterestBearingConfig",
            PermDelegate => "PermanentDelegate",
            TransferHook => "TransferHook",
            MetadataPointer => "MetadataPointer",
            GroupPointer => "GroupPointer",
            GroupMemberPointer => "GroupMemberPointer",
            CtFee => "ConfidentialTransferFeeConfig",
            ScaledUi => "ScaledUiAmount",
            Pausable => "Pausable",
            TokenMetadata => "TokenMetadata",
            TokenGroup => "TokenGroup",
            TokenGroupMember => "TokenGroupMember",
            ConfMintBurn => "ConfidentialMintBurn",
        }
    }
    /// initialised after InitializeMint (variable-length / interface instructions)
    fn is_post(self) -> bool {
        matches!(self, TokenMetadata | TokenGroup | TokenGroupMember)
    }
    /// atoms that must accompany this one for the Token-2022 processor to create it
    fn deps(self) -> u32 {
        match self {
            CtFee => TransferFee.bit() | CtMint.bit(),
            ConfMintBurn => CtMint.bit(),
            TokenMetadata => MetadataPointer.bit(),
            TokenGroup => GroupPointer.bit(),
            TokenGroupMember => GroupMemberPointer.bit(),
            _ => 0,
        }
    }
}
fn has(mask: u32, a: Atom) -> bool {
    mask & a.bit() != 0
}
/// My reading of the Token-2022 8.0.1 rules for which combinations its processor will create.
fn t22_feasible(mask: u32) -> bool {
    let (tf, ct, cf) = (has(mask, TransferFee), has(mask, CtMint), has(mask, CtFee));
    if cf != (tf && ct) {
        return false;
    }
    if has(mask, ConfMintBurn) && !ct {
        return false;
    }
    if has(mask, ScaledUi) && has(mask, InterestBearing) {
        return false;
    }
    for a in [TokenMetadata, TokenGroup, TokenGroupMember] {
        if has(mask, a) && mask & a.deps() != a.deps() {
            return false;
        }
    }
    true
}

// ------------------------------------------------------------------------------------------------
// the admission table (oracle), by TLV type number
// ------------------------------------------------------------------------------------------------
#[derive(Clone, Copy, Debug, PartialEq, Eq)]
enum Class {
    Supported,
    BadgeGated,
    Never,
}
fn class_of_type(t: u16) -> Class {
    match t {
        // named by the statement as badge-gated: close authority, default account state, permanent delegate,
        // transfer hook, pausability
        3 | 6 | 12 | 14 | 26 => Class::BadgeGated,
        // the program's published unconditional allow-list (assumption A2): TransferFeeConfig,
        // ConfidentialTransferMint, InterestBearingConfig, ConfidentialTransferFeeConfig, MetadataPointer,
        // TokenMetadata, ScaledUiAmount
        1 | 4 | 10 | 16 | 18 | 19 | 25 => Class::Supported,
        // NonTransferable (9), account-level types, group extensions, ConfidentialMintBurn, unknown numbers
        _ => Class::Never,
    }
}

#[derive(Clone, Debug, Default)]
struct Facts {
    spl: bool,
    native22: bool,
    freeze: bool,
    /// TLV types present (multiset, Uninitialized excluded)
    types: Vec<u16>,
    /// value of the DefaultAccountState extension if present (1 = Initialized, 2 = Frozen)
    das_state: Option<u8>,
    malformed: bool,
}
impl Facts {
    fn gated_present(&self) -> bool {
        self.freeze || self.types.iter().any(|t| class_of_type(*t) == Class::BadgeGated)
    }
    fn never_present(&self) -> bool {
        self.native22 || self.malformed || self.types.iter().any(|t| class_of_type(*t) == Class::Never)
    }
}
/// The refined table (statement + the program's documented stricter DefaultAccountState rule, assumption A3).
fn expect(f: &Facts, badge_valid: bool) -> (bool, &'static str) {
    if f.spl {
        return (true, "spl_mint");
    }
    if f.malformed {
        return (false, "malformed_tlv");
    }
    if f.native22 {
        return (false, "native_2022");
    }
    if f.types.contains(&9) {
        return (false, "non_transferable");
    }
    if f.types.iter().any(|t| class_of_type(*t) == Class::Never) {
        return (false, "unsupported_or_unknown_ext");
    }
    if f.gated_present() && !badge_valid {
        return (false, "needs_badge");
    }
    if let Some(s) = f.das_state {
        if s != 1 && !f.freeze {
            return (false, "frozen_default_without_freeze_authority");
        }
    }
    if f.gated_present() {
        (true, "badge_gated")
    } else if f.types.is_empty() {
        (true, "t22_no_ext")
    } else {
        (true, "t22_supported_ext")
    }
}
/// What the statement itself permits (DefaultAccountState = Initialized is the default state, hence not gated).
fn stmt_allows(f: &Facts, badge_valid: bool) -> bool {
    if f.spl {
        return true;
    }
    if f.never_present() {
        return false;
    }
    let gated = f.freeze
        || f.types.iter().any(|t| *t != DAS_TYPE && class_of_type(*t) == Class::BadgeGated)
        || matches!(f.das_state, Some(s) if s != 1);
    !gated || badge_valid
}

// ------------------------------------------------------------------------------------------------
// mint specifications
// ------------------------------------------------------------------------------------------------
#[derive(Clone, Copy, Debug, PartialEq, Eq, Hash)]
enum Owner {
    Spl,
    SplNative,
    T22,
    T22Native,
}
#[derive(Clone, Copy, Debug, PartialEq, Eq, Hash)]
enum Extra {
    None,
    /// append one TLV entry {type, len, fill byte}
    Append(u16, u16, u8),
    /// 0: drop the last byte (value runs past the end); 1: append type + 1 byte of length; 2: append a bare type;
    /// 3: append one stray byte (well-formed: too short to be a type); 4: last entry's length + 1; 5: last entry's length = 0xffff
    Truncate(u8),
}
#[derive(Clone, Copy, Debug, PartialEq, Eq, Hash)]
struct MintSpec {
    owner: Owner,
    mask: u32,
    das: u8,
    freeze: bool,
    extra: Extra,
}
impl MintSpec {
    fn t22(mask: u32, das: u8, freeze: bool) -> Self {
        MintSpec { owner: Owner::T22, mask, das, freeze, extra: Extra::None }
    }
    fn names(&self) -> Vec<&'static str> {
        let mut v: Vec<&'static str> = ATOMS.iter().filter(|a| has(self.mask, **a)).map(|a| a.name()).collect();
        match self.das {
            1 => v.push("DefaultAccountState(Initialized)"),
            2 => v.push("DefaultAccountState(Frozen)"),
            _ => {}
        }
        v
    }
    fn id(&self) -> String {
        format!("{:?}/m{:05x}/d{}/f{}/{:?}", self.owner, self.mask, self.das, self.freeze as u8, self.extra)
    }
    fn to_json(&self) -> Value {
        json!({
            "owner": match self.owner { Owner::Spl => "spl", Owner::SplNative => "spl_native", Owner::T22 => "t22", Owner::T22Native => "t22_native" },
            "mask": self.mask, "ext": self.names(), "das": self.das, "freeze": self.freeze,
            "extra": match self.extra {
                Extra::None => Value::Null,
                Extra::Append(t, l, f) => json!({"append": [t, l, f]}),
                Extra::Truncate(v) => json!({"truncate": v}),
            }
        })
    }
    fn from_json(v: &Value) -> Option<Self> {
        let owner = match v["owner"].as_str()? {
            "spl" => Owner::Spl,
            "spl_native" => Owner::SplNative,
            "t22" => Owner::T22,
            "t22_native" => Owner::T22Native,
            _ => return None,
        };
        let extra = if let Some(a) = v["extra"]["append"].as_array() {
            Extra::Append(a[0].as_u64()? as u16, a[1].as_u64()? as u16, a[2].as_u64()? as u8)
        } else if let Some(t) = v["extra"]["truncate"].as_u64() {
            Extra::Truncate(t as u8)
        } else {
            Extra::None
        };
        Some(MintSpec { owner, mask: v["mask"].as_u64()? as u32, das: v["das"].as_u64()? as u8, freeze: v["freeze"].as_bool()?, extra })
    }
}

// ------------------------------------------------------------------------------------------------
// token-badge states
// ------------------------------------------------------------------------------------------------
#[derive(Clone, Copy, Debug, PartialEq, Eq, PartialOrd, Ord, Hash)]
enum Badge {
    Absent,
    Valid,
    ValidAttr,
    OtherConfig,
    OtherMint,
    NotOwned,
    WrongDisc,
    Short,
}
const BADGES: [Badge; 8] = [Badge::Absent, Badge::Valid, Badge::ValidAttr, Badge::OtherConfig, Badge::OtherMint, Badge::NotOwned, Badge::WrongDisc, Badge::Short];
impl Badge {
    fn valid(self) -> bool {
        matches!(self, Badge::Valid | Badge::ValidAttr)
    }
    /// program-owned accounts that are not TokenBadge accounts cannot exist at a token_badge PDA; the helper returns
    /// an error for them. Only "never accepted as a badge" is required there.
    fn undeserialisable(self) -> bool {
        matches!(self, Badge::WrongDisc | Badge::Short)
    }
    fn name(self) -> &'static str {
        match self {
            Badge::Absent => "absent",
            Badge::Valid => "valid",
            Badge::ValidAttr => "valid_attr",
            Badge::OtherConfig => "other_config",
            Badge::OtherMint => "other_mint",
            Badge::NotOwned => "not_program_owned",
            Badge::WrongDisc => "wrong_discriminator",
            Badge::Short => "short_data",
        }
    }
    fn from_name(s: &str) -> Option<Self> {
        BADGES.iter().copied().find(|b| b.name() == s)
    }
}
fn disc(name: &str) -> [u8; 8] {
    Sha256::digest(format!("account:{name}").as_bytes())[..8].try_into().unwrap()
}
/// The harness's own serialisation of a TokenBadge account (cross-checked against the real instruction's output).
fn badge_bytes(cfg: &Pubkey, mint: &Pubkey, attr: bool) -> Vec<u8> {
    let mut d = Vec::with_capacity(200);
    d.extend_from_slice(&disc("TokenBadge"));
    d.extend_from_slice(cfg.as_ref());
    d.extend_from_slice(mint.as_ref());
    d.push(attr as u8);
    d.resize(200, 0);
    d
}
fn badge_account(b: Badge, cfg: &Pubkey, other_cfg: &Pubkey, mint: &Pubkey, other_mint: &Pubkey) -> (Pubkey, Vec<u8>) {
    match b {
        Badge::Absent => (system_program::ID, vec![]),
        Badge::Valid => (WP, badge_bytes(cfg, mint, false)),
        Badge::ValidAttr => (WP, badge_bytes(cfg, mint, true)),
        Badge::OtherConfig => (WP, badge_bytes(other_cfg, mint, false)),
        Badge::OtherMint => (WP, badge_bytes(cfg, other_mint, false)),
        Badge::NotOwned => (key("c19/some_other_program"), badge_bytes(cfg, mint, false)),
        Badge::WrongDisc => {
            let mut d = badge_bytes(cfg, mint, false);
            d[..8].copy_from_slice(&disc("FeeTier"));
            (WP, d)
        }
        Badge::Short => (WP, badge_bytes(cfg, mint, false)[..40].to_vec()),
    }
}

// ------------------------------------------------------------------------------------------------
// instruction builders missing from world.rs
// ------------------------------------------------------------------------------------------------
pub fn config_extension_addr(cfg: &Pubkey) -> Pubkey {
    world::pda(&[b"config_extension", cfg.as_ref()]).0
}
pub fn ix_set_token_badge_feature(cfg: &Pubkey, enabled: bool) -> Instruction {
    world::ix(
        wa::SetConfigFeatureFlag { whirlpools_config: *cfg, authority: world::admin() }.to_account_metas(None),
        wi::SetConfigFeatureFlag { feature_flag: whirlpool::state::ConfigFeatureFlag::TokenBadge(enabled) }.data(),
    )
}
pub fn ix_init_config_extension(cfg: &Config, funder: Pubkey) -> Instruction {
    world::ix(
        wa::InitializeConfigExtension {
            config: cfg.addr,
            config_extension: config_extension_addr(&cfg.addr),
            funder,
            fee_authority: cfg.fee_authority,
            system_program: system_program::ID,
        }
        .to_account_metas(None),
        wi::InitializeConfigExtension {}.data(),
    )
}
/// token_badge_authority defaults to the config's fee authority (set by initialize_config_extension).
pub fn ix_init_token_badge(cfg: &Config, funder: Pubkey, mint: Pubkey) -> Instruction {
    world::ix(
        wa::InitializeTokenBadge {
            whirlpools_config: cfg.addr,
            whirlpools_config_extension: config_extension_addr(&cfg.addr),
            token_badge_authority: cfg.fee_authority,
            token_mint: mint,
            token_badge: world::token_badge_addr(&cfg.addr, &mint),
            funder,
            system_program: system_program::ID,
        }
        .to_account_metas(None),
        wi::InitializeTokenBadge {}.data(),
    )
}

// ------------------------------------------------------------------------------------------------
// environment
// ------------------------------------------------------------------------------------------------
struct Env {
    /// programs, sysvars, authorities, group mint, two configs (token-badge feature on, extension initialised), fee tier 64
    base: Ledger,
    cfg_a: Config,
    cfg_b: Config,
    funder: Pubkey,
    mint_key: Pubkey,
    other_mint: Pubkey,
    group_mint: Pubkey,
    /// TLV value per type number harvested from mints created by the real processor
    tpl: BTreeMap<u16, Vec<u8>>,
    /// base + an all-SPL pool used by the reward cases
    e2e: Ledger,
    pool0: PoolRef,
}

fn freeze_key() -> Pubkey {
    key("c19/freeze_authority")
}
fn group_ix_data(name: &str) -> Vec<u8> {
    Sha256::digest(format!("spl_token_group_interface:{name}").as_bytes())[..8].to_vec()
}
fn ix_group_init(group_mint: &Pubkey, authority: &Pubkey) -> Instruction {
    let mut data = group_ix_data("initialize_token_group");
    data.extend_from_slice(authority.as_ref());
    data.extend_from_slice(&u64::MAX.to_le_bytes());
    Instruction {
        program_id: T22,
        accounts: vec![AccountMeta::new(*group_mint, false), AccountMeta::new_readonly(*group_mint, false), AccountMeta::new_readonly(*authority, true)],
        data,
    }
}
fn ix_member_init(member: &Pubkey, authority: &Pubkey, group: &Pubkey) -> Instruction {
    Instruction {
        program_id: T22,
        accounts: vec![
            AccountMeta::new(*member, false),
            AccountMeta::new_readonly(*member, false),
            AccountMeta::new_readonly(*authority, true),
            AccountMeta::new(*group, false),
            AccountMeta::new_readonly(*authority, true),
        ],
        data: group_ix_data("initialize_member"),
    }
}

fn pre_init_ix(a: Atom, mint: &Pubkey) -> (spl_token_2022::extension::ExtensionType, Instruction) {
    use spl_token_2022::extension as x;
    use spl_token_2022::extension::ExtensionType as E;
    use spl_token_2022::solana_zk_sdk::encryption::pod::{auth_encryption::PodAeCiphertext, elgamal::PodElGamalPubkey};
    let auth = world::mint_authority();
    match a {
        TransferFee => (E::TransferFeeConfig, x::transfer_fee::instruction::initialize_transfer_fee_config(&T22, mint, Some(&auth), Some(&auth), 100, 1_000_000).unwrap()),
        MintClose => (E::MintCloseAuthority, spl_token_2022::instruction::initialize_mint_close_authority(&T22, mint, Some(&auth)).unwrap()),
        CtMint => (E::ConfidentialTransferMint, x::confidential_transfer::instruction::initialize_mint(&T22, mint, Some(auth), true, None).unwrap()),
        NonTransferable => (E::NonTransferable, spl_token_2022::instruction::initialize_non_transferable_mint(&T22, mint).unwrap()),
        InterestBearing => (E::InterestBearingConfig, x::interest_bearing_mint::instruction::initialize(&T22, mint, Some(auth), 500).unwrap()),
        PermDelegate => (E::PermanentDelegate, spl_token_2022::instruction::initialize_permanent_delegate(&T22, mint, &auth).unwrap()),
        TransferHook => (E::TransferHook, x::transfer_hook::instruction::initialize(&T22, mint, Some(auth), Some(key("c19/hook_program"))).unwrap()),
        MetadataPointer => (E::MetadataPointer, x::metadata_pointer::instruction::initialize(&T22, mint, Some(auth), Some(*mint)).unwrap()),
        GroupPointer => (E::GroupPointer, x::group_pointer::instruction::initialize(&T22, mint, Some(auth), Some(*mint)).unwrap()),
        GroupMemberPointer => (E::GroupMemberPointer, x::group_member_pointer::instruction::initialize(&T22, mint, Some(auth), Some(*mint)).unwrap()),
        CtFee => (
            E::ConfidentialTransferFeeConfig,
            x::confidential_transfer_fee::instruction::initialize_confidential_transfer_fee_config(&T22, mint, Some(auth), &PodElGamalPubkey::default()).unwrap(),
        ),
        ScaledUi => (E::ScaledUiAmount, x::scaled_ui_amount::instruction::initialize(&T22, mint, Some(auth), 1.5).unwrap()),
        Pausable => (E::Pausable, x::pausable::instruction::initialize(&T22, mint, &auth).unwrap()),
        ConfMintBurn => (
            E::ConfidentialMintBurn,
            x::confidential_mint_burn::instruction::initialize_mint(&T22, mint, &PodElGamalPubkey::default(), &PodAeCiphertext::default()).unwrap(),
        ),
        TokenMetadata | TokenGroup | TokenGroupMember => unreachable!(),
    }
}

/// Create the mint with the real Token-2022 processor inside a copy of `base`. Err = the processor refused.
fn build_real_t22(base: &Ledger, group_mint: &Pubkey, k: Pubkey, mask: u32, das: u8, freeze: bool) -> Result<Vec<u8>, String> {
    use spl_token_2022::extension::ExtensionType;
    let mut l = base.clone();
    let auth = world::mint_authority();
    let mut types = vec![];
    let mut pre = vec![];
    for a in ATOMS {
        if has(mask, a) && !a.is_post() {
            let (t, i) = pre_init_ix(a, &k);
            types.push(t);
            pre.push(i);
        }
    }
    if das > 0 {
        let st = if das == 2 { spl_token_2022::state::AccountState::Frozen } else { spl_token_2022::state::AccountState::Initialized };
        types.push(ExtensionType::DefaultAccountState);
        pre.push(spl_token_2022::extension::default_account_state::instruction::initialize_default_account_state(&T22, &k, &st).unwrap());
    }
    let space = ExtensionType::try_calculate_account_len::<spl_token_2022::state::Mint>(&types).map_err(|e| format!("{e:?}"))?;
    l.put(k, Acct { lamports: 10_000_000_000, data: vec![0u8; space], owner: T22, executable: false });
    for i in &pre {
        svm::process_builtin(&mut l, i)?;
    }
    // a Frozen default state needs a freeze authority at creation; the authority can be removed afterwards
    let create_with_freeze = freeze || das == 2;
    let fk = freeze_key();
    let i = spl_token_2022::instruction::initialize_mint2(&T22, &k, &auth, if create_with_freeze { Some(&fk) } else { None }, 6).unwrap();
    svm::process_builtin(&mut l, &i)?;
    if has(mask, TokenMetadata) {
        let i = anchor_spl::token_2022_extensions::spl_token_metadata_interface::instruction::initialize(
            &T22,
            &k,
            &auth,
            &k,
            &auth,
            "C19 token".to_string(),
            "C19".to_string(),
            "https://example.invalid/c19.json".to_string(),
        );
        svm::process_builtin(&mut l, &i)?;
    }
    if has(mask, TokenGroup) {
        svm::process_builtin(&mut l, &ix_group_init(&k, &auth))?;
    }
    if has(mask, TokenGroupMember) {
        svm::process_builtin(&mut l, &ix_member_init(&k, &auth, group_mint))?;
    }
    if create_with_freeze && !freeze {
        let i = spl_token_2022::instruction::set_authority(&T22, &k, None, spl_token_2022::instruction::AuthorityType::FreezeAccount, &fk, &[]).unwrap();
        svm::process_builtin(&mut l, &i)?;
    }
    Ok(l.data(&k).to_vec())
}

/// The harness's own TLV walk (well-formed images only).
fn tlv_entries(data: &[u8]) -> Vec<(u16, Vec<u8>)> {
    let mut out = vec![];
    let mut c = 166;
    while c + 4 <= data.len() {
        let t = u16::from_le_bytes([data[c], data[c + 1]]);
        let n = u16::from_le_bytes([data[c + 2], data[c + 3]]) as usize;
        if t == 0 || c + 4 + n > data.len() {
            break;
        }
        out.push((t, data[c + 4..c + 4 + n].to_vec()));
        c += 4 + n;
    }
    out
}

fn pack_base_mint(freeze: bool, decimals: u8, authority: Option<Pubkey>) -> Vec<u8> {
    let mut d = vec![0u8; 82];
    spl_token_2022::state::Mint {
        mint_authority: authority.map(COption::Some).unwrap_or(COption::None),
        supply: 0,
        decimals,
        is_initialized: true,
        freeze_authority: if freeze { COption::Some(freeze_key()) } else { COption::None },
    }
    .pack_into_slice(&mut d);
    d
}

impl Env {
    fn new() -> Result<Env, String> {
        catch_unwind(AssertUnwindSafe(Env::build)).map_err(|_| "environment construction panicked".to_string())?
    }
    fn build() -> Result<Env, String> {
        let mut l = world::base_ledger();
        l.put_system(world::mint_authority(), RICH);
        l.put_system(freeze_key(), RICH);
        let funder = key("c19/funder");
        l.put_system(funder, RICH);
        let cfg_a = world::init_config(&mut l, "c19/A", 300);
        let cfg_b = world::init_config(&mut l, "c19/B", 300);
        for c in [&cfg_a, &cfg_b] {
            world::must("set_config_feature_flag", svm::process(&mut l, &ix_set_token_badge_feature(&c.addr, true)));
            world::must("initialize_config_extension", svm::process(&mut l, &ix_init_config_extension(c, funder)));
        }
        world::must("init_fee_tier", svm::process(&mut l, &world::ix_init_fee_tier(&cfg_a, funder, 64, 3000)));
        // group mint for TokenGroupMember
        let group_mint = key("c19/group_mint");
        let g = build_real_t22(&l, &group_mint, group_mint, GroupPointer.bit() | TokenGroup.bit(), 0, false).map_err(|e| format!("group mint: {e}"))?;
        l.put(group_mint, Acct { lamports: 10_000_000_000, data: g, owner: T22, executable: false });
        let base = l.clone();
        let mint_key = key("c19/mint");
        let other_mint = key("c19/other_mint");
        // TLV templates
        let mut tpl = BTreeMap::new();
        for a in ATOMS {
            let m = a.bit() | a.deps();
            let d = build_real_t22(&base, &group_mint, mint_key, m, 0, false).map_err(|e| format!("template for {}: {e}", a.name()))?;
            for (t, v) in tlv_entries(&d) {
                tpl.entry(t).or_insert(v);
            }
            if !tpl.contains_key(&a.type_no()) {
                return Err(format!("template for {} (type {}) not found in the real mint", a.name(), a.type_no()));
            }
        }
        // the SPL pool for reward cases
        let (m1, m2) = (key("c19/p0/mint1"), key("c19/p0/mint2"));
        let (ma, mb) = if m1 < m2 { (m1, m2) } else { (m2, m1) };
        world::create_spl_mint(&mut l, ma, 6, None);
        world::create_spl_mint(&mut l, mb, 6, None);
        let pool0 = world::pool_ref(&l, &cfg_a.addr, "c19/p0", ma, mb, 64, 64);
        world::must("init_pool_v2(p0)", svm::process(&mut l, &world::ix_init_pool_v2(&pool0, funder, 1u128 << 64)));
        Ok(Env { base, cfg_a, cfg_b, funder, mint_key, other_mint, group_mint, tpl, e2e: l, pool0 })
    }

    fn craft_t22(&self, mask: u32, das: u8, freeze: bool, decimals: u8, authority: Option<Pubkey>) -> Vec<u8> {
        let mut d = pack_base_mint(freeze, decimals, authority);
        let mut entries: Vec<(u16, Vec<u8>)> = ATOMS.iter().filter(|a| has(mask, **a)).map(|a| (a.type_no(), self.tpl[&a.type_no()].clone())).collect();
        if das > 0 {
            entries.push((DAS_TYPE, vec![das]));
        }
        if entries.is_empty() {
            return d;
        }
        d.resize(165, 0);
        d.push(1); // AccountType::Mint
        for (t, v) in entries {
            d.extend_from_slice(&t.to_le_bytes());
            d.extend_from_slice(&(v.len() as u16).to_le_bytes());
            d.extend_from_slice(&v);
        }
        if d.len() == 355 {
            d.extend_from_slice(&[0u8; 4]); // never the multisig length
        }
        d
    }
}

struct Built {
    key: Pubkey,
    owner: Pubkey,
    data: Vec<u8>,
    /// created entirely by the real token program
    real: bool,
    facts: Facts,
}

fn build_mint(env: &Env, s: &MintSpec, key_override: Option<Pubkey>) -> Built {
    let mut facts = Facts { freeze: s.freeze, ..Default::default() };
    let k = match s.owner {
        Owner::SplNative => spl_token::native_mint::ID,
        Owner::T22Native => spl_token_2022::native_mint::ID,
        _ => key_override.unwrap_or(env.mint_key),
    };
    match s.owner {
        Owner::Spl | Owner::SplNative => {
            facts.spl = true;
            let (dec, auth) = if s.owner == Owner::SplNative { (9, None) } else { (6, Some(world::mint_authority())) };
            return Built { key: k, owner: TOKEN, data: pack_base_mint(s.freeze, dec, auth), real: false, facts };
        }
        _ => {}
    }
    facts.native22 = s.owner == Owner::T22Native;
    let mut real = false;
    let mut data = vec![];
    if s.owner == Owner::T22Native {
        if s.mask == 0 && s.das == 0 && !s.freeze {
            let mut l = env.base.clone();
            if let Ok(i) = spl_token_2022::instruction::create_native_mint(&T22, &env.funder) {
                if svm::process_builtin(&mut l, &i).is_ok() {
                    data = l.data(&k).to_vec();
                    real = true;
                }
            }
        }
        if !real {
            data = env.craft_t22(s.mask, s.das, s.freeze, 9, None);
        }
    } else {
        match build_real_t22(&env.base, &env.group_mint, k, s.mask, s.das, s.freeze) {
            Ok(d) => {
                data = d;
                real = true;
            }
            Err(_) => data = env.craft_t22(s.mask, s.das, s.freeze, 6, Some(world::mint_authority())),
        }
    }
    for a in ATOMS {
        if has(s.mask, a) {
            facts.types.push(a.type_no());
        }
    }
    if s.das > 0 {
        facts.types.push(DAS_TYPE);
        facts.das_state = Some(s.das);
    }
    match s.extra {
        Extra::None => {}
        Extra::Append(t, len, fill) => {
            real = false;
            if data.len() == 82 {
                data.resize(165, 0);
                data.push(1);
            }
            data.extend_from_slice(&t.to_le_bytes());
            data.extend_from_slice(&len.to_le_bytes());
            data.extend(std::iter::repeat(fill).take(len as usize));
            if t != 0 {
                facts.types.push(t);
                if t == DAS_TYPE && facts.das_state.is_none() {
                    if len == 1 {
                        facts.das_state = Some(fill);
                    } else {
                        facts.malformed = true; // a DefaultAccountState value is exactly one byte
                    }
                }
            }
        }
        Extra::Truncate(v) => {
            real = false;
            let ents = tlv_entries(&data);
            let last_len = ents.last().map(|e| e.1.len()).unwrap_or(0);
            let last_len_off = data.len().saturating_sub(last_len + 2);
            match v {
                0 => {
                    data.pop();
                    facts.malformed = true;
                }
                1 => {
                    data.extend_from_slice(&[1, 0, 4]);
                    facts.malformed = true;
                }
                2 => {
                    data.extend_from_slice(&[1, 0]);
                    facts.malformed = true;
                }
                3 => data.push(1),
                4 => {
                    let n = (last_len as u16).wrapping_add(1);
                    data[last_len_off..last_len_off + 2].copy_from_slice(&n.to_le_bytes());
                    facts.malformed = true;
                }
                _ => {
                    data[last_len_off..last_len_off + 2].copy_from_slice(&0xffffu16.to_le_bytes());
                    facts.malformed = true;
                }
            }
        }
    }
    if data.len() == 355 {
        facts.malformed = true; // indistinguishable from a multisig
    }
    Built { key: k, owner: T22, data, real, facts }
}

// ------------------------------------------------------------------------------------------------
// function-level observation of the real code
// ------------------------------------------------------------------------------------------------
fn err_str(e: anchor_lang::error::Error) -> String {
    match ProgramError::from(e) {
        ProgramError::Custom(c) => format!("custom:{c}"),
        o => format!("{o:?}"),
    }
}

#[derive(Clone, Debug)]
struct BadgeObs {
    badge: Badge,
    /// is_token_badge_initialized
    init: Result<bool, String>,
    /// verify_supported_token_mint
    verify: Result<(), String>,
}
#[derive(Clone, Debug)]
struct MintObs {
    /// InterfaceAccount<Mint>::try_from succeeded
    deser: Result<(), String>,
    /// is_supported_token_mint(mint, false / true)
    sup: [Result<bool, String>; 2],
    badges: Vec<BadgeObs>,
}

fn observe(env: &Env, b: &Built, badges: &[Badge]) -> MintObs {
    let r = catch_unwind(AssertUnwindSafe(|| {
        let cfg = env.cfg_a.addr;
        let mut lam = 1_000_000u64;
        let mut data = b.data.clone();
        let ai = AccountInfo::new(&b.key, false, false, &mut lam, &mut data, &b.owner, false, 0);
        let mint = match InterfaceAccount::<IfMint>::try_from(&ai) {
            Ok(m) => m,
            Err(e) => {
                let m = err_str(e);
                return MintObs {
                    deser: Err(m.clone()),
                    sup: [Err(format!("deser:{m}")), Err(format!("deser:{m}"))],
                    badges: badges.iter().map(|x| BadgeObs { badge: *x, init: Err("deser".into()), verify: Err(format!("deser:{m}")) }).collect(),
                };
            }
        };
        let sup = [
            whirlpool::util::is_supported_token_mint(&mint, false).map_err(err_str),
            whirlpool::util::is_supported_token_mint(&mint, true).map_err(err_str),
        ];
        let mut out = vec![];
        let badge_key = world::token_badge_addr(&cfg, &b.key);
        for x in badges {
            let (owner, mut bd) = badge_account(*x, &cfg, &env.cfg_b.addr, &b.key, &env.other_mint);
            let mut bl = if bd.is_empty() { 0u64 } else { 2_000_000 };
            let bai = AccountInfo::new(&badge_key, false, false, &mut bl, &mut bd, &owner, false, 0);
            let ua = UncheckedAccount::try_from(&bai);
            let init = whirlpool::util::is_token_badge_initialized(cfg, b.key, &ua).map_err(err_str);
            let verify = whirlpool::util::verify_supported_token_mint(&mint, cfg, &ua).map_err(err_str);
            out.push(BadgeObs { badge: *x, init, verify });
        }
        MintObs { deser: Ok(()), sup, badges: out }
    }));
    match r {
        Ok(o) => o,
        Err(_) => MintObs {
            deser: Err("panic".into()),
            sup: [Err("panic".into()), Err("panic".into())],
            badges: badges.iter().map(|x| BadgeObs { badge: *x, init: Err("panic".into()), verify: Err("panic".into()) }).collect(),
        },
    }
}

fn fp_of(b: &Built) -> u128 {
    let mut h = svm::Fp::new();
    h.bytes(b.key.as_ref());
    h.bytes(b.owner.as_ref());
    h.u64(b.data.len() as u64);
    h.bytes(&b.data);
    h.finish()
}

struct MintResult {
    spec: MintSpec,
    real: bool,
    fp: u128,
    /// the code's verdict without / with a badge
    accept: [bool; 2],
    /// table reason without / with a badge
    reason: [&'static str; 2],
    expect: [bool; 2],
    evals: u64,
    stricter_than_statement: u64,
    unconstrained: u64,
    feasibility_surprise: bool,
    /// (key, detail, case)
    problems: Vec<(String, String, Value)>,
}

fn check_mint(env: &Env, s: &MintSpec, badges: &[Badge]) -> MintResult {
    let b = build_mint(env, s, None);
    let o = observe(env, &b, badges);
    let f = &b.facts;
    let mut problems = vec![];
    let case = |badge: Option<Badge>| json!({"kind": "mint", "spec": s.to_json(), "badge": badge.map(|x| x.name())});
    let mut evals = 2u64;
    let mut stricter = 0u64;
    let mut unconstrained = 0u64;

    // the builder produced what the spec says (well-formed images only)
    if !f.spl && !f.malformed {
        let mut got: Vec<u16> = tlv_entries(&b.data).iter().map(|e| e.0).collect();
        let mut want = f.types.clone();
        got.sort();
        want.sort();
        if got != want {
            problems.push((format!("builder:{}", s.id()), format!("harness: mint image has TLV types {got:?}, spec says {want:?}"), case(None)));
        }
        let has_freeze = b.data[46..50] == [1, 0, 0, 0];
        if has_freeze != f.freeze {
            problems.push((format!("builder:{}", s.id()), format!("harness: freeze authority present={has_freeze}, spec says {}", f.freeze), case(None)));
        }
    }
    let feasibility_surprise = s.owner == Owner::T22 && s.extra == Extra::None && b.real != t22_feasible(s.mask);

    let mut accept = [false; 2];
    let mut reason = ["", ""];
    let mut exp = [false; 2];
    for (i, flag) in [false, true].into_iter().enumerate() {
        let got = matches!(o.sup[i], Ok(true));
        let (e, why) = expect(f, flag);
        accept[i] = got;
        reason[i] = why;
        exp[i] = e;
        if e != stmt_allows(f, flag) {
            stricter += 1;
        }
        if got != e {
            let sev = if got && !stmt_allows(f, flag) {
                "ADMITTED against the statement"
            } else if got {
                "admitted against the documented table (statement silent)"
            } else {
                "rejected although the table accepts"
            };
            problems.push((
                format!("table:{}:b{}", s.id(), flag as u8),
                format!(
                    "is_supported_token_mint({:?}, freeze={}, ext={:?}, badge_initialized={flag}) = {:?}; table says {} ({why}) — {sev}",
                    s.owner,
                    s.freeze,
                    s.names(),
                    o.sup[i],
                    if e { "accept" } else { "reject" }
                ),
                case(None),
            ));
        }
    }
    if accept[0] && !accept[1] {
        problems.push((format!("badge_monotone:{}", s.id()), "adding a valid badge turned accept into reject".to_string(), case(None)));
    }
    for bo in &o.badges {
        evals += 2;
        let valid = bo.badge.valid();
        // --- badge recognition ---
        if o.deser.is_ok() {
            match (&bo.init, bo.badge.undeserialisable()) {
                (Ok(v), false) if *v == valid => {}
                (Ok(true), true) => problems.push((
                    format!("badge:{}:{}", bo.badge.name(), s.id()),
                    format!("is_token_badge_initialized accepted a {} account as a badge", bo.badge.name()),
                    case(Some(bo.badge)),
                )),
                (_, true) => {}
                (r, false) => problems.push((
                    format!("badge:{}:{}", bo.badge.name(), s.id()),
                    format!("is_token_badge_initialized = {r:?} for badge state {}, expected Ok({valid})", bo.badge.name()),
                    case(Some(bo.badge)),
                )),
            }
        }
        // --- admission ---
        let got = bo.verify.is_ok();
        let (e, why) = expect(f, valid);
        if bo.badge.undeserialisable() && e {
            // ungated mint with an impossible badge account: the helper errors; not constrained by the statement
            unconstrained += 1;
            continue;
        }
        if got != e {
            let sev = if got && !stmt_allows(f, valid) { "ADMITTED against the statement" } else if got { "admitted against the documented table" } else { "rejected although the table accepts" };
            problems.push((
                format!("verify:{}:{}", s.id(), bo.badge.name()),
                format!(
                    "verify_supported_token_mint({:?}, freeze={}, ext={:?}, badge={}) = {:?}; table says {} ({why}) — {sev}",
                    s.owner,
                    s.freeze,
                    s.names(),
                    bo.badge.name(),
                    bo.verify,
                    if e { "accept" } else { "reject" }
                ),
                case(Some(bo.badge)),
            ));
        } else if !got && o.deser.is_ok() && !bo.badge.undeserialisable() && matches!(o.sup[valid as usize], Ok(false)) {
            // a plain "unsupported" verdict must surface as UnsupportedTokenMint
            if bo.verify != Err(format!("custom:{ERR_UNSUPPORTED_TOKEN_MINT}")) {
                problems.push((
                    format!("verify_code:{}:{}", s.id(), bo.badge.name()),
                    format!("rejected with {:?} instead of UnsupportedTokenMint", bo.verify),
                    case(Some(bo.badge)),
                ));
            }
        }
    }
    problems.truncate(3);
    MintResult {
        spec: *s,
        real: b.real,
        fp: fp_of(&b),
        accept,
        reason,
        expect: exp,
        evals,
        stricter_than_statement: stricter,
        unconstrained,
        feasibility_surprise,
        problems,
    }
}

// ------------------------------------------------------------------------------------------------
// (2) end to end: initialize_pool_v2 / initialize_reward_v2
// ------------------------------------------------------------------------------------------------
#[derive(Clone, Copy, Debug, PartialEq, Eq)]
enum Slot {
    PoolA,
    PoolB,
    Reward,
}
impl Slot {
    fn name(self) -> &'static str {
        match self {
            Slot::PoolA => "pool_mint_a",
            Slot::PoolB => "pool_mint_b",
            Slot::Reward => "reward",
        }
    }
    fn from_name(s: &str) -> Option<Self> {
        [Slot::PoolA, Slot::PoolB, Slot::Reward].into_iter().find(|x| x.name() == s)
    }
}
/// how the badge account at the token_badge PDA comes to be
#[derive(Clone, Copy, Debug, PartialEq, Eq)]
enum E2eBadge {
    /// written by the real initialize_token_badge instruction
    Real,
    /// state injected at the PDA address
    Injected(Badge),
}

struct E2eOut {
    accepted: bool,
    expected: bool,
    reason: &'static str,
    outcome: String,
}

fn run_e2e(env: &Env, s: &MintSpec, badge: E2eBadge, slot: Slot) -> Result<E2eOut, String> {
    let r = catch_unwind(AssertUnwindSafe(|| run_e2e_inner(env, s, badge, slot)));
    match r {
        Ok(x) => x,
        Err(_) => Err("harness panicked in the end-to-end case".into()),
    }
}

fn run_e2e_inner(env: &Env, s: &MintSpec, badge: E2eBadge, slot: Slot) -> Result<E2eOut, String> {
    let mut l = env.e2e.clone();
    let cfg = &env.cfg_a;
    let b = build_mint(env, s, Some(key("c19/e2e/mint")));
    let k = b.key;
    l.put(k, Acct { lamports: 10_000_000_000, data: b.data.clone(), owner: b.owner, executable: false });
    let badge_addr = world::token_badge_addr(&cfg.addr, &k);
    let badge_state = match badge {
        E2eBadge::Real => {
            let o = svm::process(&mut l, &ix_init_token_badge(cfg, env.funder, k));
            if !o.ok() {
                // the badge instruction itself needs a deserialisable mint; a malformed mint can never get a badge
                if b.facts.malformed || b.facts.types.iter().any(|t| *t >= 28) {
                    Badge::Absent
                } else {
                    return Err(format!("initialize_token_badge failed for a well-formed mint: {}", o.short()));
                }
            } else {
                let want = badge_bytes(&cfg.addr, &k, false);
                if l.data(&badge_addr) != &want[..] || l.get(&badge_addr).map(|a| a.owner) != Some(WP) {
                    return Err("the account written by initialize_token_badge differs from the harness's TokenBadge layout".into());
                }
                Badge::Valid
            }
        }
        E2eBadge::Injected(x) => {
            let (owner, data) = badge_account(x, &cfg.addr, &env.cfg_b.addr, &k, &env.other_mint);
            if x != Badge::Absent {
                l.put(badge_addr, Acct { lamports: 2_500_000, data, owner, executable: false });
            }
            x
        }
    };
    let (expected, reason) = expect(&b.facts, badge_state.valid());
    let o = match slot {
        Slot::PoolA | Slot::PoolB => {
            // counter mint: plain SPL, on the required side of k in the canonical order
            let mut i = 0;
            let c = loop {
                let c = key(&format!("c19/e2e/counter{i}"));
                if (slot == Slot::PoolA && c > k) || (slot == Slot::PoolB && c < k) {
                    break c;
                }
                i += 1;
            };
            world::create_spl_mint(&mut l, c, 6, None);
            let (ma, mb) = if slot == Slot::PoolA { (k, c) } else { (c, k) };
            let p = world::pool_ref(&l, &cfg.addr, "c19/e2e/pool", ma, mb, 64, 64);
            let o = svm::process(&mut l, &world::ix_init_pool_v2(&p, env.funder, 1u128 << 64));
            if o.ok() {
                let st = decode::pool(l.data(&p.addr));
                if st.token_mint_a != ma || st.token_mint_b != mb || !(st.token_mint_a < st.token_mint_b) {
                    return Err("created pool does not hold the given mints in canonical order".into());
                }
                if st.fee_rate > FEE_RATE_BOUND || st.protocol_fee_rate > PROTOCOL_FEE_RATE_BOUND || st.tick_spacing == 0 || st.sqrt_price < MIN_SQRT_PRICE || st.sqrt_price > MAX_SQRT_PRICE {
                    return Err(format!("created pool has out-of-bound parameters: {st:?}"));
                }
                for (v, prog) in [(p.vault_a, p.prog_a), (p.vault_b, p.prog_b)] {
                    if l.get(&v).map(|a| a.owner) != Some(prog) {
                        return Err("created pool's vault is not a token account of the mint's token program".into());
                    }
                }
            }
            o
        }
        Slot::Reward => {
            let p = &env.pool0;
            let o = svm::process(&mut l, &world::ix_init_reward(p, cfg.reward_emissions_super_authority, env.funder, k, b.owner, 0, true));
            if o.ok() {
                let st = decode::pool(l.data(&p.addr));
                if st.reward_infos[0].mint != k || l.get(&st.reward_infos[0].vault).map(|a| a.owner) != Some(b.owner) {
                    return Err("initialised reward does not reference the mint / a vault of its token program".into());
                }
            }
            o
        }
    };
    let accepted = o.ok();
    let outcome = o.short();
    if badge_state.undeserialisable() && expected {
        // impossible account state, not constrained (see Badge::undeserialisable)
        return Ok(E2eOut { accepted, expected: accepted, reason: "unconstrained", outcome });
    }
    if accepted != expected {
        let sev = if accepted && !stmt_allows(&b.facts, badge_state.valid()) { "CREATED against the statement" } else if accepted { "created against the documented table" } else { "refused although the table accepts" };
        return Err(format!(
            "{} over {:?} mint (freeze={}, ext={:?}, extra={:?}) with badge {:?}: outcome {outcome}; table says {} ({reason}) — {sev}",
            slot.name(),
            s.owner,
            s.freeze,
            s.names(),
            s.extra,
            badge,
            if expected { "accept" } else { "reject" }
        ));
    }
    let well_formed = !b.facts.malformed && b.facts.types.iter().all(|t| *t < 28) && !badge_state.undeserialisable();
    if !accepted && well_formed && o.code() != Some(ERR_UNSUPPORTED_TOKEN_MINT) {
        return Err(format!("{} refused with {outcome} instead of UnsupportedTokenMint ({ERR_UNSUPPORTED_TOKEN_MINT}); mint ext={:?} badge {:?}", slot.name(), s.names(), badge));
    }
    Ok(E2eOut { accepted, expected, reason, outcome })
}

fn e2e_cases(quick: bool) -> Vec<(MintSpec, Vec<E2eBadge>)> {
    use E2eBadge::*;
    let plain = vec![Injected(Badge::Absent), Real];
    let gated = vec![
        Injected(Badge::Absent),
        Real,
        Injected(Badge::ValidAttr),
        Injected(Badge::OtherConfig),
        Injected(Badge::OtherMint),
        Injected(Badge::NotOwned),
        Injected(Badge::WrongDisc),
    ];
    let sp = |owner, mask, das, freeze, extra| MintSpec { owner, mask, das, freeze, extra };
    let mut v = vec![
        (sp(Owner::Spl, 0, 0, false, Extra::None), plain.clone()),
        (sp(Owner::Spl, 0, 0, true, Extra::None), plain.clone()),
        (sp(Owner::T22, 0, 0, false, Extra::None), plain.clone()),
        (sp(Owner::T22, 0, 0, true, Extra::None), gated.clone()),
        (sp(Owner::T22Native, 0, 0, false, Extra::None), plain.clone()),
        // every supported extension at once (Token-2022 forbids ScaledUiAmount together with InterestBearing)
        (sp(Owner::T22, TransferFee.bit() | CtMint.bit() | CtFee.bit() | InterestBearing.bit() | MetadataPointer.bit() | TokenMetadata.bit(), 0, false, Extra::None), plain.clone()),
        (sp(Owner::T22, ScaledUi.bit() | TransferFee.bit(), 0, false, Extra::None), plain.clone()),
        // every gated feature at once
        (sp(Owner::T22, PermDelegate.bit() | TransferHook.bit() | MintClose.bit() | Pausable.bit() | TransferFee.bit(), 2, true, Extra::None), gated.clone()),
        // Frozen default state whose freeze authority was removed
        (sp(Owner::T22, 0, 2, false, Extra::None), plain.clone()),
        (sp(Owner::T22, 0, 2, true, Extra::None), gated.clone()),
        (sp(Owner::T22, 0, 1, false, Extra::None), gated.clone()),
        // unknown type number / truncated TLV
        (sp(Owner::T22, TransferFee.bit(), 0, false, Extra::Append(29, 1, 1)), plain.clone()),
        (sp(Owner::T22, 0, 0, false, Extra::Append(0xffff, 0, 0)), plain.clone()),
        (sp(Owner::T22, TransferFee.bit(), 0, false, Extra::Truncate(0)), plain.clone()),
        (sp(Owner::T22, TransferFee.bit(), 0, false, Extra::Truncate(4)), plain.clone()),
        (sp(Owner::T22, TransferFee.bit(), 0, false, Extra::Truncate(3)), plain.clone()),
        // an account-level extension type inside a mint
        (sp(Owner::T22, 0, 0, false, Extra::Append(7, 0, 0)), plain.clone()),
    ];
    // each extension alone (with what Token-2022 requires alongside), every badge state for the gated ones
    for a in ATOMS {
        let m = a.bit() | a.deps();
        let bs = if class_of_type(a.type_no()) == Class::BadgeGated { gated.clone() } else { plain.clone() };
        v.push((sp(Owner::T22, m, 0, false, Extra::None), bs));
    }
    // every small subset x default-state variant x freeze authority, without and with a really issued badge
    let max = if quick { 1 } else { 2 };
    for m in 0u32..(1 << N_ATOMS) {
        if m.count_ones() <= max {
            for das in 0..3 {
                for freeze in [false, true] {
                    v.push((sp(Owner::T22, m, das, freeze, Extra::None), plain.clone()));
                }
            }
        }
    }
    v
}

// ------------------------------------------------------------------------------------------------
// (3) adaptive-fee constants
// ------------------------------------------------------------------------------------------------
type Consts = (u16, u16, u16, u16, u32, u32, u16, u16);

/// The published validity rules, restated. Returns a bit per violated rule (0 = valid).
fn consts_oracle(c: Consts) -> u8 {
    let (ts, filter, decay, reduction, control, max_acc, group, threshold) = c;
    let mut bad = 0u8;
    if !(1 <= filter && filter < decay) {
        bad |= 1; // periods ordered: 1 <= filter < decay
    }
    if reduction >= 10_000 {
        bad |= 2; // reduction factor below its denominator
    }
    if control >= 100_000 {
        bad |= 4; // control factor below its denominator
    }
    if !(group >= 1 && group <= ts && ts as u32 % group as u32 == 0) {
        bad |= 8; // group size in 1..=spacing and divides it
    }
    if (max_acc as u128) * (group as u128) > 0xffff_ffffu128 {
        bad |= 16; // accumulator x group size within 32 bits
    }
    if !(threshold >= 1 && (threshold as u32) <= 88 * ts as u32) {
        bad |= 32; // major swap threshold within one tick array
    }
    bad
}

fn blank_adaptive_tier(ts: u16) -> AdaptiveFeeTier {
    AdaptiveFeeTier {
        whirlpools_config: Pubkey::default(),
        fee_tier_index: 1024,
        tick_spacing: ts,
        initialize_pool_authority: Pubkey::default(),
        delegated_fee_authority: Pubkey::default(),
        default_base_fee_rate: 7,
        filter_period: 11,
        decay_period: 12,
        reduction_factor: 13,
        adaptive_fee_control_factor: 14,
        max_volatility_accumulator: 15,
        tick_group_size: 16,
        major_swap_threshold_ticks: 17,
    }
}

fn check_consts(c: Consts) -> Result<(), String> {
    let (ts, filter, decay, reduction, control, max_acc, group, threshold) = c;
    let want = consts_oracle(c) == 0;
    let got = catch_unwind(|| AdaptiveFeeConstants::validate_constants(ts, filter, decay, reduction, control, max_acc, group, threshold));
    match got {
        Ok(g) if g == want => {}
        g => {
            return Err(format!(
                "validate_constants(ts={ts}, filter={filter}, decay={decay}, reduction={reduction}, control={control}, max_acc={max_acc}, group={group}, threshold={threshold}) = {g:?}, rules say {want} (violated-rule bits {:#b})",
                consts_oracle(c)
            ))
        }
    }
    // the tier setter stores exactly the validated values, or nothing
    let mut t = blank_adaptive_tier(ts);
    let r = catch_unwind(AssertUnwindSafe(|| t.update_adaptive_fee_constants(filter, decay, reduction, control, max_acc, group, threshold).is_ok()));
    let stored = (t.filter_period, t.decay_period, t.reduction_factor, t.adaptive_fee_control_factor, t.max_volatility_accumulator, t.tick_group_size, t.major_swap_threshold_ticks);
    let ok = match r {
        Ok(true) => want && stored == (filter, decay, reduction, control, max_acc, group, threshold),
        Ok(false) => !want && stored == (11, 12, 13, 14, 15, 16, 17),
        Err(_) => false,
    };
    if !ok {
        return Err(format!("update_adaptive_fee_constants{c:?}: result {r:?}, stored {stored:?}, rules say valid={want}"));
    }
    Ok(())
}

fn dedup<T: Ord + Copy>(mut v: Vec<T>) -> Vec<T> {
    v.sort();
    v.dedup();
    v
}

// ------------------------------------------------------------------------------------------------
// (4) setters
// ------------------------------------------------------------------------------------------------
const SETTERS: [&str; 10] = [
    "Whirlpool::update_fee_rate",
    "Whirlpool::update_protocol_fee_rate",
    "WhirlpoolsConfig::update_default_protocol_fee_rate",
    "WhirlpoolsConfig::initialize",
    "FeeTier::update_default_fee_rate",
    "FeeTier::initialize",
    "AdaptiveFeeTier::update_default_base_fee_rate",
    "AdaptiveFeeTier::initialize",
    "Whirlpool::initialize(default_fee_rate)",
    "Whirlpool::initialize(config.default_protocol_fee_rate)",
];

fn blank_config(protocol_fee_rate: u16) -> WhirlpoolsConfig {
    WhirlpoolsConfig {
        fee_authority: key("c19/s/fee_authority"),
        collect_protocol_fees_authority: key("c19/s/cpfa"),
        reward_emissions_super_authority: key("c19/s/resa"),
        default_protocol_fee_rate: protocol_fee_rate,
        feature_flags: 0,
    }
}

/// Run `f` with an `Account<WhirlpoolsConfig>` over a local buffer holding `cfg`.
fn with_config_account<R>(cfg: &WhirlpoolsConfig, f: impl FnOnce(&Account<WhirlpoolsConfig>) -> R) -> Result<R, String> {
    let mut data = vec![];
    cfg.try_serialize(&mut data).map_err(|e| format!("{e:?}"))?;
    let k = key("c19/s/config");
    let owner = WP;
    let mut lam = 1_000_000u64;
    let ai = AccountInfo::new(&k, false, false, &mut lam, &mut data, &owner, false, 0);
    let acc = Account::<WhirlpoolsConfig>::try_from(&ai).map_err(|e| format!("{e:?}"))?;
    Ok(f(&acc))
}

/// (accepted, stored value after the call, value stored before the call)
fn run_setter(name: &str, v: u16) -> Result<(bool, u16, u16), String> {
    const PRIOR: u16 = 7;
    let (ma, mb) = (Pubkey::new_from_array([1; 32]), Pubkey::new_from_array([2; 32]));
    let r = catch_unwind(AssertUnwindSafe(|| -> Result<(bool, u16, u16), String> {
        Ok(match name {
            "Whirlpool::update_fee_rate" => {
                let mut w = Whirlpool { fee_rate: PRIOR, ..Default::default() };
                (w.update_fee_rate(v).is_ok(), w.fee_rate, PRIOR)
            }
            "Whirlpool::update_protocol_fee_rate" => {
                let mut w = Whirlpool { protocol_fee_rate: PRIOR, ..Default::default() };
                (w.update_protocol_fee_rate(v).is_ok(), w.protocol_fee_rate, PRIOR)
            }
            "WhirlpoolsConfig::update_default_protocol_fee_rate" => {
                let mut c = blank_config(PRIOR);
                (c.update_default_protocol_fee_rate(v).is_ok(), c.default_protocol_fee_rate, PRIOR)
            }
            "WhirlpoolsConfig::initialize" => {
                let mut c = blank_config(PRIOR);
                (c.initialize(key("a"), key("b"), key("c"), v).is_ok(), c.default_protocol_fee_rate, PRIOR)
            }
            "FeeTier::update_default_fee_rate" => {
                let mut t = FeeTier { whirlpools_config: Pubkey::default(), tick_spacing: 64, default_fee_rate: PRIOR };
                (t.update_default_fee_rate(v).is_ok(), t.default_fee_rate, PRIOR)
            }
            "FeeTier::initialize" => {
                let mut t = FeeTier { whirlpools_config: Pubkey::default(), tick_spacing: 0, default_fee_rate: PRIOR };
                let ok = with_config_account(&blank_config(300), |c| t.initialize(c, 64, v).is_ok())?;
                (ok, t.default_fee_rate, PRIOR)
            }
            "AdaptiveFeeTier::update_default_base_fee_rate" => {
                let mut t = blank_adaptive_tier(64);
                (t.update_default_base_fee_rate(v).is_ok(), t.default_base_fee_rate, PRIOR)
            }
            "AdaptiveFeeTier::initialize" => {
                let mut t = blank_adaptive_tier(0);
                let ok = with_config_account(&blank_config(300), |c| t.initialize(c, 1024, 64, Pubkey::default(), Pubkey::default(), v, 30, 600, 5000, 4000, 350_000, 64, 64).is_ok())?;
                (ok, t.default_base_fee_rate, PRIOR)
            }
            "Whirlpool::initialize(default_fee_rate)" => {
                let mut w = Whirlpool { fee_rate: PRIOR, ..Default::default() };
                let ok = with_config_account(&blank_config(300), |c| w.initialize(c, 64, 255, 64, 1u128 << 64, v, ma, key("va"), mb, key("vb"), WhirlpoolControlFlags::empty()).is_ok())?;
                (ok, w.fee_rate, PRIOR)
            }
            "Whirlpool::initialize(config.default_protocol_fee_rate)" => {
                // a config account whose stored rate is v (possibly out of bound): the pool must not inherit it
                let mut w = Whirlpool { protocol_fee_rate: PRIOR, ..Default::default() };
                let ok = with_config_account(&blank_config(v), |c| w.initialize(c, 64, 255, 64, 1u128 << 64, 3000, ma, key("va"), mb, key("vb"), WhirlpoolControlFlags::empty()).is_ok())?;
                (ok, w.protocol_fee_rate, PRIOR)
            }
            _ => return Err(format!("unknown setter {name}")),
        })
    }));
    match r {
        Ok(x) => x,
        Err(_) => Ok((false, PRIOR, PRIOR)), // a panic is a failed computation
    }
}

fn setter_bound(name: &str) -> u16 {
    if name.contains("protocol") || name == "WhirlpoolsConfig::initialize" {
        PROTOCOL_FEE_RATE_BOUND
    } else {
        FEE_RATE_BOUND
    }
}

fn check_setter(name: &str, v: u16) -> Result<bool, String> {
    let bound = setter_bound(name);
    let (ok, stored, prior) = run_setter(name, v)?;
    let want = v <= bound;
    if ok != want {
        return Err(format!("{name}({v}) {} — bound is {bound}", if ok { "was ACCEPTED" } else { "was rejected" }));
    }
    if ok && stored != v {
        return Err(format!("{name}({v}) accepted but stored {stored}"));
    }
    if !ok && stored != prior && stored > bound {
        return Err(format!("{name}({v}) rejected but left the out-of-bound value {stored} in the account"));
    }
    Ok(ok)
}

/// Whirlpool::initialize over price bounds x mint order x tick spacing 0.
fn check_pool_init(sqrt_price: u128, order: i8, tick_spacing: u16) -> Result<bool, String> {
    let lo = Pubkey::new_from_array([1; 32]);
    let hi = Pubkey::new_from_array([2; 32]);
    let (ma, mb) = match order {
        -1 => (lo, hi),
        0 => (lo, lo),
        _ => (hi, lo),
    };
    let mut w = Whirlpool::default();
    let r = quiet(|| catch_unwind(AssertUnwindSafe(|| {
        with_config_account(&blank_config(300), |c| w.initialize(c, tick_spacing, 255, tick_spacing, sqrt_price, 3000, ma, key("va"), mb, key("vb"), WhirlpoolControlFlags::empty()).is_ok())
    })));
    let ok = matches!(r, Ok(Ok(true)));
    let want = ma < mb && (MIN_SQRT_PRICE..=MAX_SQRT_PRICE).contains(&sqrt_price) && tick_spacing != 0;
    if ok != want {
        return Err(format!("Whirlpool::initialize(sqrt_price={sqrt_price}, mint order {order}, tick_spacing={tick_spacing}) accepted={ok}, bounds say {want}"));
    }
    if ok && (w.sqrt_price != sqrt_price || w.token_mint_a != ma || w.token_mint_b != mb || w.tick_spacing != tick_spacing) {
        return Err("Whirlpool::initialize stored something other than its arguments".into());
    }
    Ok(ok)
}

// ------------------------------------------------------------------------------------------------
// enumeration
// ------------------------------------------------------------------------------------------------
fn lattice_specs(quick: bool) -> Vec<MintSpec> {
    let full: u32 = (1 << N_ATOMS) - 1;
    let mut masks: Vec<u32> = vec![];
    if quick {
        for m in 0..=full {
            if m.count_ones() <= 4 {
                masks.push(m);
            }
        }
        masks.push(full);
        for i in 0..N_ATOMS {
            masks.push(full & !(1 << i));
        }
    } else {
        masks.extend(0..=full);
    }
    let mut v = Vec::with_capacity(masks.len() * 6);
    for m in masks {
        for das in 0..3u8 {
            if quick && das > 0 && m.count_ones() == 4 && m != full {
                // quick: DefaultAccountState counts towards the subset size
                continue;
            }
            for freeze in [false, true] {
                v.push(MintSpec::t22(m, das, freeze));
            }
        }
    }
    v
}

fn special_specs(quick: bool) -> Vec<MintSpec> {
    let sp = |owner, mask, das, freeze, extra| MintSpec { owner, mask, das, freeze, extra };
    let mut v = vec![
        sp(Owner::Spl, 0, 0, false, Extra::None),
        sp(Owner::Spl, 0, 0, true, Extra::None),
        sp(Owner::SplNative, 0, 0, false, Extra::None),
        sp(Owner::T22Native, 0, 0, false, Extra::None),
        sp(Owner::T22Native, 0, 0, true, Extra::None),
        sp(Owner::T22Native, TransferFee.bit(), 0, false, Extra::None),
    ];
    // one appended TLV entry of every type number, on an extension-less mint and on a supported mint
    let mut types: Vec<u16> = if quick { (0..=64).collect() } else { (0..=u16::MAX).collect() };
    if quick {
        types.extend([255, 256, 0x7fff, 0xfffd, 0xfffe, 0xffff]);
    }
    for t in types {
        for base in [0, TransferFee.bit()] {
            for freeze in [false, true] {
                v.push(sp(Owner::T22, base, 0, freeze, Extra::Append(t, 1, 1)));
                if t == DAS_TYPE {
                    v.push(sp(Owner::T22, base, 0, freeze, Extra::Append(t, 1, 2)));
                    v.push(sp(Owner::T22, base, 0, freeze, Extra::Append(t, 0, 0)));
                } else if t <= 64 || t >= 0xfff0 {
                    v.push(sp(Owner::T22, base, 0, freeze, Extra::Append(t, 0, 0)));
                }
            }
        }
    }
    for tv in 0..=5u8 {
        for base in [TransferFee.bit(), TransferFee.bit() | PermDelegate.bit(), MetadataPointer.bit() | TokenMetadata.bit(), NonTransferable.bit()] {
            for freeze in [false, true] {
                v.push(sp(Owner::T22, base, 0, freeze, Extra::Truncate(tv)));
            }
        }
    }
    v
}

fn consts_domain() -> (Vec<u16>, Vec<u16>, Vec<u16>, Vec<u16>, Vec<u32>) {
    (vec![1, 2, 64, 128, 32768, 65535], vec![0, 1, 2, 30, 65535], vec![0, 1, 2, 30, 31, 600, 65535], vec![0, 1, 5000, 9999, 10000, 65535], vec![0, 1, 99_999, 100_000, u32::MAX])
}
fn consts_inner(ts: u16) -> (Vec<u16>, Vec<u16>) {
    let groups = dedup(vec![0, 1, 2, 3, ts / 2, ts, ts.saturating_add(1), 65535]);
    let thr = dedup(vec![0, 1, (88u32 * ts as u32).min(65535) as u16, (88u32 * ts as u32 + 1).min(65535) as u16, 65535]);
    (groups, thr)
}
fn max_acc_values(ts: u16, group: u16) -> Vec<u32> {
    let mut v = vec![0, 1, 350_000, u32::MAX];
    for d in [ts, group] {
        if d > 0 {
            let b = u32::MAX / d as u32;
            v.extend([b.saturating_sub(1), b, b.saturating_add(1)]);
        }
    }
    dedup(v)
}

// ------------------------------------------------------------------------------------------------
// entry points
// ------------------------------------------------------------------------------------------------
thread_local! {
    static QUIET: std::cell::Cell<bool> = const { std::cell::Cell::new(false) };
}
/// Panics of the code under test inside `quiet(..)` are failed computations, not news: keep them off stderr.
fn install_quiet_hook() {
    static ONCE: std::sync::Once = std::sync::Once::new();
    ONCE.call_once(|| {
        svm::init(); // svm installs its own hook first; chain to it
        let prev = std::panic::take_hook();
        std::panic::set_hook(Box::new(move |info| {
            if !QUIET.with(|q| q.get()) {
                prev(info)
            }
        }));
    });
}
fn quiet<R>(f: impl FnOnce() -> R) -> R {
    install_quiet_hook();
    let old = QUIET.with(|q| q.replace(true));
    let r = f();
    QUIET.with(|q| q.set(old));
    r
}

pub fn run_fn(ctx: &Ctx, r: &mut Report) {
    let quick = ctx.tier.is_quick();
    let env = match Env::new() {
        Ok(e) => e,
        Err(m) => {
            r.violation("fn_env".into(), format!("could not build the C19 environment with the real instructions: {m}"), json!({"kind":"fn_env"}));
            return;
        }
    };
    let mut evaluations = 0u64;
    let mut distinct = 0u64;

    // ---- badge layout: real instruction output == harness serialisation ----
    match check_badge_layout(&env) {
        Ok(()) => r.guard("fn_badge_written_by_real_instruction_matches_layout", 1),
        Err(m) => r.violation("fn_badge_layout".into(), m, json!({"kind":"badge_layout"})),
    }

    // ---- (1) mint admission table ----
    let mut specs = lattice_specs(quick);
    let n_lattice = specs.len();
    specs.extend(special_specs(quick));
    let results: Vec<MintResult> = specs.par_iter().map(|s| check_mint(&env, s, &BADGES)).collect();
    let mut fps: HashSet<u128> = HashSet::new();
    let mut by_reason: BTreeMap<String, u64> = BTreeMap::new();
    let (mut real, mut crafted, mut surprises, mut stricter, mut unconstrained, mut gated_accepts) = (0u64, 0u64, 0u64, 0u64, 0u64, 0u64);
    let mut verdicts: HashMap<(u32, u8, bool, bool), bool> = HashMap::new();
    let mut n_viol = 0;
    for m in &results {
        evaluations += m.evals;
        if m.spec.owner != Owner::Spl && m.spec.owner != Owner::SplNative {
            fps.insert(m.fp);
        }
        if m.real {
            real += 1
        } else {
            crafted += 1
        }
        surprises += m.feasibility_surprise as u64;
        stricter += m.stricter_than_statement;
        unconstrained += m.unconstrained;
        for i in 0..2 {
            *by_reason.entry(format!("{}_{}", if m.expect[i] { "accept" } else { "reject" }, m.reason[i])).or_insert(0) += 1;
        }
        if m.expect[1] && m.reason[1] == "badge_gated" && m.accept[1] {
            gated_accepts += 1;
        }
        if m.spec.owner == Owner::T22 && m.spec.extra == Extra::None {
            verdicts.insert((m.spec.mask, m.spec.das, m.spec.freeze, false), m.accept[0]);
            verdicts.insert((m.spec.mask, m.spec.das, m.spec.freeze, true), m.accept[1]);
        }
        for (k, d, c) in &m.problems {
            if n_viol < 6 {
                r.violation(k.clone(), d.clone(), c.clone());
                n_viol += 1;
            }
        }
    }
    // lattice monotonicity (independent of the table): removing an extension never turns accept into reject
    let mut mono_checked = 0u64;
    let mut mono_bad = 0;
    for (&(mask, das, freeze, badge), &acc) in &verdicts {
        if !acc {
            continue;
        }
        let mut subs: Vec<(u32, u8)> = (0..N_ATOMS).filter(|i| mask & (1 << i) != 0).map(|i| (mask & !(1 << i), das)).collect();
        if das > 0 {
            subs.push((mask, 0));
        }
        for (m2, d2) in subs {
            if let Some(&acc2) = verdicts.get(&(m2, d2, freeze, badge)) {
                mono_checked += 1;
                if !acc2 && mono_bad < 2 {
                    mono_bad += 1;
                    r.violation(
                        format!("lattice_monotone:{mask:x}/{das}->{m2:x}/{d2}:f{}:b{}", freeze as u8, badge as u8),
                        format!(
                            "mint with extensions {:?} is admitted but the mint with one extension fewer ({:?}) is refused (freeze={freeze}, badge={badge})",
                            MintSpec::t22(mask, das, freeze).names(),
                            MintSpec::t22(m2, d2, freeze).names()
                        ),
                        json!({"kind":"mono","big":MintSpec::t22(mask,das,freeze).to_json(),"small":MintSpec::t22(m2,d2,freeze).to_json(),"badge":badge}),
                    );
                }
            }
        }
    }
    evaluations += mono_checked;
    let mint_distinct = fps.len() as u64 * BADGES.len() as u64;
    distinct += mint_distinct;
    r.set("fn_mint_specs", specs.len() as u64);
    r.set("fn_mint_lattice_specs", n_lattice as u64);
    r.set("fn_mint_images_distinct", fps.len() as u64);
    r.set("fn_mints_built_by_real_token_program", real);
    r.set("fn_mints_crafted_tlv_images", crafted);
    r.set("fn_t22_feasibility_surprises", surprises);
    r.set("fn_table_rows_stricter_than_statement", stricter);
    r.set("fn_badge_cases_unconstrained", unconstrained);
    r.set("fn_lattice_monotonicity_pairs", mono_checked);
    r.set("fn_badge_states", BADGES.len() as u64);
    for (k, n) in &by_reason {
        r.guard(&format!("fn_mint_{k}"), *n);
    }
    r.guard("fn_mint_badge_gated_accepts", gated_accepts);
    r.guard("fn_mints_real", real);
    r.guard("fn_mints_crafted", crafted);
    r.guard("fn_lattice_monotone_pairs", mono_checked);
    for s in [MintSpec::t22(PermDelegate.bit() | TransferFee.bit(), 0, false), MintSpec::t22(GroupPointer.bit(), 0, false)] {
        if let Some(m) = results.iter().find(|m| m.spec == s) {
            r.sample(json!({"mint": s.to_json(), "built_by_real_processor": m.real, "accepted_without_badge": m.accept[0], "accepted_with_badge": m.accept[1], "table": [m.reason[0], m.reason[1]]}));
        }
    }

    // ---- (2) end to end ----
    let cases = e2e_cases(quick);
    let mut jobs = vec![];
    for (s, bs) in &cases {
        for b in bs {
            for slot in [Slot::PoolA, Slot::PoolB, Slot::Reward] {
                jobs.push((*s, *b, slot));
            }
        }
    }
    let outs: Vec<(MintSpec, E2eBadge, Slot, Result<E2eOut, String>)> = jobs.par_iter().map(|(s, b, slot)| (*s, *b, *slot, run_e2e(&env, s, *b, *slot))).collect();
    let (mut e_ok, mut e_fail, mut e_gated_ok, mut e_unc) = (0u64, 0u64, 0u64, 0u64);
    let mut e_viol = 0;
    let mut e_sampled = 0;
    for (s, b, slot, o) in &outs {
        evaluations += 1;
        let case = json!({"kind":"e2e","spec":s.to_json(),"badge": match b { E2eBadge::Real => "real".to_string(), E2eBadge::Injected(x) => x.name().to_string() }, "slot": slot.name()});
        match o {
            Ok(x) => {
                if x.reason == "unconstrained" {
                    e_unc += 1;
                } else if x.accepted {
                    e_ok += 1;
                    if x.reason == "badge_gated" {
                        e_gated_ok += 1;
                    }
                } else {
                    e_fail += 1;
                }
                debug_assert_eq!(x.accepted, x.expected);
                if e_sampled < 3 && ((x.reason == "badge_gated" && e_sampled == 0) || (x.reason == "needs_badge" && e_sampled == 1) || (x.reason == "non_transferable" && e_sampled == 2)) {
                    e_sampled += 1;
                    r.sample(json!({"end_to_end": case, "outcome": x.outcome, "table": x.reason}));
                }
            }
            Err(m) => {
                if e_viol < 4 {
                    e_viol += 1;
                    r.violation(format!("e2e:{}:{:?}:{}", s.id(), b, slot.name()), m.clone(), case);
                }
            }
        }
    }
    distinct += outs.len() as u64;
    r.set("fn_e2e_cases", outs.len() as u64);
    r.set("fn_e2e_unconstrained", e_unc);
    r.guard("fn_e2e_successes", e_ok);
    r.guard("fn_e2e_failures", e_fail);
    r.guard("fn_e2e_badge_gated_successes", e_gated_ok);

    // ---- (3) adaptive-fee constants ----
    let (tss, filters, decays, reductions, controls) = consts_domain();
    let mut outer = vec![];
    for &ts in &tss {
        for &f in &filters {
            for &d in &decays {
                outer.push((ts, f, d));
            }
        }
    }
    let cres: Vec<(u64, u64, u64, [u64; 6], Vec<(Consts, String)>)> = outer
        .par_iter()
        .map(|&(ts, f, d)| {
            let (groups, thrs) = consts_inner(ts);
            let (mut n, mut acc, mut nontrivial) = (0u64, 0u64, 0u64);
            let mut single = [0u64; 6];
            let mut bad = vec![];
            for &red in &reductions {
                for &ctl in &controls {
                    for &g in &groups {
                        for &ma in &max_acc_values(ts, g) {
                            for &thr in &thrs {
                                let c = (ts, f, d, red, ctl, ma, g, thr);
                                n += 1;
                                let o = consts_oracle(c);
                                if o == 0 {
                                    acc += 1;
                                }
                                if o.count_ones() <= 1 {
                                    nontrivial += 1;
                                    if o != 0 {
                                        single[o.trailing_zeros() as usize] += 1;
                                    }
                                }
                                if let Err(m) = check_consts(c) {
                                    if bad.len() < 2 {
                                        bad.push((c, m));
                                    }
                                }
                            }
                        }
                    }
                }
            }
            (n, acc, nontrivial, single, bad)
        })
        .collect();
    let (mut cn, mut cacc, mut cnt) = (0u64, 0u64, 0u64);
    let mut single = [0u64; 6];
    let mut c_viol = 0;
    for (n, a, t, s, bad) in cres {
        cn += n;
        cacc += a;
        cnt += t;
        for i in 0..6 {
            single[i] += s[i];
        }
        for (c, m) in bad {
            if c_viol < 3 {
                c_viol += 1;
                r.violation(format!("consts:{c:?}"), m, json!({"kind":"consts","c":[c.0,c.1,c.2,c.3,c.4,c.5,c.6,c.7]}));
            }
        }
    }
    evaluations += 2 * cn;
    distinct += cnt;
    r.set("fn_consts_tuples", cn);
    r.set("fn_consts_tuples_decided_by_at_most_one_rule", cnt);
    r.guard("fn_consts_accepted", cacc);
    r.guard("fn_consts_rejected", cn - cacc);
    for (i, name) in ["periods", "reduction_factor", "control_factor", "group_size", "accumulator_32bit", "major_swap_threshold"].iter().enumerate() {
        r.guard(&format!("fn_consts_rejected_only_by_{name}"), single[i]);
    }
    r.sample(json!({"validate_constants": {"tick_spacing":64,"filter":30,"decay":31,"reduction":9999,"control":99999,"max_acc":u32::MAX/64,"group":64,"threshold":5632}, "valid": consts_oracle((64,30,31,9999,99999,u32::MAX/64,64,5632)) == 0}));

    // ---- (4) setters: all u16 values ----
    let sres: Vec<(usize, u64, u64, Vec<(u16, String)>)> = (0..SETTERS.len())
        .into_par_iter()
        .map(|i| {
            let (mut a, mut rj) = (0u64, 0u64);
            let mut bad = vec![];
            for v in 0..=u16::MAX {
                match check_setter(SETTERS[i], v) {
                    Ok(true) => a += 1,
                    Ok(false) => rj += 1,
                    Err(m) => {
                        if bad.len() < 2 {
                            bad.push((v, m));
                        }
                    }
                }
            }
            (i, a, rj, bad)
        })
        .collect();
    let mut s_viol = 0;
    for (i, a, rj, bad) in sres {
        evaluations += 65536;
        distinct += 5; // 0, bound-1, bound, bound+1, 65535
        r.guard(&format!("fn_setter_accepts[{}]", SETTERS[i]), a);
        r.guard(&format!("fn_setter_rejects[{}]", SETTERS[i]), rj);
        for (v, m) in bad {
            if s_viol < 4 {
                s_viol += 1;
                r.violation(format!("setter:{}:{v}", SETTERS[i]), m, json!({"kind":"setter","name":SETTERS[i],"value":v}));
            }
        }
    }
    r.set("fn_setters", SETTERS.len() as u64);
    // pool initialisation: price bounds x mint order x tick spacing
    let prices = [0u128, 1, MIN_SQRT_PRICE - 1, MIN_SQRT_PRICE, MIN_SQRT_PRICE + 1, 1u128 << 64, MAX_SQRT_PRICE - 1, MAX_SQRT_PRICE, MAX_SQRT_PRICE + 1, u128::MAX];
    let (mut pa, mut pr) = (0u64, 0u64);
    for p in prices {
        for order in [-1i8, 0, 1] {
            for ts in [0u16, 1, 64, 65535] {
                evaluations += 1;
                distinct += 1;
                match check_pool_init(p, order, ts) {
                    Ok(true) => pa += 1,
                    Ok(false) => pr += 1,
                    Err(m) => r.violation(format!("pool_init:{p}:{order}:{ts}"), m, json!({"kind":"pool_init","sqrt_price":p.to_string(),"order":order,"tick_spacing":ts})),
                }
            }
        }
    }
    r.guard("fn_pool_init_accepts", pa);
    r.guard("fn_pool_init_rejects", pr);
    // tiers refuse tick spacing 0
    for name in ["FeeTier::initialize", "AdaptiveFeeTier::initialize"] {
        evaluations += 1;
        if let Err(m) = check_tier_zero_spacing(name) {
            r.violation(format!("tier_zero_spacing:{name}"), m, json!({"kind":"tier_zero_spacing","name":name}));
        }
    }

    r.add("evaluations", evaluations);
    r.add("distinct_nontrivial", distinct);
    r.set(
        "fn_rule",
        "distinct = (distinct Token-2022 mint images by content hash) x badge states + end-to-end cases + constant tuples whose verdict hinges on at most one rule + 5 boundary values per setter + pool-init tuples",
    );
    r.set("fn_exhaustive_scope", if quick { "extension subsets of size <= 4 and full-minus-one; TLV type numbers 0..=64 + samples; all u16 for setters" } else { "all 2^17 x 3 x 2 extension/state/freeze combinations; all 65536 TLV type numbers; all u16 for setters" });
    r.assume("A1 plain SPL-Token mints are admitted whatever their freeze authority (the statement's freeze-authority clause is read as applying to Token-2022 mints; this is what the program documents and does)");
    r.assume("A2 'the supported list' is not spelled out in the statement; the table uses the program's published allow-list by TLV type number: always {1 TransferFeeConfig, 4 ConfidentialTransferMint, 10 InterestBearingConfig, 16 ConfidentialTransferFeeConfig, 18 MetadataPointer, 19 TokenMetadata, 25 ScaledUiAmount}; with badge {3 MintCloseAuthority, 6 DefaultAccountState, 12 PermanentDelegate, 14 TransferHook, 26 Pausable}; everything else never");
    r.assume("A3 the table is stricter than the statement in two documented ways (counted in fn_table_rows_stricter_than_statement): DefaultAccountState=Initialized also needs a badge, and a non-Initialized default state without freeze authority is refused even with a badge");
    r.assume("A4 a program-owned account that is not a TokenBadge (wrong discriminator / short data) cannot exist at a token_badge PDA; for it only 'never counts as a badge' is required (fn_badge_cases_unconstrained)");
    r.assume("A5 combinations the Token-2022 8.0.1 processor refuses to create are evaluated as TLV images assembled from entries harvested from real mints");
}

fn check_badge_layout(env: &Env) -> Result<(), String> {
    let mut l = env.base.clone();
    world::create_spl_mint(&mut l, env.mint_key, 6, None);
    let o = svm::process(&mut l, &ix_init_token_badge(&env.cfg_a, env.funder, env.mint_key));
    if !o.ok() {
        return Err(format!("initialize_token_badge failed: {}", o.short()));
    }
    let addr = world::token_badge_addr(&env.cfg_a.addr, &env.mint_key);
    let a = l.get(&addr).ok_or("badge account missing")?;
    if a.owner != WP || a.data != badge_bytes(&env.cfg_a.addr, &env.mint_key, false) {
        return Err("the TokenBadge written by the real instruction differs from the harness's serialisation".into());
    }
    Ok(())
}

fn check_tier_zero_spacing(name: &str) -> Result<(), String> {
    let r = catch_unwind(AssertUnwindSafe(|| {
        with_config_account(&blank_config(300), |c| match name {
            "FeeTier::initialize" => {
                let mut t = FeeTier { whirlpools_config: Pubkey::default(), tick_spacing: 9, default_fee_rate: 0 };
                t.initialize(c, 0, 3000).is_ok()
            }
            _ => {
                let mut t = blank_adaptive_tier(9);
                t.initialize(c, 1024, 0, Pubkey::default(), Pubkey::default(), 3000, 30, 600, 5000, 4000, 350_000, 1, 1).is_ok()
            }
        })
    }));
    match r {
        Ok(Ok(false)) | Err(_) => Ok(()),
        Ok(Ok(true)) => Err(format!("{name} accepted tick spacing 0")),
        Ok(Err(m)) => Err(m),
    }
}

pub fn replay_fn(case: &Value) -> Option<Result<(), String>> {
    let kind = case["kind"].as_str()?;
    let first = |m: &MintResult| match m.problems.first() {
        Some((_, d, _)) => Err(d.clone()),
        None => Ok(()),
    };
    Some(match kind {
        "fn_env" => Env::new().map(|_| ()),
        "badge_layout" => Env::new().and_then(|e| check_badge_layout(&e)),
        "mint" => {
            let env = match Env::new() {
                Ok(e) => e,
                Err(m) => return Some(Err(m)),
            };
            let s = MintSpec::from_json(&case["spec"])?;
            let badges: Vec<Badge> = match case["badge"].as_str().and_then(Badge::from_name) {
                Some(b) => vec![b],
                None => BADGES.to_vec(),
            };
            first(&check_mint(&env, &s, &badges))
        }
        "mono" => {
            let env = match Env::new() {
                Ok(e) => e,
                Err(m) => return Some(Err(m)),
            };
            let big = MintSpec::from_json(&case["big"])?;
            let small = MintSpec::from_json(&case["small"])?;
            let b = case["badge"].as_bool()? as usize;
            let (x, y) = (check_mint(&env, &big, &[]), check_mint(&env, &small, &[]));
            if x.accept[b] && !y.accept[b] {
                Err(format!("mint with extensions {:?} is admitted but the mint with one extension fewer ({:?}) is refused", big.names(), small.names()))
            } else {
                Ok(())
            }
        }
        "e2e" => {
            let env = match Env::new() {
                Ok(e) => e,
                Err(m) => return Some(Err(m)),
            };
            let s = MintSpec::from_json(&case["spec"])?;
            let b = match case["badge"].as_str()? {
                "real" => E2eBadge::Real,
                x => E2eBadge::Injected(Badge::from_name(x)?),
            };
            let slot = Slot::from_name(case["slot"].as_str()?)?;
            run_e2e(&env, &s, b, slot).map(|_| ())
        }
        "consts" => {
            let a = case["c"].as_array()?;
            let g = |i: usize| a[i].as_u64().unwrap_or(0);
            check_consts((g(0) as u16, g(1) as u16, g(2) as u16, g(3) as u16, g(4) as u32, g(5) as u32, g(6) as u16, g(7) as u16))
        }
        "setter" => {
            let name = case["name"].as_str()?;
            let name = SETTERS.iter().find(|s| **s == name)?;
            check_setter(name, case["value"].as_u64()? as u16).map(|_| ())
        }
        "pool_init" => check_pool_init(case["sqrt_price"].as_str()?.parse().ok()?, case["order"].as_i64()? as i8, case["tick_spacing"].as_u64()? as u16).map(|_| ()),
        "tier_zero_spacing" => check_tier_zero_spacing(case["name"].as_str()?),
        _ => return None,
    })
}
