//! C15 — instructions act only on accounts that belong to the pool they name (DESIGN §3 C15).
//!
//! Fault enumeration on the REAL program (`svm::process`, entrypoint routing: Anchor or Pinocchio) over W-twin
//! (`c15_world.rs`): for every fund-moving instruction, the happy-path instruction must succeed; then EVERY account
//! slot (fixed and remaining accounts) is substituted, one at a time, with every applicable same-typed, existing,
//! well-formed account that belongs to something else:
//!   * the U2 counterpart of the slot (other universe: other config / mints / pools / positions / vaults ...),
//!   * inside U1: the sibling pools (PA shares both mints, tick spacing and array start indexes with P1; P2 shares
//!     one mint), their vaults / tick arrays / positions / oracles, the vault of the other token, the reward vault of
//!     another reward index (indexes 0 and 1 use the same mint), the same owner's token account of every other mint,
//!     the other position of the same pool and its token account, the other token program, other executable programs,
//!   * two-hop additionally, as whole-leg replacements: the same pool twice (tick-array sets of the two legs are
//!     disjoint in state S0, so nothing but the program's own check stops it) and pool pairs that do not share the
//!     intermediate mint.
//!   * consistent GROUPS (`multis()`): a position together with its own token account taken from another pool, a
//!     config together with its own fee-collection authority, the complete account set of another reward index. A
//!     single member of such a group is already refused by the group's own consistency check, which would hide a
//!     missing pool-membership check (`has_one = whirlpool`, `has_one = whirlpools_config`).
//! Oracle = the ownership table `subs()` / `multis()`: every substitution must be REJECTED (and leave the ledger
//! untouched) unless it is declared free there, each exemption with its justification. Only rejection is required
//! (any error code, any layer); codes are recorded per instruction. An accepted substitution is reported even when
//! the unsubstituted twin fails (which by itself is a machinery failure, exit 2).
//! The world is built so that as few faults as possible are caught twice: sibling pools share mints, tick spacing
//! and array start indexes, all positions have one owner, and P1 / PA pay their rewards in the pool's own tokens, so
//! that the pool PDA owns several token accounts of each pool mint (a vault check that is missing on a paying-out
//! instruction would otherwise be masked by the token program refusing a vault of another owner).
use super::c15_world::*;
use crate::report::{Ctx, Report};
use crate::world::*;
use serde_json::{json, Map, Value};
use solana_program::{instruction::Instruction, pubkey::Pubkey, system_program};
use std::collections::{BTreeMap, BTreeSet};
use std::str::FromStr;
use svm::Ledger;

// ------------------------------------------------------------------------------------------------
// slot roles and the ownership table
// ------------------------------------------------------------------------------------------------
#[derive(Clone, Copy, Debug, PartialEq, Eq)]
enum Sig {
    Token,
    Position,
    ProtocolFee,
    Funder,
    RewardAuth,
}

#[derive(Clone, Debug, PartialEq, Eq)]
enum Role {
    Pool(usize),
    /// (pool, is token A)
    Vault(usize, bool),
    Mint(MintId),
    /// (party, mint): that party's token account of the mint
    Acct(&'static str, MintId),
    /// (pool, start index)
    TickArray(usize, i32),
    /// (pool, position index)
    Position(usize, usize),
    /// the position slot of an instruction that takes no position token account (update_fees_and_rewards): anyone may refresh any
    /// position, so another position of the SAME pool is a legitimate argument
    PositionFree(usize, usize),
    PositionTa(usize, usize),
    Oracle(usize),
    Config,
    /// (pool, reward index)
    RewardVault(usize, usize),
    /// the token program of a mint (None: the v1 instructions' fixed SPL Token program)
    TokenProgram(Option<MintId>),
    Memo,
    System,
    Signer(Sig),
}

impl Role {
    fn class(&self) -> &'static str {
        match self {
            Role::Pool(_) => "pool",
            Role::Vault(..) => "vault",
            Role::Mint(_) => "mint",
            Role::Acct(..) => "token_account",
            Role::TickArray(..) => "tick_array",
            Role::Position(..) | Role::PositionFree(..) => "position",
            Role::PositionTa(..) => "position_token_account",
            Role::Oracle(_) => "oracle",
            Role::Config => "config",
            Role::RewardVault(..) => "reward_vault",
            Role::TokenProgram(_) => "token_program",
            Role::Memo | Role::System => "program",
            Role::Signer(_) => "signer",
        }
    }
}

fn orig(role: &Role, u: &Uni, l: &Ledger) -> Pubkey {
    match role {
        Role::Pool(p) => u.pools[*p].addr,
        Role::Vault(p, a) => {
            if *a {
                u.pools[*p].vault_a
            } else {
                u.pools[*p].vault_b
            }
        }
        Role::Mint(id) => u.mint(*id),
        Role::Acct(party, id) => u.party(party).of(&u.mint(*id)),
        Role::TickArray(p, s) => u.pools[*p].tick_array(*s),
        Role::Position(p, i) | Role::PositionFree(p, i) => u.pos[*p][*i].addr,
        Role::PositionTa(p, i) => u.pos[*p][*i].token_account,
        Role::Oracle(p) => u.pools[*p].oracle,
        Role::Config => u.cfg.addr,
        Role::RewardVault(p, i) => u.rvault[*p][*i],
        Role::TokenProgram(Some(id)) => prog_of(l, &u.mint(*id)),
        Role::TokenProgram(None) => TOKEN,
        Role::Memo => MEMO,
        Role::System => system_program::ID,
        Role::Signer(Sig::Token) => u.trader.owner,
        Role::Signer(Sig::Position) => u.lp.owner,
        Role::Signer(Sig::ProtocolFee) => u.cfg.collect_protocol_fees_authority,
        Role::Signer(Sig::Funder) => u.funder,
        Role::Signer(Sig::RewardAuth) => u.cfg.reward_emissions_super_authority,
    }
}

#[derive(Clone, Debug, PartialEq, Eq)]
enum Expect {
    MustFail,
    /// exempt, with the justification
    Free(&'static str),
}

#[derive(Clone, Debug)]
struct Sub {
    key: Pubkey,
    what: String,
    expect: Expect,
}

const FREE_ALT: &str = "any token account of the right mint whose owner is the signing authority may be used: nothing ties a user token account to the pool except its mint";
const FREE_THIRD: &str = "a third party's token account of the right mint: legitimate as a recipient; as a payer it is refused by the token program for lack of authority (authorisation, C04), so C15 does not constrain it";
const FREE_FUNDER: &str = "the funder only pays rent top-ups: any signing system account may fund";

/// The ownership table: every same-typed foreign counterpart of a slot, and whether the instruction must reject it.
fn subs(role: &Role, u1: &Uni, u2: &Uni, l: &Ledger) -> Vec<Sub> {
    let mut v: Vec<Sub> = vec![];
    let mut must = |key: Pubkey, what: String| v.push(Sub { key, what, expect: Expect::MustFail });
    let others = |p: usize| (0..u1.pools.len()).filter(move |q| *q != p);
    match role {
        Role::Pool(p) => {
            must(u2.pools[*p].addr, format!("U2 pool {}", POOL_NAMES[*p]));
            for q in others(*p) {
                must(u1.pools[q].addr, format!("U1 sibling pool {}", POOL_NAMES[q]));
            }
        }
        Role::Vault(p, a) => {
            must(orig(role, u2, l), "U2 counterpart vault".into());
            must(orig(&Role::Vault(*p, !*a), u1, l), "the pool's vault of the other token".into());
            for q in others(*p) {
                must(u1.pools[q].vault_a, format!("vault A of U1 sibling pool {}", POOL_NAMES[q]));
                must(u1.pools[q].vault_b, format!("vault B of U1 sibling pool {}", POOL_NAMES[q]));
            }
            for j in 0..3 {
                must(u1.rvault[*p][j], format!("the pool's reward vault {j} (owned by the same pool PDA; P1/PA: indexes 0,1 hold token A, index 2 token B)"));
            }
        }
        Role::Mint(id) => {
            must(u2.mint(*id), "U2 counterpart mint".into());
            for o in ALL_MINTS.iter().filter(|o| *o != id) {
                must(u1.mint(*o), format!("U1 mint {o:?}"));
            }
        }
        Role::Acct(party, id) => {
            must(u2.party(party).of(&u2.mint(*id)), format!("U2 {party}'s account of the U2 counterpart mint (wrong mint)"));
            for o in ALL_MINTS.iter().filter(|o| *o != id) {
                must(u1.party(party).of(&u1.mint(*o)), format!("{party}'s own account of U1 mint {o:?} (wrong mint)"));
            }
            v.push(Sub { key: u1.party(party).alt_of(&u1.mint(*id)), what: format!("{party}'s second account of the right mint"), expect: Expect::Free(FREE_ALT) });
            let third = if *party == "other" { "trader" } else { "other" };
            v.push(Sub { key: u1.party(third).of(&u1.mint(*id)), what: format!("{third}'s account of the right mint"), expect: Expect::Free(FREE_THIRD) });
        }
        Role::TickArray(p, s) => {
            must(u2.pools[*p].tick_array(*s), "U2 counterpart tick array (same start index)".into());
            for q in others(*p) {
                must(u1.pools[q].tick_array(*s), format!("tick array of U1 sibling pool {} (same start index)", POOL_NAMES[q]));
            }
        }
        Role::PositionFree(p, i) => {
            must(u2.pos[*p][*i].addr, "U2 counterpart position".into());
            for q in others(*p) {
                must(u1.pos[q][*i].addr, format!("position {i} of U1 sibling pool {}", POOL_NAMES[q]));
                for e in u1.empty[q].iter() {
                    must(e.addr, format!("EMPTY position of U1 sibling pool {}", POOL_NAMES[q]));
                }
            }
            for j in (0..u1.pos[*p].len()).filter(|j| j != i) {
                v.push(Sub { key: u1.pos[*p][j].addr, what: format!("position {j} of the same pool"), expect: Expect::Free(FREE_REFRESH) });
            }
        }
        Role::Position(p, i) | Role::PositionTa(p, i) => {
            let ta = matches!(role, Role::PositionTa(..));
            let pick = |pr: &PosRef| if ta { pr.token_account } else { pr.addr };
            let noun = if ta { "token account of " } else { "" };
            must(pick(&u2.pos[*p][*i]), format!("{noun}U2 counterpart position"));
            for j in (0..u1.pos[*p].len()).filter(|j| j != i) {
                must(pick(&u1.pos[*p][j]), format!("{noun}position {j} of the same pool (position and its token account no longer match)"));
            }
            for q in others(*p) {
                must(pick(&u1.pos[q][*i]), format!("{noun}position {i} of U1 sibling pool {}", POOL_NAMES[q]));
            }
            // never-funded positions (liquidity 0) of the same owner: of the sibling pools and of the U2 counterpart
            let me = &u1.pos[*p][*i];
            for (u, uname) in [(u1, "U1"), (u2, "U2")] {
                for q in 0..u.pools.len() {
                    if std::ptr::eq(u, u1) && q == *p {
                        continue;
                    }
                    for e in u.empty[q].iter().filter(|e| e.lower == me.lower && e.upper == me.upper) {
                        must(pick(e), format!("{noun}EMPTY position (same range) of {uname} pool {}", POOL_NAMES[q]));
                    }
                }
            }
        }
        Role::Oracle(p) => {
            must(u2.pools[*p].oracle, "U2 counterpart oracle".into());
            for q in others(*p) {
                must(u1.pools[q].oracle, format!("oracle of U1 sibling pool {}", POOL_NAMES[q]));
            }
        }
        Role::Config => must(u2.cfg.addr, "U2 config".into()),
        Role::RewardVault(p, i) => {
            must(u2.rvault[*p][*i], "U2 counterpart reward vault".into());
            for j in (0..3).filter(|j| j != i) {
                must(u1.rvault[*p][j], format!("the pool's reward vault of index {j}"));
            }
            for q in others(*p) {
                must(u1.rvault[q][*i], format!("reward vault {i} of U1 sibling pool {}", POOL_NAMES[q]));
            }
            must(u1.pools[*p].vault_a, "the pool's token vault A".into());
            must(u1.pools[*p].vault_b, "the pool's token vault B".into());
        }
        Role::TokenProgram(_) => {
            let o = orig(role, u1, l);
            must(if o == TOKEN { T22 } else { TOKEN }, "the other token program (does not own the mint)".into());
            must(MEMO, "the memo program".into());
        }
        Role::Memo => {
            must(TOKEN, "the SPL Token program".into());
            must(ATA, "the associated-token program".into());
            must(system_program::ID, "the system program".into());
        }
        Role::System => {
            must(TOKEN, "the SPL Token program".into());
            must(MEMO, "the memo program".into());
        }
        Role::Signer(s) => match s {
            Sig::Token => {
                must(u2.trader.owner, "U2 trader (signing), who does not own the token accounts".into());
                must(u1.lp.owner, "U1 lp (signing), who does not own the token accounts".into());
            }
            Sig::Position => {
                must(u2.lp.owner, "U2 lp (signing), who does not hold the position token".into());
                must(u1.trader.owner, "U1 trader (signing), who does not hold the position token".into());
            }
            Sig::ProtocolFee => {
                must(u2.cfg.collect_protocol_fees_authority, "U2 config's collect-protocol-fees authority (signing)".into());
                must(u1.cfg.fee_authority, "U1 fee authority (signing)".into());
            }
            Sig::Funder => v.push(Sub { key: u2.funder, what: "U2 funder (signing)".into(), expect: Expect::Free(FREE_FUNDER) }),
            Sig::RewardAuth => {
                must(u2.cfg.reward_emissions_super_authority, "U2's reward authority (signing)".into());
                must(u1.cfg.fee_authority, "U1 fee authority (signing)".into());
            }
        },
    }
    v
}

/// Coarse type of an account, to assert that a substitute is "a well-formed account of the same type".
fn kind(l: &Ledger, k: &Pubkey) -> String {
    match l.get(k) {
        None => "uninitialised".into(),
        Some(a) if a.executable => "program".into(),
        Some(a) if a.owner == TOKEN || a.owner == T22 => {
            // mint (82 bytes or account-type byte 1) vs token account
            let is_mint = a.data.len() == 82 || (a.data.len() > 165 && a.data[165] == 1);
            if is_mint { "mint".into() } else { "token_account".into() }
        }
        Some(a) if a.owner == WP && a.data.len() >= 8 => {
            let d = &a.data[..8];
            if d == crate::decode::FIXED_TA_DISC || d == crate::decode::DYN_TA_DISC {
                "wp:tick_array".into()
            } else {
                format!("wp:{}", d.iter().map(|b| format!("{b:02x}")).collect::<String>())
            }
        }
        Some(a) if a.owner == system_program::ID && a.data.is_empty() => "system".into(),
        Some(_) => "other".into(),
    }
}

// ------------------------------------------------------------------------------------------------
// the instruction matrix
// ------------------------------------------------------------------------------------------------
struct Case {
    /// instruction family (row of the per-instruction table)
    ins: &'static str,
    /// unique within (variant, state)
    name: String,
    ix: Instruction,
    slots: Vec<(String, Role)>,
}

/// A whole-instruction fault (several slots replaced consistently): must be rejected.
struct Compound {
    ins: &'static str,
    name: String,
    what: &'static str,
    ix: Instruction,
    /// the whirlpool error the program is expected to answer with when it is unmodified (recorded, not required)
    expected_code: u32,
}

fn swap_starts(tick_current: i32, a_to_b: bool) -> [i32; 3] {
    let shift = if a_to_b { 0 } else { TS as i32 };
    let s0 = (tick_current + shift).div_euclid(N) * N;
    let d = if a_to_b { -N } else { N };
    [s0, s0 + d, s0 + 2 * d]
}

fn dir(a_to_b: bool) -> &'static str {
    if a_to_b {
        "a2b"
    } else {
        "b2a"
    }
}

fn s(x: &str) -> String {
    x.to_string()
}

fn mid(p: usize, is_a: bool) -> MintId {
    Uni::pool_mint_id(p, is_a)
}

fn case_swap(l: &Ledger, u: &Uni, p: usize, a_to_b: bool, exact_in: bool, v2: bool) -> Case {
    let pool = &u.pools[p];
    let tc = pool.state(l).tick_current_index;
    let st = swap_starts(tc, a_to_b);
    let tas = [pool.tick_array(st[0]), pool.tick_array(st[1]), pool.tick_array(st[2])];
    let args = swap_args(if exact_in { 1_000_000 } else { 400_000 }, a_to_b, exact_in);
    let w = u.trader.wallet(pool);
    let name = format!("{}[{},{},{}]", if v2 { "swap_v2" } else { "swap" }, POOL_NAMES[p], dir(a_to_b), if exact_in { "exact_in" } else { "exact_out" });
    if v2 {
        // one supplemental tick array: the neighbour on the far side of the trade direction
        let supp_start = st[0] - (st[1] - st[0]);
        let ix = ix_swap(pool, &w, args, tas, true, &[pool.tick_array(supp_start)]);
        let slots = vec![
            (s("token_program_a"), Role::TokenProgram(Some(mid(p, true)))),
            (s("token_program_b"), Role::TokenProgram(Some(mid(p, false)))),
            (s("memo_program"), Role::Memo),
            (s("token_authority"), Role::Signer(Sig::Token)),
            (s("whirlpool"), Role::Pool(p)),
            (s("token_mint_a"), Role::Mint(mid(p, true))),
            (s("token_mint_b"), Role::Mint(mid(p, false))),
            (s("token_owner_account_a"), Role::Acct("trader", mid(p, true))),
            (s("token_vault_a"), Role::Vault(p, true)),
            (s("token_owner_account_b"), Role::Acct("trader", mid(p, false))),
            (s("token_vault_b"), Role::Vault(p, false)),
            (s("tick_array_0"), Role::TickArray(p, st[0])),
            (s("tick_array_1"), Role::TickArray(p, st[1])),
            (s("tick_array_2"), Role::TickArray(p, st[2])),
            (s("oracle"), Role::Oracle(p)),
            (s("remaining[0] supplemental tick array"), Role::TickArray(p, supp_start)),
        ];
        Case { ins: "swap_v2", name, ix, slots }
    } else {
        // adaptive-fee pools: the oracle is passed again, writable, as a remaining account (documented v1 convention)
        let rem: Vec<Pubkey> = if p == PA { vec![pool.oracle] } else { vec![] };
        let ix = ix_swap(pool, &w, args, tas, false, &rem);
        let mut slots = vec![
            (s("token_program"), Role::TokenProgram(None)),
            (s("token_authority"), Role::Signer(Sig::Token)),
            (s("whirlpool"), Role::Pool(p)),
            (s("token_owner_account_a"), Role::Acct("trader", mid(p, true))),
            (s("token_vault_a"), Role::Vault(p, true)),
            (s("token_owner_account_b"), Role::Acct("trader", mid(p, false))),
            (s("token_vault_b"), Role::Vault(p, false)),
            (s("tick_array_0"), Role::TickArray(p, st[0])),
            (s("tick_array_1"), Role::TickArray(p, st[1])),
            (s("tick_array_2"), Role::TickArray(p, st[2])),
            (s("oracle"), Role::Oracle(p)),
        ];
        if p == PA {
            slots.push((s("remaining[0] oracle (writable)"), Role::Oracle(p)));
        }
        Case { ins: "swap", name, ix, slots }
    }
}

struct Hop {
    p1: usize,
    d1: bool,
    p2: usize,
    d2: bool,
}

fn two_hop_ix(l: &Ledger, u: &Uni, h: &Hop, exact_in: bool, v2: bool, with_supplemental: bool) -> (Instruction, [i32; 3], [i32; 3], Option<(i32, i32)>) {
    let (a, b) = (&u.pools[h.p1], &u.pools[h.p2]);
    let s1 = swap_starts(a.state(l).tick_current_index, h.d1);
    let s2 = swap_starts(b.state(l).tick_current_index, h.d2);
    let t1 = [a.tick_array(s1[0]), a.tick_array(s1[1]), a.tick_array(s1[2])];
    let t2 = [b.tick_array(s2[0]), b.tick_array(s2[1]), b.tick_array(s2[2])];
    let args = TwoHopArgs {
        amount: if exact_in { 1_000_000 } else { 300_000 },
        other_amount_threshold: if exact_in { 0 } else { u64::MAX },
        amount_specified_is_input: exact_in,
        a_to_b_one: h.d1,
        a_to_b_two: h.d2,
    };
    if v2 {
        let min = u.mint(mid(h.p1, h.d1));
        let mout = u.mint(mid(h.p2, !h.d2));
        let (x1, x2) = (s1[0] - (s1[1] - s1[0]), s2[0] - (s2[1] - s2[0]));
        // (the whole-leg faults go without supplemental arrays: over one pool the two legs' array sets must stay disjoint)
        let (sp1, sp2) = if with_supplemental { (vec![a.tick_array(x1)], vec![b.tick_array(x2)]) } else { (vec![], vec![]) };
        let ix = ix_two_hop_v2(l, a, b, u.trader.owner, u.trader.of(&min), u.trader.of(&mout), t1, t2, args, &sp1, &sp2);
        (ix, s1, s2, Some((x1, x2)))
    } else {
        let mut rem = vec![];
        for p in [h.p1, h.p2] {
            if p == PA {
                rem.push(u.pools[p].oracle);
            }
        }
        let ix = ix_two_hop_v1(a, b, u.trader.owner, &u.trader.wallet(a), &u.trader.wallet(b), t1, t2, args, &rem);
        (ix, s1, s2, None)
    }
}

fn case_two_hop(l: &Ledger, u: &Uni, h: &Hop, exact_in: bool, v2: bool) -> Case {
    let (ix, s1, s2, supp) = two_hop_ix(l, u, h, exact_in, v2, true);
    let name = format!(
        "{}[{} {} -> {} {},{}]",
        if v2 { "two_hop_swap_v2" } else { "two_hop_swap" },
        POOL_NAMES[h.p1],
        dir(h.d1),
        POOL_NAMES[h.p2],
        dir(h.d2),
        if exact_in { "exact_in" } else { "exact_out" }
    );
    let (p1, p2) = (h.p1, h.p2);
    if v2 {
        let (m_in, m_mid, m_out) = (mid(p1, h.d1), mid(p1, !h.d1), mid(p2, !h.d2));
        let (x1, x2) = supp.unwrap();
        let slots = vec![
            (s("whirlpool_one"), Role::Pool(p1)),
            (s("whirlpool_two"), Role::Pool(p2)),
            (s("token_mint_input"), Role::Mint(m_in)),
            (s("token_mint_intermediate"), Role::Mint(m_mid)),
            (s("token_mint_output"), Role::Mint(m_out)),
            (s("token_program_input"), Role::TokenProgram(Some(m_in))),
            (s("token_program_intermediate"), Role::TokenProgram(Some(m_mid))),
            (s("token_program_output"), Role::TokenProgram(Some(m_out))),
            (s("token_owner_account_input"), Role::Acct("trader", m_in)),
            (s("token_vault_one_input"), Role::Vault(p1, h.d1)),
            (s("token_vault_one_intermediate"), Role::Vault(p1, !h.d1)),
            (s("token_vault_two_intermediate"), Role::Vault(p2, h.d2)),
            (s("token_vault_two_output"), Role::Vault(p2, !h.d2)),
            (s("token_owner_account_output"), Role::Acct("trader", m_out)),
            (s("token_authority"), Role::Signer(Sig::Token)),
            (s("tick_array_one_0"), Role::TickArray(p1, s1[0])),
            (s("tick_array_one_1"), Role::TickArray(p1, s1[1])),
            (s("tick_array_one_2"), Role::TickArray(p1, s1[2])),
            (s("tick_array_two_0"), Role::TickArray(p2, s2[0])),
            (s("tick_array_two_1"), Role::TickArray(p2, s2[1])),
            (s("tick_array_two_2"), Role::TickArray(p2, s2[2])),
            (s("oracle_one"), Role::Oracle(p1)),
            (s("oracle_two"), Role::Oracle(p2)),
            (s("memo_program"), Role::Memo),
            (s("remaining[0] supplemental tick array one"), Role::TickArray(p1, x1)),
            (s("remaining[1] supplemental tick array two"), Role::TickArray(p2, x2)),
        ];
        Case { ins: "two_hop_swap_v2", name, ix, slots }
    } else {
        let mut slots = vec![
            (s("token_program"), Role::TokenProgram(None)),
            (s("token_authority"), Role::Signer(Sig::Token)),
            (s("whirlpool_one"), Role::Pool(p1)),
            (s("whirlpool_two"), Role::Pool(p2)),
            (s("token_owner_account_one_a"), Role::Acct("trader", mid(p1, true))),
            (s("token_vault_one_a"), Role::Vault(p1, true)),
            (s("token_owner_account_one_b"), Role::Acct("trader", mid(p1, false))),
            (s("token_vault_one_b"), Role::Vault(p1, false)),
            (s("token_owner_account_two_a"), Role::Acct("trader", mid(p2, true))),
            (s("token_vault_two_a"), Role::Vault(p2, true)),
            (s("token_owner_account_two_b"), Role::Acct("trader", mid(p2, false))),
            (s("token_vault_two_b"), Role::Vault(p2, false)),
            (s("tick_array_one_0"), Role::TickArray(p1, s1[0])),
            (s("tick_array_one_1"), Role::TickArray(p1, s1[1])),
            (s("tick_array_one_2"), Role::TickArray(p1, s1[2])),
            (s("tick_array_two_0"), Role::TickArray(p2, s2[0])),
            (s("tick_array_two_1"), Role::TickArray(p2, s2[1])),
            (s("tick_array_two_2"), Role::TickArray(p2, s2[2])),
            (s("oracle_one"), Role::Oracle(p1)),
            (s("oracle_two"), Role::Oracle(p2)),
        ];
        let mut k = 0;
        for p in [p1, p2] {
            if p == PA {
                slots.push((format!("remaining[{k}] oracle (writable)"), Role::Oracle(p)));
                k += 1;
            }
        }
        Case { ins: "two_hop_swap", name, ix, slots }
    }
}

#[derive(Clone, Copy, PartialEq, Eq, Debug)]
enum Liq {
    Inc,
    Dec,
    IncByAmounts,
}

fn case_liquidity(u: &Uni, p: usize, i: usize, kind: Liq, v2: bool) -> Case {
    let pos = &u.pos[p][i];
    let w = u.lp.wallet(&u.pools[p]);
    let (ins, ix): (&'static str, Instruction) = match (kind, v2) {
        (Liq::Inc, false) => ("increase_liquidity", ix_increase(pos, &w, 5_000_000, u64::MAX, u64::MAX, false)),
        (Liq::Inc, true) => ("increase_liquidity_v2", ix_increase(pos, &w, 5_000_000, u64::MAX, u64::MAX, true)),
        (Liq::Dec, false) => ("decrease_liquidity", ix_decrease(pos, &w, 7_000_000, 0, 0, false)),
        (Liq::Dec, true) => ("decrease_liquidity_v2", ix_decrease(pos, &w, 7_000_000, 0, 0, true)),
        (Liq::IncByAmounts, _) => (
            "increase_liquidity_by_token_amounts_v2",
            ix_increase_by_token_amounts(pos, &w, 2_000_000, 2_000_000, crate::refmodel::MIN_SQRT_PRICE, crate::refmodel::MAX_SQRT_PRICE),
        ),
    };
    let pool = &u.pools[p];
    let (lo, hi) = (pool.array_start(pos.lower), pool.array_start(pos.upper));
    let slots = if v2 || kind == Liq::IncByAmounts {
        vec![
            (s("whirlpool"), Role::Pool(p)),
            (s("token_program_a"), Role::TokenProgram(Some(mid(p, true)))),
            (s("token_program_b"), Role::TokenProgram(Some(mid(p, false)))),
            (s("memo_program"), Role::Memo),
            (s("position_authority"), Role::Signer(Sig::Position)),
            (s("position"), Role::Position(p, i)),
            (s("position_token_account"), Role::PositionTa(p, i)),
            (s("token_mint_a"), Role::Mint(mid(p, true))),
            (s("token_mint_b"), Role::Mint(mid(p, false))),
            (s("token_owner_account_a"), Role::Acct("lp", mid(p, true))),
            (s("token_owner_account_b"), Role::Acct("lp", mid(p, false))),
            (s("token_vault_a"), Role::Vault(p, true)),
            (s("token_vault_b"), Role::Vault(p, false)),
            (s("tick_array_lower"), Role::TickArray(p, lo)),
            (s("tick_array_upper"), Role::TickArray(p, hi)),
        ]
    } else {
        vec![
            (s("whirlpool"), Role::Pool(p)),
            (s("token_program"), Role::TokenProgram(None)),
            (s("position_authority"), Role::Signer(Sig::Position)),
            (s("position"), Role::Position(p, i)),
            (s("position_token_account"), Role::PositionTa(p, i)),
            (s("token_owner_account_a"), Role::Acct("lp", mid(p, true))),
            (s("token_owner_account_b"), Role::Acct("lp", mid(p, false))),
            (s("token_vault_a"), Role::Vault(p, true)),
            (s("token_vault_b"), Role::Vault(p, false)),
            (s("tick_array_lower"), Role::TickArray(p, lo)),
            (s("tick_array_upper"), Role::TickArray(p, hi)),
        ]
    };
    Case { ins, name: format!("{ins}[{},pos{i}]", POOL_NAMES[p]), ix, slots }
}

fn case_reposition(u: &Uni, p: usize, i: usize) -> Case {
    let pos = &u.pos[p][i];
    let pool = &u.pools[p];
    let ix = ix_reposition(pos, &u.lp.wallet(pool), u.funder, NEW_RANGE.0, NEW_RANGE.1, LIQ / 2);
    let slots = vec![
        (s("whirlpool"), Role::Pool(p)),
        (s("token_program_a"), Role::TokenProgram(Some(mid(p, true)))),
        (s("token_program_b"), Role::TokenProgram(Some(mid(p, false)))),
        (s("memo_program"), Role::Memo),
        (s("position_authority"), Role::Signer(Sig::Position)),
        (s("funder"), Role::Signer(Sig::Funder)),
        (s("position"), Role::Position(p, i)),
        (s("position_token_account"), Role::PositionTa(p, i)),
        (s("token_mint_a"), Role::Mint(mid(p, true))),
        (s("token_mint_b"), Role::Mint(mid(p, false))),
        (s("token_owner_account_a"), Role::Acct("lp", mid(p, true))),
        (s("token_owner_account_b"), Role::Acct("lp", mid(p, false))),
        (s("token_vault_a"), Role::Vault(p, true)),
        (s("token_vault_b"), Role::Vault(p, false)),
        (s("existing_tick_array_lower"), Role::TickArray(p, pool.array_start(pos.lower))),
        (s("existing_tick_array_upper"), Role::TickArray(p, pool.array_start(pos.upper))),
        (s("new_tick_array_lower"), Role::TickArray(p, pool.array_start(NEW_RANGE.0))),
        (s("new_tick_array_upper"), Role::TickArray(p, pool.array_start(NEW_RANGE.1))),
        (s("system_program"), Role::System),
    ];
    Case { ins: "reposition_liquidity_v2", name: format!("reposition_liquidity_v2[{},pos{i}]", POOL_NAMES[p]), ix, slots }
}

fn case_collect_fees(u: &Uni, p: usize, i: usize, v2: bool) -> Case {
    let pos = &u.pos[p][i];
    let ix = ix_collect_fees(pos, &u.lp.wallet(&u.pools[p]), v2);
    let ins = if v2 { "collect_fees_v2" } else { "collect_fees" };
    let slots = if v2 {
        vec![
            (s("whirlpool"), Role::Pool(p)),
            (s("position_authority"), Role::Signer(Sig::Position)),
            (s("position"), Role::Position(p, i)),
            (s("position_token_account"), Role::PositionTa(p, i)),
            (s("token_mint_a"), Role::Mint(mid(p, true))),
            (s("token_mint_b"), Role::Mint(mid(p, false))),
            (s("token_owner_account_a"), Role::Acct("lp", mid(p, true))),
            (s("token_vault_a"), Role::Vault(p, true)),
            (s("token_owner_account_b"), Role::Acct("lp", mid(p, false))),
            (s("token_vault_b"), Role::Vault(p, false)),
            (s("token_program_a"), Role::TokenProgram(Some(mid(p, true)))),
            (s("token_program_b"), Role::TokenProgram(Some(mid(p, false)))),
            (s("memo_program"), Role::Memo),
        ]
    } else {
        vec![
            (s("whirlpool"), Role::Pool(p)),
            (s("position_authority"), Role::Signer(Sig::Position)),
            (s("position"), Role::Position(p, i)),
            (s("position_token_account"), Role::PositionTa(p, i)),
            (s("token_owner_account_a"), Role::Acct("lp", mid(p, true))),
            (s("token_vault_a"), Role::Vault(p, true)),
            (s("token_owner_account_b"), Role::Acct("lp", mid(p, false))),
            (s("token_vault_b"), Role::Vault(p, false)),
            (s("token_program"), Role::TokenProgram(None)),
        ]
    };
    Case { ins, name: format!("{ins}[{},pos{i}]", POOL_NAMES[p]), ix, slots }
}

fn case_collect_reward(l: &Ledger, u: &Uni, p: usize, i: usize, idx: usize, v2: bool) -> Case {
    let pos = &u.pos[p][i];
    let rid = Uni::reward_mint_id(p, idx);
    let mint = u.mint(rid);
    let ix = ix_collect_reward(pos, u.lp.owner, u.lp.of(&mint), mint, prog_of(l, &mint), u.rvault[p][idx], idx as u8, v2);
    let ins = if v2 { "collect_reward_v2" } else { "collect_reward" };
    let mut slots = vec![
        (s("whirlpool"), Role::Pool(p)),
        (s("position_authority"), Role::Signer(Sig::Position)),
        (s("position"), Role::Position(p, i)),
        (s("position_token_account"), Role::PositionTa(p, i)),
        (s("reward_owner_account"), Role::Acct("lp", rid)),
    ];
    if v2 {
        slots.push((s("reward_mint"), Role::Mint(rid)));
        slots.push((s("reward_vault"), Role::RewardVault(p, idx)));
        slots.push((s("reward_token_program"), Role::TokenProgram(Some(rid))));
        slots.push((s("memo_program"), Role::Memo));
    } else {
        slots.push((s("reward_vault"), Role::RewardVault(p, idx)));
        slots.push((s("token_program"), Role::TokenProgram(None)));
    }
    Case { ins, name: format!("{ins}[{},pos{i},reward{idx}]", POOL_NAMES[p]), ix, slots }
}

/// update_fees_and_rewards: moves no funds itself, but writes the amounts the collect instructions later pay out — computed from
/// the growth counters of whatever pool account it is given.
fn case_update_fees(u: &Uni, p: usize, i: usize) -> Case {
    let pos = &u.pos[p][i];
    let ix = ix_update_fees_and_rewards(pos);
    let slots = vec![
        (s("whirlpool"), Role::Pool(p)),
        (s("position"), Role::PositionFree(p, i)),
        (s("tick_array_lower"), Role::TickArray(p, u.pools[p].array_start(pos.lower))),
        (s("tick_array_upper"), Role::TickArray(p, u.pools[p].array_start(pos.upper))),
    ];
    Case { ins: "update_fees_and_rewards", name: format!("update_fees_and_rewards[{},pos{i}]", POOL_NAMES[p]), ix, slots }
}

/// set_reward_emissions(_v2): moves no funds, but its vault slot decides whether "the vault holds a day of emissions" is checked
/// against the right account ("a reward vault of another reward index" is named in the statement).
fn case_set_reward_emissions(u: &Uni, p: usize, idx: usize, v2: bool) -> Case {
    let ix = ix_set_reward_emissions(&u.pools[p], u.cfg.reward_emissions_super_authority, u.rvault[p][idx], idx as u8, (7u128 << 64) + idx as u128 + v2 as u128, v2);
    let ins = if v2 { "set_reward_emissions_v2" } else { "set_reward_emissions" };
    let slots = vec![(s("whirlpool"), Role::Pool(p)), (s("reward_authority"), Role::Signer(Sig::RewardAuth)), (s("reward_vault"), Role::RewardVault(p, idx))];
    Case { ins, name: format!("{ins}[{},reward{idx}]", POOL_NAMES[p]), ix, slots }
}

fn case_collect_protocol_fees(u: &Uni, p: usize, v2: bool) -> Case {
    let pool = &u.pools[p];
    let ix = ix_collect_protocol_fees(pool, u.cfg.collect_protocol_fees_authority, u.feedest.of(&pool.mint_a), u.feedest.of(&pool.mint_b), v2);
    let ins = if v2 { "collect_protocol_fees_v2" } else { "collect_protocol_fees" };
    let mut slots = vec![(s("whirlpools_config"), Role::Config), (s("whirlpool"), Role::Pool(p)), (s("collect_protocol_fees_authority"), Role::Signer(Sig::ProtocolFee))];
    if v2 {
        slots.push((s("token_mint_a"), Role::Mint(mid(p, true))));
        slots.push((s("token_mint_b"), Role::Mint(mid(p, false))));
    }
    slots.push((s("token_vault_a"), Role::Vault(p, true)));
    slots.push((s("token_vault_b"), Role::Vault(p, false)));
    slots.push((s("token_destination_a"), Role::Acct("feedest", mid(p, true))));
    slots.push((s("token_destination_b"), Role::Acct("feedest", mid(p, false))));
    if v2 {
        slots.push((s("token_program_a"), Role::TokenProgram(Some(mid(p, true)))));
        slots.push((s("token_program_b"), Role::TokenProgram(Some(mid(p, false)))));
        slots.push((s("memo_program"), Role::Memo));
    } else {
        slots.push((s("token_program"), Role::TokenProgram(None)));
    }
    Case { ins, name: format!("{ins}[{}]", POOL_NAMES[p]), ix, slots }
}

const HOPS_OK: [Hop; 4] = [
    Hop { p1: P1, d1: true, p2: P2, d2: true },   // m0 -> m1 -> m2
    Hop { p1: P2, d1: false, p2: P1, d2: false }, // m2 -> m1 -> m0
    Hop { p1: PA, d1: true, p2: P2, d2: true },   // adaptive first leg
    Hop { p1: P2, d1: false, p2: PA, d2: false }, // adaptive second leg
];

fn cases(l: &Ledger, u: &Uni, v: Variant, thorough: bool) -> Vec<Case> {
    let mut out = vec![];
    let v1 = v == Variant::Spl;
    let versions: &[bool] = if v1 { &[false, true] } else { &[true] };
    for &v2 in versions {
        // swaps
        for p in [P1, PA, P2] {
            if p == P2 && !thorough {
                continue;
            }
            for a_to_b in [true, false] {
                for exact_in in [true, false] {
                    if !thorough && (a_to_b != exact_in) {
                        continue;
                    }
                    out.push(case_swap(l, u, p, a_to_b, exact_in, v2));
                }
            }
        }
        for (k, h) in HOPS_OK.iter().enumerate() {
            if !thorough && k % 2 == 1 && k != 3 {
                continue;
            }
            out.push(case_two_hop(l, u, h, true, v2));
            if thorough || k == 0 {
                out.push(case_two_hop(l, u, h, false, v2));
            }
        }
        // liquidity
        for p in [P1, PA, P2] {
            if p != P1 && !thorough {
                continue;
            }
            for i in 0..3 {
                if i == 1 && !thorough {
                    continue;
                }
                out.push(case_liquidity(u, p, i, Liq::Inc, v2));
                out.push(case_liquidity(u, p, i, Liq::Dec, v2));
                if v2 {
                    out.push(case_liquidity(u, p, i, Liq::IncByAmounts, true));
                }
                out.push(case_collect_fees(u, p, i, v2));
                if v2 {
                    out.push(case_update_fees(u, p, i));
                }
                for idx in 0..3 {
                    if !thorough && i != 0 && idx != 1 {
                        continue;
                    }
                    out.push(case_collect_reward(l, u, p, i, idx, v2));
                }
            }
            if v2 {
                out.push(case_reposition(u, p, 0));
                if thorough {
                    out.push(case_reposition(u, p, 1));
                }
            }
        }
        for p in [P1, PA, P2] {
            out.push(case_collect_protocol_fees(u, p, v2));
            for idx in 0..3 {
                if thorough || idx == 1 {
                    out.push(case_set_reward_emissions(u, p, idx, v2));
                }
            }
        }
    }
    out
}

fn compounds(l: &Ledger, u: &Uni, v: Variant) -> Vec<Compound> {
    let mut out = vec![];
    let versions: &[bool] = if v == Variant::Spl { &[false, true] } else { &[true] };
    for &v2 in versions {
        let ins: &'static str = if v2 { "two_hop_swap_v2" } else { "two_hop_swap" };
        for (h, what, code) in [
            (Hop { p1: P1, d1: true, p2: P1, d2: false }, "the same pool twice (P1 a2b then P1 b2a)", 6042u32),
            (Hop { p1: P2, d1: false, p2: P2, d2: true }, "the same pool twice (P2 b2a then P2 a2b)", 6042),
            (Hop { p1: PA, d1: true, p2: PA, d2: false }, "the same pool twice (PA a2b then PA b2a)", 6042),
            (Hop { p1: P1, d1: true, p2: P2, d2: false }, "pools not chained by the intermediate mint (P1 gives m1, P2 b2a takes m2)", 6041),
            (Hop { p1: P1, d1: true, p2: PA, d2: true }, "pools not chained by the intermediate mint (P1 gives m1, PA a2b takes m0)", 6041),
            (Hop { p1: P1, d1: false, p2: P2, d2: true }, "pools not chained by the intermediate mint (P1 b2a gives m0, P2 a2b takes m1)", 6041),
        ] {
            for exact_in in [true, false] {
                let (ix, ..) = two_hop_ix(l, u, &h, exact_in, v2, false);
                out.push(Compound {
                    ins,
                    name: format!("{ins}[{} {} -> {} {},{}]", POOL_NAMES[h.p1], dir(h.d1), POOL_NAMES[h.p2], dir(h.d2), if exact_in { "exact_in" } else { "exact_out" }),
                    what,
                    ix,
                    expected_code: code,
                });
            }
        }
    }
    out
}

// ------------------------------------------------------------------------------------------------
// evaluation
// ------------------------------------------------------------------------------------------------
#[derive(Default)]
struct Row {
    slots: usize,
    happy: u64,
    substitutions: u64,
    must_fail: u64,
    free: u64,
    free_accepted: u64,
    compound: u64,
    codes: BTreeSet<String>,
}

/// Several slots replaced together by a mutually consistent foreign group. A single-slot substitution of one member
/// of such a group is rejected by the group's own consistency check (position <-> its token account, config <-> its
/// authority), which would hide a missing pool-membership check; the consistent group leaves only that check.
struct Multi {
    repl: Vec<(usize, Pubkey)>,
    what: String,
    expect: Expect,
}

const FREE_REFRESH: &str = "update_fees_and_rewards is permissionless bookkeeping: another position of the SAME pool (whose bounds lie in the named tick arrays) is a legitimate argument; with other arrays the instruction fails on its own";
const FREE_SAME_POOL_POSITION: &str = "another position of the SAME pool together with its own token account, held by the same signing authority: a legitimate instruction on that position";

fn multis(c: &Case, u1: &Uni, u2: &Uni, l: &Ledger) -> Vec<Multi> {
    let mut out = vec![];
    let find = |pred: &dyn Fn(&Role) -> bool| c.slots.iter().position(|(_, r)| pred(r));
    // (position, position_token_account)
    // (instructions without a position token account slot — update_fees_and_rewards — have no such group)
    if let (Some(ip), Some(it)) = (find(&|r| matches!(r, Role::Position(..))), find(&|r| matches!(r, Role::PositionTa(..)))) {
        let Role::Position(p, i) = c.slots[ip].1.clone() else { unreachable!() };
        // the arrays named by the instruction must still fit, so only positions with the same range are paired
        let same_range = |a: &PosRef, b: &PosRef| a.lower == b.lower && a.upper == b.upper;
        let me = &u1.pos[p][i];
        out.push(Multi { repl: vec![(ip, u2.pos[p][i].addr), (it, u2.pos[p][i].token_account)], what: "position + its token account of the U2 counterpart".into(), expect: Expect::MustFail });
        for q in (0..u1.pools.len()).filter(|q| *q != p) {
            let o = &u1.pos[q][i];
            out.push(Multi {
                repl: vec![(ip, o.addr), (it, o.token_account)],
                what: format!("position {i} + its token account of U1 sibling pool {} (same owner, same range)", POOL_NAMES[q]),
                expect: Expect::MustFail,
            });
        }
        // ... and with the foreign position's OWN tick arrays as well (liquidity instructions): position, token account and arrays then
        // agree with each other and only the pool the instruction names (whose mints and vaults are used) does not own them
        let ta_slots: Vec<(usize, i32)> = c.slots.iter().enumerate().filter_map(|(k, (_, r))| if let Role::TickArray(_, st) = r { Some((k, *st)) } else { None }).collect();
        if !ta_slots.is_empty() {
            let mut crossed = |pool: &crate::world::PoolRef, o: &PosRef, what: String| {
                let mut repl = vec![(ip, o.addr), (it, o.token_account)];
                for (k, st) in &ta_slots {
                    repl.push((*k, pool.tick_array(*st)));
                }
                repl.retain(|(k, key)| c.ix.accounts[*k].pubkey != *key);
                out.push(Multi { repl, what, expect: Expect::MustFail });
            };
            crossed(&u2.pools[p], &u2.pos[p][i], "position + its token account + its tick arrays of the U2 counterpart".into());
            for q in (0..u1.pools.len()).filter(|q| *q != p) {
                crossed(&u1.pools[q], &u1.pos[q][i], format!("position {i} + its token account + its tick arrays of U1 sibling pool {}", POOL_NAMES[q]));
            }
        }
        // the same with positions that were never funded: a check that is only reached once a position holds liquidity is not a check
        for (u, uname) in [(u1, "U1"), (u2, "U2")] {
            for q in 0..u.pools.len() {
                if std::ptr::eq(u, u1) && q == p {
                    continue;
                }
                for e in u.empty[q].iter().filter(|e| same_range(me, e)) {
                    out.push(Multi {
                        repl: vec![(ip, e.addr), (it, e.token_account)],
                        what: format!("EMPTY position + its token account of {uname} pool {} (same owner, same range, liquidity 0)", POOL_NAMES[q]),
                        expect: Expect::MustFail,
                    });
                }
            }
        }
        for j in (0..u1.pos[p].len()).filter(|j| *j != i) {
            let o = &u1.pos[p][j];
            if same_range(me, o) {
                out.push(Multi { repl: vec![(ip, o.addr), (it, o.token_account)], what: format!("position {j} + its token account of the same pool"), expect: Expect::Free(FREE_SAME_POOL_POSITION) });
            }
        }
    }
    // (config, its collect-protocol-fees authority)
    if let Some(ic) = find(&|r| matches!(r, Role::Config)) {
        let ia = find(&|r| matches!(r, Role::Signer(Sig::ProtocolFee))).expect("authority slot");
        out.push(Multi {
            repl: vec![(ic, u2.cfg.addr), (ia, u2.cfg.collect_protocol_fees_authority)],
            what: "U2 config + U2's own collect-protocol-fees authority (signing)".into(),
            expect: Expect::MustFail,
        });
    }
    // collect_reward: the complete, mutually consistent account set of ANOTHER reward index
    if let Some(iv) = find(&|r| matches!(r, Role::RewardVault(..))) {
        let Role::RewardVault(p, idx) = c.slots[iv].1.clone() else { unreachable!() };
        for j in (0..3).filter(|j| *j != idx) {
            let (from, to) = (Uni::reward_mint_id(p, idx), Uni::reward_mint_id(p, j));
            let mut repl = vec![(iv, u1.rvault[p][j])];
            if from != to {
                for (k, (_, r)) in c.slots.iter().enumerate() {
                    match r {
                        Role::Acct(party, id) if *id == from => repl.push((k, u1.party(party).of(&u1.mint(to)))),
                        Role::Mint(id) if *id == from => repl.push((k, u1.mint(to))),
                        Role::TokenProgram(Some(id)) if *id == from => repl.push((k, prog_of(l, &u1.mint(to)))),
                        _ => {}
                    }
                }
            }
            // identical replacements (same token program) are dropped
            repl.retain(|(k, key)| c.ix.accounts[*k].pubkey != *key);
            if repl.len() > 1 {
                out.push(Multi { repl, what: format!("the complete account set (vault, mint, owner account, token program) of reward index {j}"), expect: Expect::MustFail });
            }
        }
    }
    out
}

fn substituted_many(ix: &Instruction, repl: &[(usize, Pubkey)]) -> Instruction {
    let mut x = ix.clone();
    for (i, k) in repl {
        x.accounts[*i].pubkey = *k;
    }
    x
}

/// The instruction with slot `i` replaced (the meta keeps its signer / writable flags).
fn substituted(ix: &Instruction, i: usize, k: Pubkey) -> Instruction {
    let mut x = ix.clone();
    x.accounts[i].pubkey = k;
    x
}

/// Run an instruction that is expected to be rejected on a copy of the ledger. Ok(code) when rejected.
/// `ix` with account `i` marked read-only, from state `l`; `hl` is the state after the unmodified instruction.
fn run_readonly(l: &Ledger, hl: &Ledger, ix: &Instruction, i: usize) -> Result<(), String> {
    let mut fx = ix.clone();
    let key = fx.accounts[i].pubkey;
    for m in fx.accounts.iter_mut() {
        if m.pubkey == key {
            m.is_writable = false;
        }
    }
    let mut cl = l.clone();
    let o = svm::process(&mut cl, &fx);
    if o.ok() {
        if cl != *hl {
            return Err("the instruction SUCCEEDED but ended in a different state than with the account writable".into());
        }
    } else if cl != *l {
        return Err(format!("the instruction failed ({}) but changed the ledger", o.short()));
    }
    Ok(())
}

fn run_faulty(l: &Ledger, ix: &Instruction) -> Result<String, String> {
    let mut c = l.clone();
    let o = svm::process(&mut c, ix);
    if o.ok() {
        return Err("accepted".into());
    }
    if c != *l {
        return Err(format!("rejected ({}) but the ledger changed", o.short()));
    }
    Ok(short_code(&o))
}

fn short_code(o: &svm::Outcome) -> String {
    let sc = o.short();
    // keep the code table small: CPI failures carry a long message
    if let Some(rest) = sc.strip_prefix("cpi:") {
        let t: String = rest.chars().take(60).collect();
        format!("cpi:{t}")
    } else {
        sc
    }
}

/// `Pubkey::log()` (called by Anchor when it reports a constraint error with the two keys) is a plain `println!`
/// off chain; thousands of rejected instructions would bury the verdict lines. Standard output is parked on
/// /dev/null while the matrix runs (verdict lines are printed by `report::finish` afterwards).
struct MuteStdout(i32);
extern "C" {
    fn dup(fd: i32) -> i32;
    fn dup2(old: i32, new: i32) -> i32;
    fn close(fd: i32) -> i32;
}
impl MuteStdout {
    fn new() -> MuteStdout {
        use std::io::Write;
        use std::os::fd::AsRawFd;
        let _ = std::io::stdout().flush();
        let saved = unsafe { dup(1) };
        if saved >= 0 {
            if let Ok(f) = std::fs::OpenOptions::new().write(true).open("/dev/null") {
                unsafe { dup2(f.as_raw_fd(), 1) };
            }
        }
        MuteStdout(saved)
    }
}
impl Drop for MuteStdout {
    fn drop(&mut self) {
        use std::io::Write;
        let _ = std::io::stdout().flush();
        if self.0 >= 0 {
            unsafe {
                dup2(self.0, 1);
                close(self.0);
            }
        }
    }
}

pub fn run(ctx: &Ctx) -> Report {
    let _mute = MuteStdout::new();
    let mut r = Report::new("C15", "fault_enumeration");
    let thorough = !ctx.tier.is_quick();
    let mut rows: BTreeMap<&'static str, Row> = BTreeMap::new();
    let mut by_class: BTreeMap<&'static str, u64> = BTreeMap::new();
    let mut evaluations = 0u64;
    let mut readonly_variants = 0u64;
    let mut nontrivial = 0u64;
    let mut free_executed = 0u64;
    let mut free_accepted = 0u64;
    let mut happy_ok = 0u64;
    let mut happy_failed: Vec<String> = vec![];
    let mut compound_n = 0u64;
    let mut sampled: BTreeSet<&'static str> = BTreeSet::new();
    let mut group_n = 0u64;
    let mut without_twin = 0u64;
    let mut compound_expected_code = 0u64;
    let mut states_n = 0u64;
    let mut worlds_ok = true;
    let mut exhaustive = true;
    let mut free_table: BTreeMap<&'static str, BTreeSet<String>> = BTreeMap::new();

    'outer: for v in [Variant::Spl, Variant::Mixed] {
        let built = std::panic::catch_unwind(|| root_states(v, thorough));
        let states = match built {
            Ok(s) => s,
            Err(e) => {
                let m = e.downcast_ref::<String>().cloned().or_else(|| e.downcast_ref::<&str>().map(|x| x.to_string())).unwrap_or_default();
                eprintln!("C15: world {} could not be built: {m}", v.name());
                worlds_ok = false;
                continue;
            }
        };
        for (sname, l, u1, u2) in &states {
            states_n += 1;
            for c in cases(l, u1, v, thorough) {
                if ctx.left() < 0.0 {
                    exhaustive = false;
                    break 'outer;
                }
                // update_fees_and_rewards only changes something once time has passed since the last accrual: judge it a minute later
                let later;
                let l = if c.ins == "update_fees_and_rewards" {
                    let mut t = l.clone();
                    t.unix_ts += 60;
                    later = t;
                    &later
                } else {
                    l
                };
                let row = rows.entry(c.ins).or_default();
                row.slots = row.slots.max(c.slots.len());
                // the slot table must describe the instruction that is executed
                assert_eq!(c.slots.len(), c.ix.accounts.len(), "{}: slot table length", c.name);
                for (i, (n, role)) in c.slots.iter().enumerate() {
                    assert_eq!(orig(role, u1, l), c.ix.accounts[i].pubkey, "{}: slot {i} ({n}) is not what the table says", c.name);
                }
                // The twin must succeed for a rejection to mean anything. If it does not (machinery failure, exit 2),
                // the substitutions are still executed: an ACCEPTED foreign account is a violation whatever the twin does.
                let mut hl = l.clone();
                let ho = svm::process(&mut hl, &c.ix);
                let twin_ok = if !ho.ok() {
                    happy_failed.push(format!("{}/{}/{}: {}", v.name(), sname, c.name, ho.short()));
                    false
                } else if hl == *l {
                    happy_failed.push(format!("{}/{}/{}: succeeded without changing anything", v.name(), sname, c.name));
                    false
                } else {
                    happy_ok += 1;
                    row.happy += 1;
                    true
                };
                // account flags: every writable, non-signing slot handed over READ-ONLY — the instruction either fails (changing
                // nothing) or ends in exactly the state of the unmodified instruction; it never acts on the pool while leaving
                // out a write it owes to that account (e.g. trading on an adaptive-fee pool without recording it in the oracle)
                if twin_ok {
                    for i in 0..c.ix.accounts.len() {
                        if !c.ix.accounts[i].is_writable || c.ix.accounts[i].is_signer {
                            continue;
                        }
                        evaluations += 1;
                        readonly_variants += 1;
                        if let Err(how) = run_readonly(l, &hl, &c.ix, i) {
                            r.violation(
                                format!("{}/{}/{}/readonly{}", v.name(), sname, c.name, i),
                                format!("{} (variant {}, state {}): slot {i} `{}` = {} was handed over read-only and {how}", c.name, v.name(), sname, c.slots[i].0, c.ix.accounts[i].pubkey),
                                json!({"variant": v.name(), "state": sname, "case": c.name, "readonly": i}),
                            );
                        }
                    }
                }
                for m in multis(&c, u1, u2, l) {
                    for (k, key) in &m.repl {
                        assert_ne!(c.ix.accounts[*k].pubkey, *key, "{}: {}: group member equals the original", c.name, m.what);
                        assert_eq!(kind(l, &c.ix.accounts[*k].pubkey), kind(l, key), "{}: {}: group member is not of the slot's type", c.name, m.what);
                    }
                    let fx = substituted_many(&c.ix, &m.repl);
                    evaluations += 1;
                    row.substitutions += 1;
                    match &m.expect {
                        Expect::Free(_) if !twin_ok => {}
                        Expect::Free(why) => {
                            free_executed += 1;
                            row.free += 1;
                            free_table.entry(*why).or_default().insert(format!("group <- {}", m.what));
                            let mut cl = l.clone();
                            let o = svm::process(&mut cl, &fx);
                            if o.ok() {
                                free_accepted += 1;
                                row.free_accepted += 1;
                            } else {
                                row.codes.insert(short_code(&o));
                            }
                        }
                        Expect::MustFail => {
                            if twin_ok {
                                nontrivial += 1;
                                group_n += 1;
                                row.must_fail += 1;
                            } else {
                                without_twin += 1;
                            }
                            match run_faulty(l, &fx) {
                                Ok(code) => {
                                    row.codes.insert(code);
                                }
                                Err(how) => {
                                    let slots: Vec<String> = m.repl.iter().map(|(k, key)| format!("{k}:{} = {key}", c.slots[*k].0)).collect();
                                    r.violation(
                                        format!("{}/{}/{}/group<-{}", v.name(), sname, c.name, m.what),
                                        format!("{} (variant {}, state {}): slots [{}] were replaced together by {} and the instruction was {how}", c.name, v.name(), sname, slots.join(", "), m.what),
                                        json!({"variant": v.name(), "state": sname, "case": c.name, "group": m.what}),
                                    );
                                }
                            }
                        }
                    }
                }
                for (i, (sn, role)) in c.slots.iter().enumerate() {
                    let o_key = c.ix.accounts[i].pubkey;
                    for sub in subs(role, u1, u2, l) {
                        // the substitute really is another, existing, same-typed account
                        assert_ne!(sub.key, o_key, "{}: {sn} <- {}: substitute equals the original", c.name, sub.what);
                        let (ko, ks) = (kind(l, &o_key), kind(l, &sub.key));
                        if !matches!(role, Role::Oracle(_)) {
                            assert_eq!(ko, ks, "{}: {sn} <- {}: substitute is not of the slot's type", c.name, sub.what);
                        } else {
                            assert!(ks == "uninitialised" || ks == kind(l, &u1.pools[PA].oracle), "{}: oracle substitute type {ks}", c.name);
                        }
                        let fx = substituted(&c.ix, i, sub.key);
                        evaluations += 1;
                        row.substitutions += 1;
                        match &sub.expect {
                            Expect::Free(_) if !twin_ok => {}
                            Expect::Free(why) => {
                                free_executed += 1;
                                row.free += 1;
                                free_table.entry(*why).or_default().insert(format!("{} slot <- {}", role.class(), sub.what));
                                let mut cl = l.clone();
                                let o = svm::process(&mut cl, &fx);
                                if o.ok() {
                                    free_accepted += 1;
                                    row.free_accepted += 1;
                                } else {
                                    row.codes.insert(short_code(&o));
                                }
                            }
                            Expect::MustFail => {
                                if twin_ok {
                                    nontrivial += 1;
                                    row.must_fail += 1;
                                    *by_class.entry(role.class()).or_default() += 1;
                                } else {
                                    without_twin += 1;
                                }
                                match run_faulty(l, &fx) {
                                    Ok(code) => {
                                        row.codes.insert(code.clone());
                                        // one sample per slot type, taken from different instructions
                                        if sampled.len() < 12 && !sampled.contains(role.class()) && (evaluations % 5 == sampled.len() as u64 % 5) {
                                            sampled.insert(role.class());
                                            r.sample(json!({"variant": v.name(), "state": sname, "instruction": c.name, "slot": format!("{i}:{sn}"), "substituted": sub.what, "result": code}));
                                        }
                                    }
                                    Err(how) => {
                                        let key = format!("{}/{}/{}/{}:{}<-{}", v.name(), sname, c.name, i, sn, sub.what);
                                        r.violation(
                                            key,
                                            format!(
                                                "{} (variant {}, state {}): slot {i} `{sn}` = {} was replaced by {} = {} and the instruction was {how}",
                                                c.name,
                                                v.name(),
                                                sname,
                                                o_key,
                                                sub.what,
                                                sub.key
                                            ),
                                            json!({"variant": v.name(), "state": sname, "case": c.name, "slot": i, "sub": sub.key.to_string(), "what": sub.what}),
                                        );
                                    }
                                }
                            }
                        }
                    }
                }
            }
            for c in compounds(l, u1, v) {
                let row = rows.entry(c.ins).or_default();
                evaluations += 1;
                nontrivial += 1;
                compound_n += 1;
                row.compound += 1;
                match run_faulty(l, &c.ix) {
                    Ok(code) => {
                        if code == format!("custom:{}", c.expected_code) {
                            compound_expected_code += 1;
                        }
                        row.codes.insert(code);
                    }
                    Err(how) => r.violation(
                        format!("{}/{}/compound/{}", v.name(), sname, c.name),
                        format!("{} (variant {}, state {}): two-hop over {} was {how}", c.name, v.name(), sname, c.what),
                        json!({"variant": v.name(), "state": sname, "compound": c.name}),
                    ),
                }
            }
        }
    }

    for hf in happy_failed.iter().take(5) {
        eprintln!("C15: happy path failed: {hf}");
    }
    r.set("evaluations", evaluations);
    r.set("distinct_nontrivial", nontrivial);
    r.set(
        "rule",
        "one executed instruction per (variant, root state, happy-path instruction, slot, substitute): the substitute is an existing account of the slot's type, different from the original, belonging to another universe / pool / mint / position / reward index / program; counted as non-trivial when the unsubstituted twin succeeded on the same ledger (and changed it) and the ownership table does not declare the pair free; plus the whole-leg two-hop faults (same pool twice, no shared intermediate mint)",
    );
    r.set("exhaustive", exhaustive && worlds_ok && happy_failed.is_empty());
    r.set("root_states", states_n);
    r.set("happy_paths_succeeded", happy_ok);
    r.set("happy_paths_failed", happy_failed.len() as u64);
    r.set("free_substitutions_executed", free_executed);
    r.set("free_substitutions_accepted", free_accepted);
    r.set("two_hop_compound_faults", compound_n);
    r.set("consistent_group_substitutions", group_n);
    r.set("substitutions_executed_without_successful_twin", without_twin);
    let mut pi = Map::new();
    for (k, row) in &rows {
        pi.insert(
            k.to_string(),
            json!({"slots": row.slots, "happy_paths": row.happy, "substitutions": row.substitutions, "must_fail": row.must_fail, "free": row.free, "free_accepted": row.free_accepted,
                   "compound_faults": row.compound, "failure_codes": row.codes.iter().cloned().collect::<Vec<_>>()}),
        );
    }
    r.set("per_instruction", Value::Object(pi));
    r.set("must_fail_by_slot_type", json!(by_class));
    r.set("free_table", json!(free_table));
    r.assume("rejection by any layer counts (Anchor constraint, handler check, or the token program refusing the CPI): the property only demands that the instruction is rejected");
    r.assume("signer slots (token / position / protocol-fee authority) are substituted too and must be rejected; they overlap with C04");

    r.guard("worlds_built", worlds_ok as u64);
    r.guard("read_only_flag_variants", readonly_variants);
    r.guard("all_happy_paths_succeeded", if happy_failed.is_empty() { happy_ok } else { 0 });
    r.guard("free_substitutions_accepted", free_accepted);
    r.guard("two_hop_faults_rejected_with_the_dedicated_code", compound_expected_code);
    r.guard("consistent_group_substitutions", group_n);
    for cl in ["pool", "vault", "mint", "token_account", "tick_array", "position", "position_token_account", "oracle", "config", "reward_vault", "token_program", "program", "signer"] {
        r.guard(&format!("must_fail_{cl}"), *by_class.get(cl).unwrap_or(&0));
    }
    for ins in [
        "swap", "swap_v2", "two_hop_swap", "two_hop_swap_v2", "increase_liquidity", "increase_liquidity_v2", "decrease_liquidity", "decrease_liquidity_v2",
        "increase_liquidity_by_token_amounts_v2", "reposition_liquidity_v2", "collect_fees", "collect_fees_v2", "collect_reward", "collect_reward_v2", "collect_protocol_fees",
        "collect_protocol_fees_v2",
    ] {
        r.guard(&format!("substitutions_{ins}"), rows.get(ins).map(|x| x.must_fail).unwrap_or(0));
    }
    r
}

pub fn replay(case: &Value) -> Result<(), String> {
    let _mute = MuteStdout::new();
    let v = Variant::parse(case["variant"].as_str().ok_or("variant")?).ok_or("bad variant")?;
    let sname = case["state"].as_str().ok_or("state")?;
    let states = root_states(v, true);
    let (_, l, u1, u2) = states.iter().find(|x| x.0 == sname).ok_or("unknown state")?;
    if let Some(cn) = case.get("compound").and_then(|x| x.as_str()) {
        let c = compounds(l, u1, v).into_iter().find(|c| c.name == cn).ok_or("unknown compound case")?;
        return match run_faulty(l, &c.ix) {
            Ok(_) => Ok(()),
            Err(how) => Err(format!("{cn}: two-hop over {} was {how}", c.what)),
        };
    }
    let cn = case["case"].as_str().ok_or("case")?;
    if let Some(i) = case.get("readonly").and_then(|x| x.as_u64()) {
        let c = cases(l, u1, v, true).into_iter().find(|c| c.name == cn).ok_or("unknown case")?;
        let mut base = l.clone();
        if c.ins == "update_fees_and_rewards" {
            base.unix_ts += 60;
        }
        let mut hl = base.clone();
        let _ = svm::process(&mut hl, &c.ix);
        return run_readonly(&base, &hl, &c.ix, i as usize).map_err(|how| format!("{cn}: slot {i} handed over read-only: {how}"));
    }
    if let Some(g) = case.get("group").and_then(|x| x.as_str()) {
        let c = cases(l, u1, v, true).into_iter().find(|c| c.name == cn).ok_or("unknown case")?;
        let m = multis(&c, u1, u2, l).into_iter().find(|m| m.what == g).ok_or("unknown group")?;
        if m.expect != Expect::MustFail {
            return Ok(());
        }
        return match run_faulty(l, &substituted_many(&c.ix, &m.repl)) {
            Ok(_) => Ok(()),
            Err(how) => Err(format!("{cn}: slots {:?} replaced together by {g}: the instruction was {how}", m.repl.iter().map(|x| x.0).collect::<Vec<_>>())),
        };
    }
    let slot = case["slot"].as_u64().ok_or("slot")? as usize;
    let key = Pubkey::from_str(case["sub"].as_str().ok_or("sub")?).map_err(|e| format!("{e:?}"))?;
    let c = cases(l, u1, v, true).into_iter().find(|c| c.name == cn).ok_or("unknown case")?;
    let (sn, role) = c.slots.get(slot).ok_or("slot out of range")?;
    let sub = subs(role, u1, u2, l).into_iter().find(|s| s.key == key).ok_or("substitute not in the ownership table")?;
    if sub.expect != Expect::MustFail {
        return Ok(());
    }
    match run_faulty(l, &substituted(&c.ix, slot, key)) {
        Ok(_) => Ok(()),
        Err(how) => Err(format!("{cn}: slot {slot} `{sn}` = {} replaced by {} = {key}: the instruction was {how}", c.ix.accounts[slot].pubkey, sub.what)),
    }
}
