//! C16 — transfer-fee tokens: the pool still receives and pays the curve amounts (DESIGN §C16).
//! Function-level part (Engine B) lives in `c16_fn`; the handler-level part (real Token-2022 processor moving funds) is added here.
use crate::report::{Ctx, Report};
use serde_json::Value;

pub fn run(ctx: &Ctx) -> Report {
    let mut r = Report::new("C16", "exploration");
    super::c16_fn::run_fn(ctx, &mut r);
    let rule = r.coverage.get("fn_rule").cloned().unwrap_or(Value::Null);
    r.set("rule", rule);
    r.set("exhaustive", false);
    r
}

pub fn replay(case: &Value) -> Result<(), String> {
    if let Some(res) = super::c16_fn::replay_fn(case) {
        return res;
    }
    Err("bad case".into())
}
