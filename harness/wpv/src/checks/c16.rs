//! C16 — transfer-fee tokens: the pool still receives and pays the curve amounts (DESIGN §C16).
//! Function-level part (Engine B) lives in `c16_fn`. Handler-level part (here, Engine A): explicit-state search over pools whose
//! two mints are Token-2022 mints with a TransferFeeConfig; the real Token-2022 processor moves (and withholds) the funds.
//! Oracles, all from real balances + the H2 step trace + the emitted events, against the reference fee definition
//! fee(x) = min(ceil(x*bps/10^4), max):
//!  * swap: the input vault receives exactly the curve amount (+ swap fee); the trader is debited the smallest amount whose
//!    fee-reduced value is that (or the specified amount when an exact-in swap is filled), never more than specified; the output
//!    vault pays exactly the curve output and the trader receives it minus the fee; thresholds flip exactly at what the trader
//!    actually receives / pays (C03's re-execution with realised-1 / realised / realised+1); the event reports the amounts moved;
//!  * increase / decrease liquidity: the vault receives / pays exactly ceil / floor of the exact amounts; the owner pays the
//!    smallest fee-including amount, and token_max / token_min flip exactly at what the owner pays / receives;
//!  * C01's solvency inequality holds in every state.
use crate::liqhandlers::{self, LiqEvent};
use crate::ops::{self, Lim, Op, Part, Stepped};
use crate::oracles::{self, C03Stats};
use crate::poolexplore::{self, PoolModel};
use crate::refmodel::*;
use crate::report::{Ctx, Report};
use crate::stdworlds::{self, Built};
use crate::world::{self, balance, StdWorld, SwapArgs};
use num_bigint::BigUint;
use num_traits::Zero;
use serde_json::Value;
use std::sync::Mutex;
use svm::Ledger;
use whirlpool::math::sqrt_price_from_tick_index;
use whirlpool::verif_hooks::SwapTrace;

#[derive(Clone, Copy, Debug)]
struct Fee {
    bps: u16,
    max: u64,
}
impl Fee {
    fn of(&self, x: u64) -> u64 {
        if self.bps == 0 || x == 0 {
            return 0;
        }
        let raw = ceil_div(&(bu(x as u128) * bu(self.bps as u128)), &bu(10_000));
        let raw = to_u64(&raw).unwrap_or(u64::MAX);
        raw.min(self.max)
    }
    fn net(&self, x: u64) -> u64 {
        x - self.of(x)
    }
}

struct W {
    b: Built,
}

/// The transfer fee Token-2022 applies to `mint` at the ledger's epoch, from the harness's own reading of the mint's
/// TransferFeeConfig (TLV type 1: two authorities, withheld amount, older {epoch, maximum, bps}, newer {epoch, maximum, bps}):
/// the newer schedule from its epoch on, the older one before.
fn fee_at(l: &Ledger, mint: &solana_program::pubkey::Pubkey) -> Fee {
    let d = l.data(mint);
    let mut o = 166usize;
    while o + 4 <= d.len() {
        let ty = u16::from_le_bytes([d[o], d[o + 1]]);
        let len = u16::from_le_bytes([d[o + 2], d[o + 3]]) as usize;
        let body = &d[o + 4..(o + 4 + len).min(d.len())];
        if ty == 1 && body.len() >= 108 {
            let u64at = |i: usize| u64::from_le_bytes(body[i..i + 8].try_into().unwrap());
            let u16at = |i: usize| u16::from_le_bytes(body[i..i + 2].try_into().unwrap());
            let older = Fee { bps: u16at(72 + 16), max: u64at(72 + 8) };
            let (newer_epoch, newer) = (u64at(90), Fee { bps: u16at(90 + 16), max: u64at(90 + 8) });
            return if l.epoch >= newer_epoch { newer } else { older };
        }
        if ty == 0 {
            break;
        }
        o += 4 + len;
    }
    Fee { bps: 0, max: 0 }
}
/// (older != newer, newer epoch) of a mint's schedule
fn schedule(l: &Ledger, mint: &solana_program::pubkey::Pubkey) -> Option<(bool, u64)> {
    let d = l.data(mint);
    let mut o = 166usize;
    while o + 4 <= d.len() {
        let ty = u16::from_le_bytes([d[o], d[o + 1]]);
        let len = u16::from_le_bytes([d[o + 2], d[o + 3]]) as usize;
        let body = &d[o + 4..(o + 4 + len).min(d.len())];
        if ty == 1 && body.len() >= 108 {
            return Some((body[80..90] != body[98..108], u64::from_le_bytes(body[90..98].try_into().unwrap())));
        }
        if ty == 0 {
            break;
        }
        o += 4 + len;
    }
    None
}
impl W {
    fn fee_a(&self, l: &Ledger) -> Fee {
        fee_at(l, &self.b.w.pool.mint_a)
    }
    fn fee_b(&self, l: &Ledger) -> Fee {
        fee_at(l, &self.b.w.pool.mint_b)
    }
}

fn mk(label: &str, fa: Fee, fb: Fee, roots: &[(&'static str, Vec<Op>)]) -> W {
    W { b: stdworlds::build_with_roots(&stdworlds::t22_spec(label, fa.bps, fa.max, fb.bps, fb.max), roots) }
}

fn worlds(thorough: bool) -> Vec<W> {
    let roots = stdworlds::std_roots();
    let mut v = vec![mk("c16-t22-100-5000", Fee { bps: 100, max: 5_000 }, Fee { bps: 5_000, max: u64::MAX }, &roots[..4])];
    v.push(mk("c16-t22-1-10000", Fee { bps: 1, max: u64::MAX }, Fee { bps: 10_000, max: 1_000 }, &roots[1..3]));
    // a fee change is pending on both mints (SetTransferFee two epochs ago minus one): the alphabet's Epoch op walks through
    // "the epoch before", "the epoch the newer schedule starts" and "after" — older != newer, so the schedule selection shows
    let mut eve = roots[1].1.clone();
    eve.push(Op::SetTransferFee { a: true, bps: 500, max: 1_000_000 });
    eve.push(Op::SetTransferFee { a: false, bps: 10, max: 77 });
    eve.push(Op::Epoch(1));
    let mut eve_laden = roots[2].1.clone();
    eve_laden.extend_from_slice(&eve[roots[1].1.len()..]);
    // ... and a pending REMOVAL of the fee (the newer schedule charges nothing, the older one is still in force)
    let mut removal = roots[1].1.clone();
    removal.push(Op::SetTransferFee { a: true, bps: 0, max: 0 });
    removal.push(Op::SetTransferFee { a: false, bps: 0, max: 0 });
    removal.push(Op::Epoch(1));
    let sched_roots: Vec<(&'static str, Vec<Op>)> = vec![("fee-change-pending", eve), ("fee-change-pending-fee-laden", eve_laden), ("fee-removal-pending", removal)];
    v.push(mk("c16-t22-sched", Fee { bps: 100, max: 5_000 }, Fee { bps: 5_000, max: u64::MAX }, &sched_roots));
    if thorough {
        v.push(mk("c16-t22-0-9999", Fee { bps: 0, max: 0 }, Fee { bps: 9_999, max: 123_456 }, &roots[..4]));
        v.push(mk("c16-t22-250-1", Fee { bps: 250, max: 1 }, Fee { bps: 33, max: 77 }, &roots[..4]));
    }
    v
}

fn alphabet(b: &Built) -> Vec<Op> {
    let mut a = vec![];
    if b.name.contains("sched") {
        a.push(Op::Epoch(1));
    }
    for a_to_b in [true, false] {
        a.push(Op::Swap { a_to_b, exact_in: true, amount: 1_000_000, lim: Lim::None, v2: true });
        a.push(Op::Swap { a_to_b, exact_in: false, amount: 100_000, lim: Lim::None, v2: true });
        a.push(Op::Swap { a_to_b, exact_in: true, amount: 30_000_000, lim: Lim::Mid, v2: true }); // partial exact-in: included amount is charged
        a.push(Op::Swap { a_to_b, exact_in: false, amount: 30_000_000, lim: Lim::Mid, v2: true }); // partial exact-out
        a.push(Op::Swap { a_to_b, exact_in: true, amount: 20_000_000, lim: Lim::None, v2: true }); // crosses ticks
        a.push(Op::Swap { a_to_b, exact_in: true, amount: 3, lim: Lim::None, v2: true });
        a.push(Op::Swap { a_to_b, exact_in: false, amount: 1, lim: Lim::None, v2: true });
    }
    for pos in 0..3u8 {
        a.push(Op::Inc { pos, liq: stdworlds::BIG, v2: true });
        a.push(Op::Inc { pos, liq: 777, v2: true });
        a.push(Op::Dec { pos, part: Part::All, v2: true });
        a.push(Op::Dec { pos, part: Part::Half, v2: true });
    }
    a.push(Op::CollectFees { pos: 0, v2: true });
    a.push(Op::CollectProtocol { v2: true });
    // reposition_liquidity_v2 nets the old range's withdrawal against the new range's deposit and moves only the difference
    a.push(Op::Repos { pos: 0, lower: -64, upper: 192, liq: stdworlds::BIG / 2 });
    a.push(Op::Repos { pos: 0, lower: -128, upper: 128, liq: stdworlds::BIG * 2 });
    // to the other side of the price: the old range returns nothing of the token the new range needs
    a.push(Op::Repos { pos: 0, lower: 256, upper: 512, liq: stdworlds::BIG });
    a.push(Op::Repos { pos: 1, lower: -512, upper: -256, liq: 777 });
    a
}

#[derive(Default, Clone, Debug)]
struct Stats {
    swaps: u64,
    swaps_partial_exact_in: u64,
    swaps_exact_out: u64,
    fee_capped: u64,
    fee_uncapped_nonzero: u64,
    incs: u64,
    decs: u64,
    bound_reruns: u64,
    repos_netted_max_with_fee: u64,
    by_amounts: u64,
    bound_failures: u64,
    repos_tight_max: u64,
    repos_tight_max_with_fee: u64,
    at_switch_epoch: u64,
    before_switch_epoch: u64,
    after_switch_epoch: u64,
    c03: C03Stats,
}

fn least_preimage_ok(f: &Fee, paid: u64, need: u64) -> bool {
    // `paid` is the smallest amount whose fee-reduced value is `need`
    f.net(paid) == need && (paid == 0 || f.net(paid - 1) < need)
}

fn swap_oracle(wd: &W, pre: &Ledger, st: &Stepped, a_to_b: bool, exact_in: bool, amount: u64, limit: u128, v2ix: &dyn Fn(u64) -> solana_program::instruction::Instruction, s: &mut Stats) -> Result<(), String> {
    let w = &wd.b.w;
    let post = &st.ledger;
    let (fin, fout) = if a_to_b { (wd.fee_a(pre), wd.fee_b(pre)) } else { (wd.fee_b(pre), wd.fee_a(pre)) };
    let o = oracles::observe_swap(pre, post, w, a_to_b, exact_in, amount, limit);
    let mut curve_in = BigUint::zero();
    let mut curve_out = BigUint::zero();
    for t in &st.trace {
        if let SwapTrace::Step(x) = t {
            curve_in += bu(x.amount_in as u128) + bu(x.fee_amount as u128);
            curve_out += bu(x.amount_out as u128);
        }
    }
    s.swaps += 1;
    if bu(o.vault_in as u128) != curve_in {
        return Err(format!("input vault received {} but the curve amount (+swap fee) is {curve_in}", o.vault_in));
    }
    if bu(o.vault_out as u128) != curve_out {
        return Err(format!("output vault paid {} but the curve output is {curve_out}", o.vault_out));
    }
    if o.vault_in != fin.net(o.trader_in) {
        return Err(format!("trader was debited {} whose fee-reduced value is {} but the vault received {}", o.trader_in, fin.net(o.trader_in), o.vault_in));
    }
    if o.trader_out != fout.net(o.vault_out) {
        return Err(format!("vault paid {} whose fee-reduced value is {} but the trader received {}", o.vault_out, fout.net(o.vault_out), o.trader_out));
    }
    let f_in = fin.of(o.trader_in);
    if f_in > 0 {
        if f_in == fin.max {
            s.fee_capped += 1;
        } else {
            s.fee_uncapped_nonzero += 1;
        }
    }
    let filled_exact_in = exact_in && o.trader_in == amount;
    if exact_in && o.trader_in > amount {
        return Err(format!("exact-in swap of {amount} debited {}", o.trader_in));
    }
    if !filled_exact_in {
        // partial exact-in or exact-out: the requested amount is the smallest whose fee-reduced value is what the pool needs
        if exact_in {
            s.swaps_partial_exact_in += 1;
        } else {
            s.swaps_exact_out += 1;
        }
        if !least_preimage_ok(&fin, o.trader_in, o.vault_in) {
            return Err(format!("trader was debited {} but a smaller amount already nets the {} the pool needs (fee {:?})", o.trader_in, o.vault_in, fin));
        }
    }
    if !exact_in {
        // the specified output is what the trader actually receives
        let p1 = w.pool.state(post);
        let eff = if limit == 0 { if a_to_b { MIN_SQRT_PRICE } else { MAX_SQRT_PRICE } } else { limit };
        if p1.sqrt_price != eff && o.trader_out != amount {
            return Err(format!("exact-out swap for {amount} delivered {} to the trader (vault paid {})", o.trader_out, o.vault_out));
        }
        if o.trader_out > amount {
            return Err(format!("exact-out swap for {amount} delivered more: {}", o.trader_out));
        }
    }
    // event == amounts moved
    let evs: Vec<oracles::Traded> = st.outcome.events.iter().filter_map(|e| oracles::decode_traded(e)).collect();
    if evs.len() != 1 {
        return Err(format!("{} Traded events", evs.len()));
    }
    let e = &evs[0];
    if e.input_amount != o.trader_in || e.output_amount != o.vault_out || e.input_transfer_fee != o.trader_in - o.vault_in || e.output_transfer_fee != o.vault_out - o.trader_out {
        return Err(format!(
            "Traded event reports in {} (fee {}) out {} (fee {}) but trader paid {} (fee {}), vault paid {} (fee {})",
            e.input_amount, e.input_transfer_fee, e.output_amount, e.output_transfer_fee, o.trader_in, o.trader_in - o.vault_in, o.vault_out, o.vault_out - o.trader_out
        ));
    }
    // thresholds apply to what the trader actually receives / pays (plus direction / limit / partial-fill clauses of C03)
    oracles::c03_swap_oracle(pre, post, w, a_to_b, exact_in, amount, limit, v2ix, &mut s.c03)
}

fn liq_oracle(wd: &W, pre: &Ledger, st: &Stepped, pos: usize, liq: u128, increase: bool, s: &mut Stats) -> Result<(), String> {
    let w = &wd.b.w;
    let p = &w.positions[pos].at(pre);
    let post = &st.ledger;
    let pool = w.pool.state(pre);
    let (pl, pu) = (sqrt_price_from_tick_index(p.lower), sqrt_price_from_tick_index(p.upper));
    let (qa, qb) = if pool.tick_current_index < p.lower {
        (exact_delta_a(pl, pu, liq), Q::zero())
    } else if pool.tick_current_index < p.upper {
        (exact_delta_a(pool.sqrt_price, pu, liq), exact_delta_b(pl, pool.sqrt_price, liq))
    } else {
        (Q::zero(), exact_delta_b(pl, pu, liq))
    };
    let (ea, eb) = if increase { (qa.ceil(), qb.ceil()) } else { (qa.floor(), qb.floor()) };
    let d = |x: u64, y: u64| if increase { x.wrapping_sub(y) } else { y.wrapping_sub(x) };
    let wa = d(balance(pre, &w.lp.acct_a), balance(post, &w.lp.acct_a));
    let wb = d(balance(pre, &w.lp.acct_b), balance(post, &w.lp.acct_b));
    let va = d(balance(post, &w.pool.vault_a), balance(pre, &w.pool.vault_a));
    let vb = d(balance(post, &w.pool.vault_b), balance(pre, &w.pool.vault_b));
    let what = if increase { "increase" } else { "decrease" };
    if bu(va as u128) != ea || bu(vb as u128) != eb {
        return Err(format!("{what} of {liq}: vault moved {va}/{vb}, exact amounts rounded {} are {ea}/{eb}", if increase { "up" } else { "down" }));
    }
    let evs: Vec<LiqEvent> = st.outcome.events.iter().filter_map(|e| liqhandlers::decode_liq_event(e)).collect();
    if evs.len() != 1 {
        return Err(format!("{what}: {} liquidity events", evs.len()));
    }
    let e = &evs[0];
    if increase {
        s.incs += 1;
        // the owner pays the smallest amounts whose fee-reduced values are what the vault needs
        if !least_preimage_ok(&wd.fee_a(pre), wa, va) || !least_preimage_ok(&wd.fee_b(pre), wb, vb) {
            return Err(format!("increase: owner paid {wa}/{wb} for vault amounts {va}/{vb}: not the smallest fee-including amounts"));
        }
        if e.a != wa || e.b != wb || e.fee_a != wa - va || e.fee_b != wb - vb || e.liquidity != liq || !e.increased {
            return Err(format!("increase: event {e:?} vs owner paid {wa}/{wb}, fees {}/{}", wa - va, wb - vb));
        }
    } else {
        s.decs += 1;
        if wa != wd.fee_a(pre).net(va) || wb != wd.fee_b(pre).net(vb) {
            return Err(format!("decrease: vault paid {va}/{vb} but the owner received {wa}/{wb}"));
        }
        if e.a != va || e.b != vb || e.fee_a != va - wa || e.fee_b != vb - wb || e.liquidity != liq || e.increased {
            return Err(format!("decrease: event {e:?} vs vault paid {va}/{vb}, fees {}/{}", va - wa, vb - wb));
        }
    }
    // caller bounds apply to what the owner pays / receives
    for (ba, bb) in [(wa.checked_sub(1), Some(wb)), (Some(wa), wb.checked_sub(1)), (Some(wa), Some(wb)), (wa.checked_add(1), Some(wb)), (Some(wa), wb.checked_add(1))] {
        let (Some(ba), Some(bb)) = (ba, bb) else { continue };
        let ix = if increase { world::ix_increase(p, &w.lp, liq, ba, bb, true) } else { world::ix_decrease(p, &w.lp, liq, ba, bb, true) };
        let mut c = pre.clone();
        let o = svm::process(&mut c, &ix);
        s.bound_reruns += 1;
        let should = if increase { ba >= wa && bb >= wb } else { ba <= wa && bb <= wb };
        if o.ok() != should {
            return Err(format!("{what} where the owner {} {wa}/{wb}: caller bounds {ba}/{bb} gave {} (expected {})", if increase { "pays" } else { "receives" }, o.short(), if should { "success" } else { "failure" }));
        }
        if !o.ok() {
            s.bound_failures += 1;
        }
    }
    Ok(())
}

/// reposition with transfer-fee mints: per token the vault's net change is exactly ceil(new range) - floor(old range); when the
/// owner pays the difference they pay the smallest fee-including amount, when they receive it they receive it minus the fee.
fn repos_oracle(wd: &W, pre: &Ledger, st: &Stepped, pos: usize, new_lower: i32, new_upper: i32, new_liq: u128, s: &mut Stats) -> Result<(), String> {
    let w = &wd.b.w;
    let post = &st.ledger;
    let p = w.positions[pos].at(pre);
    let pool = w.pool.state(pre);
    let amounts = |lower: i32, upper: i32, liq: u128| -> (Q, Q) {
        let (pl, pu) = (sqrt_price_from_tick_index(lower), sqrt_price_from_tick_index(upper));
        if pool.tick_current_index < lower {
            (exact_delta_a(pl, pu, liq), Q::zero())
        } else if pool.tick_current_index < upper {
            (exact_delta_a(pool.sqrt_price, pu, liq), exact_delta_b(pl, pool.sqrt_price, liq))
        } else {
            (Q::zero(), exact_delta_b(pl, pu, liq))
        }
    };
    let old_liq = p.state(pre).liquidity;
    let (oa, ob) = amounts(p.lower, p.upper, old_liq);
    let (na, nb) = amounts(new_lower, new_upper, new_liq);
    let toi = |x: BigUint| x.to_string().parse::<i128>().unwrap_or(i128::MAX);
    let expect = [toi(na.ceil()) - toi(oa.floor()), toi(nb.ceil()) - toi(ob.floor())];
    let vault = [w.pool.vault_a, w.pool.vault_b];
    let wallet = [w.lp.acct_a, w.lp.acct_b];
    let fee = [wd.fee_a(pre), wd.fee_b(pre)];
    for t in 0..2 {
        let dv = balance(post, &vault[t]) as i128 - balance(pre, &vault[t]) as i128;
        let dw = balance(pre, &wallet[t]) as i128 - balance(post, &wallet[t]) as i128; // positive = owner paid
        if dv != expect[t] {
            return Err(format!("reposition: vault {} net change {dv}, expected new deposit (rounded up) minus old withdrawal (rounded down) = {}", if t == 0 { "A" } else { "B" }, expect[t]));
        }
        if dv > 0 {
            if dw < 0 || !least_preimage_ok(&fee[t], dw as u64, dv as u64) {
                return Err(format!("reposition: owner paid {dw} for a vault increase of {dv}: not the smallest fee-including amount"));
            }
        } else if dv < 0 {
            let out = (-dv) as u64;
            if -dw != fee[t].net(out) as i128 {
                return Err(format!("reposition: vault paid {out} but the owner received {}", -dw));
            }
        } else if dw != 0 {
            return Err(format!("reposition: owner balance moved by {dw} although the vault did not change"));
        }
    }
    s.incs += 1;
    s.decs += 1;
    // "the user pays no more than their stated maximum": with a maximum one unit below what the owner was actually debited
    // (transfer fee included) the instruction must refuse. (Nothing is demanded for maxima >= the debit: the program is
    // entitled to be stricter and bounds the whole fee-including new-range amount.)
    for t in 0..2 {
        let dw = balance(pre, &wallet[t]) as i128 - balance(post, &wallet[t]) as i128;
        if dw <= 0 {
            continue;
        }
        let tight = (dw - 1) as u64;
        let (maxa, maxb) = if t == 0 { (tight, u64::MAX) } else { (u64::MAX, tight) };
        let mut c = pre.clone();
        let o = svm::process(&mut c, &world::ix_reposition_v2(&p, &w.lp, w.funder, new_lower, new_upper, new_liq, 0, 0, maxa, maxb));
        s.bound_reruns += 1;
        s.repos_tight_max += 1;
        if dv_of(pre, post, &vault[t]) < dw {
            s.repos_tight_max_with_fee += 1;
        }
        if o.ok() {
            return Err(format!(
                "reposition to [{new_lower}..{new_upper}) L {new_liq}: owner is debited {dw} of token {} (transfer fee included) although the stated maximum is {tight}",
                if t == 0 { "A" } else { "B" }
            ));
        }
        s.bound_failures += 1;
    }
    // The instruction's own contract for `new_range_token_max_*` (as for the fee-less pools judged by C08): the maximum bounds the
    // whole requirement of the NEW range plus the transfer fee the owner is charged on the netted transfer — whatever part of it
    // is covered by the old range's proceeds. One unit below that it must refuse, at it it must succeed.
    let need = [toi(na.ceil()), toi(nb.ceil())];
    for t in 0..2 {
        let dv = dv_of(pre, post, &vault[t]);
        let dw = balance(pre, &wallet[t]) as i128 - balance(post, &wallet[t]) as i128;
        let fee_paid = if dv > 0 { dw - dv } else { 0 };
        let threshold = need[t] + fee_paid;
        if threshold <= 0 || threshold > u64::MAX as i128 {
            continue;
        }
        for (m, should) in [((threshold - 1) as u64, false), (threshold as u64, true)] {
            let (maxa, maxb) = if t == 0 { (m, u64::MAX) } else { (u64::MAX, m) };
            let mut c = pre.clone();
            let o = svm::process(&mut c, &world::ix_reposition_v2(&p, &w.lp, w.funder, new_lower, new_upper, new_liq, 0, 0, maxa, maxb));
            s.bound_reruns += 1;
            if fee_paid > 0 && need[t] > dv {
                s.repos_netted_max_with_fee += 1;
            }
            if o.ok() != should {
                return Err(format!(
                    "reposition to [{new_lower}..{new_upper}) L {new_liq}: the new range needs {} of token {} and the owner is charged a transfer fee of {fee_paid} on the netted transfer; maximum {m} gave {} (expected {})",
                    need[t],
                    if t == 0 { "A" } else { "B" },
                    o.short(),
                    if should { "success" } else { "failure" }
                ));
            }
        }
    }
    Ok(())
}

fn dv_of(pre: &Ledger, post: &Ledger, vault: &solana_program::pubkey::Pubkey) -> i128 {
    balance(post, vault) as i128 - balance(pre, vault) as i128
}

/// increase_liquidity_by_token_amounts_v2 in every state, for every position and two pairs of maxima: the liquidity it adds is
/// judged like an ordinary increase (vault receives the curve amounts, the owner pays the smallest fee-including amounts, the
/// event reports them) and the owner is never debited more than the maxima offered.
fn by_amounts_probe(wd: &W, l: &Ledger, stats: &Mutex<Stats>) -> Result<(), String> {
    let w = &wd.b.w;
    let mut local = Stats::default();
    let mut n = 0u64;
    for (pi, p) in w.positions.iter().enumerate() {
        if !p.exists(l) {
            continue;
        }
        let p = p.at(l);
        let before = p.state(l).liquidity;
        for (ma, mb) in [(1_000_000u64, 1_000_000u64), (40_000, 5_000_000)] {
            let ix = world::ix_increase_by_token_amounts(&p, &w.lp, ma, mb, MIN_SQRT_PRICE, MAX_SQRT_PRICE);
            let st = ops::apply_ix(l, &ix, svm::Route::Auto);
            if !st.outcome.ok() {
                continue;
            }
            let added = p.state(&st.ledger).liquidity - before;
            let (da, db) = (balance(l, &w.lp.acct_a) - balance(&st.ledger, &w.lp.acct_a), balance(l, &w.lp.acct_b) - balance(&st.ledger, &w.lp.acct_b));
            if da > ma || db > mb {
                return Err(format!("increase_liquidity_by_token_amounts_v2(max {ma}/{mb}) on position {pi}: the owner was debited {da}/{db}"));
            }
            liq_oracle(wd, l, &st, pi, added, true, &mut local).map_err(|e| format!("increase_liquidity_by_token_amounts_v2(max {ma}/{mb}) on position {pi} [{}..{}) at tick {} added liquidity {added}: {e}", p.lower, p.upper, w.pool.state(l).tick_current_index))?;
            n += 1;
        }
    }
    stats.lock().unwrap().by_amounts += n;
    Ok(())
}

fn model<'a>(wd: &'a W, stats: &'a Mutex<Stats>) -> PoolModel<'a> {
    PoolModel::new(
        &wd.b.w,
        alphabet(&wd.b),
        Box::new(move |l: &Ledger, w: &StdWorld| {
            oracles::c01_vault_invariant(l, w)?;
            by_amounts_probe(wd, l, stats)
        }),
        Box::new(move |pre: &Ledger, st: &Stepped, w: &StdWorld, op: &Op| {
            let mut local = Stats::default();
            let r = match op {
                Op::Swap { a_to_b, exact_in, amount, lim, .. } => {
                    let limit = ops::resolve_limit(pre, &w.pool, *a_to_b, *lim);
                    let p0 = w.pool.state(pre);
                    let tas = world::swap_tick_arrays(&w.pool, p0.tick_current_index, *a_to_b);
                    let ix_of = |th: u64| {
                        let args = SwapArgs { amount: *amount, other_amount_threshold: th, sqrt_price_limit: limit, amount_specified_is_input: *exact_in, a_to_b: *a_to_b };
                        world::ix_swap(&w.pool, &w.trader, args, tas, true, &[])
                    };
                    swap_oracle(wd, pre, st, *a_to_b, *exact_in, *amount, limit, &ix_of, &mut local)
                }
                Op::Repos { pos, lower, upper, liq } => repos_oracle(wd, pre, st, *pos as usize, *lower, *upper, *liq, &mut local),
                Op::Inc { pos, liq, .. } => liq_oracle(wd, pre, st, *pos as usize, *liq, true, &mut local),
                Op::Dec { pos, part, .. } => {
                    let cur = w.positions[*pos as usize].state(pre).liquidity;
                    let amt = part.amount(cur);
                    liq_oracle(wd, pre, st, *pos as usize, amt, false, &mut local)
                }
                _ => Ok(()),
            };
            if matches!(op, Op::Swap { .. } | Op::Inc { .. } | Op::Dec { .. } | Op::Repos { .. }) {
                if let Some((true, e)) = schedule(pre, &w.pool.mint_a) {
                    match pre.epoch.cmp(&e) {
                        std::cmp::Ordering::Less => local.before_switch_epoch += 1,
                        std::cmp::Ordering::Equal => local.at_switch_epoch += 1,
                        std::cmp::Ordering::Greater => local.after_switch_epoch += 1,
                    }
                }
            }
            let mut g = stats.lock().unwrap();
            g.at_switch_epoch += local.at_switch_epoch;
            g.before_switch_epoch += local.before_switch_epoch;
            g.after_switch_epoch += local.after_switch_epoch;
            g.swaps += local.swaps;
            g.swaps_partial_exact_in += local.swaps_partial_exact_in;
            g.swaps_exact_out += local.swaps_exact_out;
            g.fee_capped += local.fee_capped;
            g.fee_uncapped_nonzero += local.fee_uncapped_nonzero;
            g.incs += local.incs;
            g.decs += local.decs;
            g.bound_reruns += local.bound_reruns + local.c03.threshold_reruns;
            g.bound_failures += local.bound_failures + local.c03.threshold_failures_seen;
            g.repos_tight_max += local.repos_tight_max;
            g.repos_tight_max_with_fee += local.repos_tight_max_with_fee;
            g.repos_netted_max_with_fee += local.repos_netted_max_with_fee;
            r
        }),
    )
}

pub fn run(ctx: &Ctx) -> Report {
    let mut r = Report::new("C16", "model_checking");
    super::c16_fn::run_fn(ctx, &mut r);
    let rule = r.coverage.get("fn_rule").cloned().unwrap_or(Value::Null);
    r.set("rule", rule);
    if r.violations.is_empty() {
        let ws = worlds(!ctx.tier.is_quick());
        let share = ctx.left() * 0.9 / ws.len() as f64;
        let stats = Mutex::new(Stats::default());
        for wd in &ws {
            let m = model(wd, &stats);
            let out = poolexplore::run_world(ctx, &mut r, &wd.b, &m, ctx.depth(3, 5), share);
            poolexplore::fold(&mut r, &wd.b.name, &out, &m.alphabet[..3]);
            if !r.violations.is_empty() {
                break;
            }
        }
        let s = stats.lock().unwrap().clone();
        r.set("handler_swaps_checked", s.swaps);
        r.set("handler_increases_checked", s.incs);
        r.set("handler_decreases_checked", s.decs);
        r.set("handler_bound_and_threshold_reexecutions", s.bound_reruns);
        r.guard("handler_swaps_checked", s.swaps);
        r.guard("handler_partial_exact_in_swaps", s.swaps_partial_exact_in);
        r.guard("handler_exact_out_swaps", s.swaps_exact_out);
        r.guard("handler_swaps_with_capped_transfer_fee", s.fee_capped);
        r.guard("handler_swaps_with_uncapped_transfer_fee", s.fee_uncapped_nonzero);
        r.guard("handler_increases_checked", s.incs);
        r.guard("handler_decreases_checked", s.decs);
        r.guard("handler_bound_failures_seen", s.bound_failures);
        r.guard("handler_reposition_tight_maximum_reruns", s.repos_tight_max);
        r.guard("handler_ops_in_the_epoch_before_a_pending_fee_change", s.before_switch_epoch);
        r.guard("handler_ops_in_the_epoch_the_newer_fee_starts", s.at_switch_epoch);
        r.guard("handler_ops_after_the_newer_fee_started", s.after_switch_epoch);
        r.guard("handler_reposition_tight_maximum_reruns_with_transfer_fee", s.repos_tight_max_with_fee);
        r.guard("handler_reposition_netted_deposit_maximum_reruns_with_transfer_fee", s.repos_netted_max_with_fee);
        r.guard("handler_increase_by_token_amounts_judged", s.by_amounts);
    }
    r.set("exhaustive", false);
    r.assume("svm-lite faithfully replaces the validator (DESIGN §2.1); the Token-2022 processor is the real one (withheld fees stay in the recipient account, so `amount` deltas are the net amounts)");
    r.assume("the fee reference reads the mint's TransferFeeConfig with the harness's own TLV reader and selects newer from newer.epoch on (Token-2022's rule; the real token-2022 processor moves the tokens)");
    r
}

pub fn replay(case: &Value) -> Result<(), String> {
    if let Some(res) = super::c16_fn::replay_fn(case) {
        return res;
    }
    match case["kind"].as_str() {
        Some("ops") => {
            let ws = worlds(true);
            let name = case["world"].as_str().ok_or("world")?;
            let wd = ws.iter().find(|w| w.b.name == name).ok_or("unknown world")?;
            let stats = Mutex::new(Stats::default());
            let m = model(wd, &stats);
            poolexplore::replay_ops(&wd.b, &m, case["root"].as_str().ok_or("root")?, &case["ops"])
        }
        _ => Err("bad case".into()),
    }
}
