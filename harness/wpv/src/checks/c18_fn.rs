//! C18 part B — exhaustive function / handler level enumeration, and the independent range oracles shared with part A.
//!
//! (1) all 256 bundle indexes (+ every u16 index >= 256 must be rejected) through the real open/close_bundled_position;
//! (2) tick-range validation: Anchor `Position::open_position` / `reset_position_range` and the Pinocchio
//!     `MemoryMappedPosition::reset_position_range` over tick alphabet^2 x spacing alphabet, plus the real
//!     `open_bundled_position` handler on a pool whose tick spacing is patched;
//! (3) `resolve_one_sided_position_ticks` (Anchor; there is NO Pinocchio copy in the tree) over sentinel combinations x price
//!     alphabet x spacing alphabet against a brute-force search over all usable ticks, again also through the real handler with
//!     the pool's price (and tick_current, incl. the shifted state T-1 @ p(T)) patched.
#![allow(dead_code)]
use super::c18_world::{self as lw, LifeWorld, FRO_THRESHOLD, MAIN, MAX_TICK, MIN_TICK};
use crate::decode;
use crate::refmodel::{MAX_SQRT_PRICE, MIN_SQRT_PRICE};
use crate::report::{Ctx, Report};
use anchor_lang::prelude::Pubkey;
use anchor_lang::AccountSerialize;
use rayon::prelude::*;
use serde_json::{json, Value};
use std::panic::{catch_unwind, AssertUnwindSafe};
use std::sync::OnceLock;
use svm::Ledger;
use whirlpool::math::sqrt_price_from_tick_index;
use whirlpool::pinocchio::verif_export::state::whirlpool::{MemoryMappedPosition, MemoryMappedWhirlpool};
use whirlpool::state::{Position, Whirlpool};
use whirlpool::util::resolve_one_sided_position_ticks;

pub const SPACINGS: [u16; 9] = [1, 2, 8, 64, 128, 256, 32767, 32768, 65535];

// ------------------------------------------------------------------------------------------------
// independent oracles
// ------------------------------------------------------------------------------------------------
/// sqrt price of every tick (the definition of "the price of a tick"; its own correctness is C09's subject)
pub fn table() -> &'static Vec<u128> {
    static T: OnceLock<Vec<u128>> = OnceLock::new();
    T.get_or_init(|| (MIN_TICK..=MAX_TICK).into_par_iter().map(sqrt_price_from_tick_index).collect())
}
pub fn price_of(t: i32) -> u128 {
    table()[(t - MIN_TICK) as usize]
}
fn in_bounds(t: i32) -> bool {
    (MIN_TICK..=MAX_TICK).contains(&t)
}
pub fn usable(t: i32, s: u16) -> bool {
    in_bounds(t) && (t as i64) % (s as i64) == 0
}
pub fn full_range(s: u16) -> (i32, i32) {
    let s = s as i32;
    (-(MAX_TICK / s * s), MAX_TICK / s * s)
}
/// the statement: lower < upper on usable ticks, only the full range on full-range-only pools
pub fn valid_range(lo: i32, up: i32, s: u16) -> bool {
    usable(lo, s) && usable(up, s) && lo < up && (s < FRO_THRESHOLD || (lo, up) == full_range(s))
}
/// brute force: the lowest usable tick whose price is >= p (position [t, ..) entirely above the current price)
pub fn derive_lower(s: u16, p: u128) -> Option<i32> {
    let (mut t, hi) = full_range(s);
    while t <= hi {
        if price_of(t) >= p {
            return Some(t);
        }
        t += s as i32;
    }
    None
}
/// brute force: the highest usable tick whose price is <= p (position [.., t) entirely below the current price)
pub fn derive_upper(s: u16, p: u128) -> Option<i32> {
    let (lo, mut t) = full_range(s);
    while t >= lo {
        if price_of(t) <= p {
            return Some(t);
        }
        t -= s as i32;
    }
    None
}
/// brute force tick_current for a price (largest tick with price <= p)
pub fn tick_of_price(p: u128) -> i32 {
    let t = table();
    (t.partition_point(|x| *x <= p) as i32 - 1) + MIN_TICK
}

#[derive(Clone, Copy, Debug, PartialEq, Eq)]
pub enum OpenExpect {
    /// must be accepted and the position must get exactly this range
    Accept(i32, i32),
    Reject,
    /// the statement does not decide (a derived bound on a full-range-only pool that happens to give the full range):
    /// rejection is fine, acceptance only with this range
    Either(i32, i32),
}

/// What opening with (lower, upper) — possibly with a "derive from price" sentinel — must do on a pool (spacing, price).
pub fn expected_open(lo_in: i32, up_in: i32, s: u16, p: u128) -> OpenExpect {
    let (ls, us) = (lo_in == i32::MIN, up_in == i32::MAX);
    let (lo, up) = match (ls, us) {
        (false, false) => (lo_in, up_in),
        (true, true) => return OpenExpect::Reject,
        (true, false) => match derive_lower(s, p) {
            Some(d) => (d, up_in),
            None => return OpenExpect::Reject,
        },
        (false, true) => match derive_upper(s, p) {
            Some(d) => (lo_in, d),
            None => return OpenExpect::Reject,
        },
    };
    if !valid_range(lo, up, s) {
        return OpenExpect::Reject;
    }
    if (ls || us) && s >= FRO_THRESHOLD {
        return OpenExpect::Either(lo, up);
    }
    OpenExpect::Accept(lo, up)
}

// ------------------------------------------------------------------------------------------------
// alphabets
// ------------------------------------------------------------------------------------------------
pub fn tick_alphabet(s: u16) -> Vec<i32> {
    let s = s as i64;
    let (fl, fu) = full_range(s as u16);
    let (fl, fu) = (fl as i64, fu as i64);
    let (mn, mx) = (MIN_TICK as i64, MAX_TICK as i64);
    let mut v: Vec<i64> = vec![
        mn, mn - 1, mn + 1, mx, mx - 1, mx + 1, fl, fl - s, fl + s, fl + 1, fu, fu + s, fu - s, fu - 1, 0, 1, -1, s, -s, s - 1, 1 - s, s + 1, -s - 1, 2 * s, -2 * s,
        i32::MIN as i64, i32::MIN as i64 + 1, i32::MAX as i64, i32::MAX as i64 - 1,
    ];
    v.retain(|x| *x >= i32::MIN as i64 && *x <= i32::MAX as i64);
    v.sort();
    v.dedup();
    v.into_iter().map(|x| x as i32).collect()
}

/// prices: exactly on a tick, one unit above / below, midway to the next tick — around usable, unusable and extreme ticks
pub fn price_alphabet(s: u16) -> Vec<u128> {
    let si = s as i32;
    let (fl, fu) = full_range(s);
    let mut ticks = vec![0, 1, -1, si, -si, si - 1, 1 - si, si + 1, 37, -6, 2 * si, fl, fl + 1, fl - 1, fu, fu - 1, fu + 1, MIN_TICK, MIN_TICK + 1, MAX_TICK, MAX_TICK - 1];
    ticks.retain(|t| in_bounds(*t));
    ticks.sort();
    ticks.dedup();
    let mut v = vec![MIN_SQRT_PRICE, MIN_SQRT_PRICE + 1, MAX_SQRT_PRICE, MAX_SQRT_PRICE - 1];
    for t in ticks {
        let p = price_of(t);
        v.push(p);
        v.push(p + 1);
        v.push(p.saturating_sub(1));
        if t < MAX_TICK {
            v.push(p + (price_of(t + 1) - p) / 2);
        }
    }
    v.retain(|p| *p >= MIN_SQRT_PRICE && *p <= MAX_SQRT_PRICE);
    v.sort();
    v.dedup();
    v
}

fn bound_combos(s: u16) -> Vec<(i32, i32)> {
    let si = s as i32;
    let (fl, fu) = full_range(s);
    let others = [0, si, -si, 2 * si, -2 * si, fl, fu, 5, MAX_TICK, MIN_TICK];
    let mut v = vec![(i32::MIN, i32::MAX), (-si, si), (fl, fu)];
    for o in others {
        v.push((i32::MIN, o));
        v.push((o, i32::MAX));
    }
    v.sort();
    v.dedup();
    v
}

// ------------------------------------------------------------------------------------------------
// function-level drivers
// ------------------------------------------------------------------------------------------------
fn quiet<T>(f: impl FnOnce() -> T) -> Option<T> {
    catch_unwind(AssertUnwindSafe(f)).ok()
}

fn with_wp_account<R>(wp_img: &[u8], f: impl FnOnce(&anchor_lang::prelude::Account<Whirlpool>) -> R) -> Option<R> {
    let key = Pubkey::new_from_array([3; 32]);
    let owner = whirlpool::ID;
    let mut lamports = 1u64;
    let mut data = wp_img.to_vec();
    quiet(|| {
        let info = anchor_lang::prelude::AccountInfo::new(&key, false, false, &mut lamports, &mut data[..], &owner, false, 0);
        let acc: anchor_lang::prelude::Account<Whirlpool> = anchor_lang::prelude::Account::try_from(&info).expect("whirlpool image deserialises");
        f(&acc)
    })
}

fn v_wp(b: &[u8]) -> &MemoryMappedWhirlpool {
    assert!(b.len() >= std::mem::size_of::<MemoryMappedWhirlpool>());
    unsafe { &*(b.as_ptr() as *const MemoryMappedWhirlpool) }
}
fn v_pos_mut(b: &mut [u8]) -> &mut MemoryMappedPosition {
    assert!(b.len() >= std::mem::size_of::<MemoryMappedPosition>());
    unsafe { &mut *(b.as_mut_ptr() as *mut MemoryMappedPosition) }
}

const CUR: (i32, i32) = (-777_777_777, 777_777_777); // a current range that is in no alphabet (so "same range" never triggers)

fn empty_position(wp: Pubkey) -> Position {
    Position { whirlpool: wp, position_mint: Pubkey::new_from_array([9; 32]), tick_lower_index: CUR.0, tick_upper_index: CUR.1, fee_growth_checkpoint_a: 11, fee_growth_checkpoint_b: 12, ..Default::default() }
}

fn patch_pool(img: &mut [u8], s: u16, price: u128, tick_current: i32) {
    use decode::pool_off::*;
    img[TICK_SPACING..TICK_SPACING + 2].copy_from_slice(&s.to_le_bytes());
    img[SQRT_PRICE..SQRT_PRICE + 16].copy_from_slice(&price.to_le_bytes());
    img[TICK_CURRENT..TICK_CURRENT + 4].copy_from_slice(&tick_current.to_le_bytes());
}

/// One validation case on the three function-level implementations. Returns Err(detail) on a disagreement with the oracle.
pub fn validate_case(wp_img0: &[u8], s: u16, lo: i32, up: i32) -> Result<bool, String> {
    let want = valid_range(lo, up, s);
    let mut img = wp_img0.to_vec();
    patch_pool(&mut img, s, 1u128 << 64, 0);
    // Anchor open_position
    let r = with_wp_account(&img, |acc| {
        let mut p = Position::default();
        let r = p.open_position(acc, Pubkey::new_from_array([9; 32]), lo, up);
        (r.is_ok(), p.tick_lower_index, p.tick_upper_index)
    });
    match r {
        None => return Err(format!("anchor open_position panicked (s={s} lo={lo} up={up})")),
        Some((ok, l, u)) => {
            if ok != want {
                return Err(format!("anchor Position::open_position(s={s}, {lo}, {up}) accepted={ok}, statement says {want}"));
            }
            if ok && (l, u) != (lo, up) {
                return Err(format!("anchor open_position stored ({l},{u}) for ({lo},{up})"));
            }
        }
    }
    // Anchor reset_position_range on an empty position
    let r = with_wp_account(&img, |acc| {
        let mut p = empty_position(Pubkey::new_from_array([3; 32]));
        let r = p.reset_position_range(acc, lo, up);
        (r.is_ok(), p)
    });
    match r {
        None => return Err(format!("anchor reset_position_range panicked (s={s} lo={lo} up={up})")),
        Some((ok, p)) => {
            if ok != want {
                return Err(format!("anchor Position::reset_position_range(s={s}, {lo}, {up}) accepted={ok}, statement says {want}"));
            }
            if ok && ((p.tick_lower_index, p.tick_upper_index) != (lo, up) || p.fee_growth_checkpoint_a != 0 || p.fee_growth_checkpoint_b != 0) {
                return Err(format!("anchor reset_position_range(s={s},{lo},{up}) left range ({},{}) / checkpoints ({},{})", p.tick_lower_index, p.tick_upper_index, p.fee_growth_checkpoint_a, p.fee_growth_checkpoint_b));
            }
            if !ok && (p.tick_lower_index, p.tick_upper_index) != CUR {
                return Err("anchor reset_position_range changed the range although it failed".into());
            }
        }
    }
    // Pinocchio copy
    for keep_owed in [false, true] {
        let mut pimg = Vec::new();
        empty_position(Pubkey::new_from_array([3; 32])).try_serialize(&mut pimg).unwrap();
        let r = quiet(|| v_pos_mut(&mut pimg).reset_position_range(v_wp(&img), lo, up, keep_owed).is_ok());
        match r {
            None => return Err(format!("pinocchio reset_position_range panicked (s={s} lo={lo} up={up})")),
            Some(ok) => {
                if ok != want {
                    return Err(format!("pinocchio reset_position_range(s={s}, {lo}, {up}, keep_owed={keep_owed}) accepted={ok}, statement (and Anchor) say {want}"));
                }
                let d = decode::position(&pimg);
                let exp = if ok { (lo, up) } else { CUR };
                if (d.tick_lower_index, d.tick_upper_index) != exp {
                    return Err(format!("pinocchio reset_position_range(s={s},{lo},{up}) left range ({},{})", d.tick_lower_index, d.tick_upper_index));
                }
                if ok && (d.fee_growth_checkpoint_a != 0 || d.fee_growth_checkpoint_b != 0) {
                    return Err("pinocchio reset_position_range did not zero the fee growth checkpoints".into());
                }
            }
        }
    }
    Ok(want)
}


/// Re-ranging only when empty: every subset of {liquidity, fee_owed_a, fee_owed_b, reward owed 0/1/2} being non-zero, on the
/// Anchor reset, Anchor `is_position_empty`, and the Pinocchio reset (keep_owed = false must agree with Anchor; keep_owed = true
/// — used by reposition after it has removed the liquidity — looks at the liquidity only).
pub fn emptiness_case(wp_img0: &[u8], mask: u8) -> Result<(), String> {
    let mut img = wp_img0.to_vec();
    patch_pool(&mut img, 64, 1u128 << 64, 0);
    let mk = || {
        let mut p = empty_position(Pubkey::new_from_array([3; 32]));
        p.tick_lower_index = -128;
        p.tick_upper_index = 128;
        if mask & 1 != 0 {
            p.liquidity = 1;
        }
        if mask & 2 != 0 {
            p.fee_owed_a = 1;
        }
        if mask & 4 != 0 {
            p.fee_owed_b = 1;
        }
        for i in 0..3 {
            if mask & (8 << i) != 0 {
                p.reward_infos[i].amount_owed = 1;
            }
        }
        p
    };
    let empty = mask == 0;
    if Position::is_position_empty(&mk()) != empty {
        return Err(format!("Position::is_position_empty is {} for non-zero field mask {mask:#08b}", !empty));
    }
    let r = with_wp_account(&img, |acc| mk().reset_position_range(acc, -64, 192).is_ok()).ok_or("anchor reset panicked")?;
    if r != empty {
        return Err(format!("anchor reset_position_range accepted = {r} for a position with non-zero field mask {mask:#08b} (liquidity, fee a, fee b, rewards 0..2)"));
    }
    for keep_owed in [false, true] {
        let mut pimg = Vec::new();
        mk().try_serialize(&mut pimg).unwrap();
        let r = quiet(|| v_pos_mut(&mut pimg).reset_position_range(v_wp(&img), -64, 192, keep_owed).is_ok()).ok_or("pinocchio reset panicked")?;
        let want = if keep_owed { mask & 1 == 0 } else { empty };
        if r != want {
            return Err(format!("pinocchio reset_position_range(keep_owed={keep_owed}) accepted = {r} for non-zero field mask {mask:#08b}; expected {want}"));
        }
    }
    Ok(())
}

/// One case of resolve_one_sided_position_ticks, alone and composed with the validation. Ok(class) / Err(detail).
pub fn resolve_case(wp_img0: &[u8], s: u16, lo: i32, up: i32, p: u128) -> Result<&'static str, String> {
    let (ls, us) = (lo == i32::MIN, up == i32::MAX);
    let got = quiet(|| resolve_one_sided_position_ticks(lo, up, s, p).ok()).ok_or_else(|| format!("resolve_one_sided_position_ticks panicked (s={s} lo={lo} up={up} p={p})"))?;
    // function alone (below the full-range-only threshold the statement fixes the result completely)
    if s < FRO_THRESHOLD {
        let want = match (ls, us) {
            (false, false) => Some((lo, up)),
            (true, true) => None,
            (true, false) => derive_lower(s, p).map(|d| (d, up)),
            (false, true) => derive_upper(s, p).map(|d| (lo, d)),
        };
        if got != want {
            return Err(format!("resolve_one_sided_position_ticks({lo}, {up}, s={s}, p={p}) = {got:?}; nearest usable tick keeping the position on one side of the price gives {want:?}"));
        }
    }
    // composed with the range validation (what every open instruction does)
    let mut img = wp_img0.to_vec();
    patch_pool(&mut img, s, p, tick_of_price(p));
    let fin = match got {
        None => None,
        Some((l, u)) => with_wp_account(&img, |acc| {
            let mut pos = Position::default();
            pos.open_position(acc, Pubkey::new_from_array([9; 32]), l, u).ok().map(|_| (pos.tick_lower_index, pos.tick_upper_index))
        })
        .ok_or("open_position panicked")?,
    };
    check_open_result(expected_open(lo, up, s, p), fin, &format!("resolve+validate({lo}, {up}, s={s}, p={p})"))
}

pub fn check_open_result(exp: OpenExpect, got: Option<(i32, i32)>, what: &str) -> Result<&'static str, String> {
    match (exp, got) {
        (OpenExpect::Accept(l, u), Some(g)) if g == (l, u) => Ok("accepted"),
        (OpenExpect::Accept(l, u), Some(g)) => Err(format!("{what}: opened with range {g:?}, the statement requires ({l},{u})")),
        (OpenExpect::Accept(l, u), None) => Err(format!("{what}: rejected, but ({l},{u}) is a valid range")),
        (OpenExpect::Reject, None) => Ok("rejected"),
        (OpenExpect::Reject, Some(g)) => Err(format!("{what}: accepted with range {g:?}, but no valid range exists for these bounds")),
        (OpenExpect::Either(..), None) => Ok("rejected"),
        (OpenExpect::Either(l, u), Some(g)) if g == (l, u) => Ok("accepted"),
        (OpenExpect::Either(l, u), Some(g)) => Err(format!("{what}: opened with range {g:?}, only ({l},{u}) would be admissible")),
    }
}

/// Handler level: patch the main pool (spacing, price, tick_current) and run the real open_bundled_position(index 3).
pub fn handler_case(l0: &Ledger, w: &LifeWorld, s: u16, p: u128, tick_current: i32, lo: i32, up: i32) -> Result<&'static str, String> {
    let mut l = l0.clone();
    let pool = w.pools[MAIN].addr;
    l.patch(&pool, |b| patch_pool(b, s, p, tick_current));
    let pre = l.clone();
    let o = svm::process(&mut l, &lw::ix_open_bundled(w, 3, MAIN, lo, up));
    let what = format!("open_bundled_position({lo}, {up}) on pool(s={s}, p={p}, tick_current={tick_current}) -> {}", o.short());
    let got = if o.ok() {
        let d = lw::position_opt(&l, &w.bundled[3])?.ok_or("bundled position missing after a successful open")?;
        if d.whirlpool != pool || d.position_mint != w.bundle_mint || d.liquidity != 0 {
            return Err(format!("{what}: wrong position fields {d:?}"));
        }
        Some((d.tick_lower_index, d.tick_upper_index))
    } else {
        if l != pre {
            return Err(format!("{what}: failed instruction changed the ledger"));
        }
        None
    };
    check_open_result(expected_open(lo, up, s, p), got, &what)
}

// ------------------------------------------------------------------------------------------------
// (1) bundle indexes
// ------------------------------------------------------------------------------------------------
fn bitmap_of(l: &Ledger, w: &LifeWorld) -> Result<Vec<u16>, String> {
    Ok(lw::bitmap_set(&lw::bundle_view(l, &w.bundle)?.ok_or("bundle account missing")?.bitmap))
}

/// open(i) -> bitmap == {i}; open again fails; close -> bitmap empty; close again fails
pub fn bundle_index_case(l0: &Ledger, w: &LifeWorld, i: u16) -> Result<(), String> {
    let mut l = l0.clone();
    let o = svm::process(&mut l, &lw::ix_open_bundled(w, i, MAIN, -128, 128));
    if i >= 256 {
        if o.ok() {
            return Err(format!("open_bundled_position(index {i}) succeeded; a bundle has exactly 256 indexes"));
        }
        if l != *l0 {
            return Err("failed open changed the ledger".into());
        }
        let o = svm::process(&mut l, &lw::ix_close_bundled(w, i));
        if o.ok() {
            return Err(format!("close_bundled_position(index {i}) succeeded"));
        }
        return Ok(());
    }
    if !o.ok() {
        return Err(format!("open_bundled_position(index {i}) failed: {}", o.short()));
    }
    let bm = bitmap_of(&l, w)?;
    if bm != vec![i] {
        return Err(format!("after open_bundled_position({i}) the bitmap marks {bm:?}"));
    }
    for j in 0..256usize {
        if l.get(&w.bundled[j]).is_some() != (j == i as usize) {
            return Err(format!("after open_bundled_position({i}) bundled position account {j} existence is wrong"));
        }
    }
    let d = lw::position_opt(&l, &w.bundled[i as usize])?.unwrap();
    if d.whirlpool != w.pools[MAIN].addr || d.position_mint != w.bundle_mint || d.liquidity != 0 || (d.tick_lower_index, d.tick_upper_index) != (-128, 128) {
        return Err(format!("bundled position {i} has wrong fields {d:?}"));
    }
    let snap = l.clone();
    if svm::process(&mut l, &lw::ix_open_bundled(w, i, MAIN, -64, 192)).ok() {
        return Err(format!("open_bundled_position({i}) succeeded twice"));
    }
    if svm::process(&mut l, &lw::ix_delete_bundle(w)).ok() {
        return Err(format!("delete_position_bundle succeeded while bundled position {i} is open"));
    }
    if l != snap {
        return Err("failed instructions changed the ledger".into());
    }
    let o = svm::process(&mut l, &lw::ix_close_bundled(w, i));
    if !o.ok() {
        return Err(format!("close_bundled_position({i}) of an empty position failed: {}", o.short()));
    }
    let bm = bitmap_of(&l, w)?;
    if !bm.is_empty() || l.get(&w.bundled[i as usize]).is_some() {
        return Err(format!("after close_bundled_position({i}) bitmap = {bm:?}, account exists = {}", l.get(&w.bundled[i as usize]).is_some()));
    }
    if svm::process(&mut l, &lw::ix_close_bundled(w, i)).ok() {
        return Err(format!("close_bundled_position({i}) succeeded twice"));
    }
    Ok(())
}

/// cumulative: open all 256 in a scrambled order, bitmap == set after each; delete refused throughout; close in another order.
pub fn bundle_cumulative(l0: &Ledger, w: &LifeWorld, mul_open: u16, mul_close: u16) -> Result<u64, String> {
    let mut l = l0.clone();
    let mut set = std::collections::BTreeSet::new();
    let mut steps = 0;
    for k in 0..256u16 {
        let i = (k * mul_open + 5) % 256;
        let o = svm::process(&mut l, &lw::ix_open_bundled(w, i, MAIN, -128, 128));
        if !o.ok() {
            return Err(format!("cumulative open({i}) failed: {}", o.short()));
        }
        set.insert(i);
        if bitmap_of(&l, w)? != set.iter().cloned().collect::<Vec<_>>() {
            return Err(format!("cumulative: after opening {set:?} the bitmap marks {:?}", bitmap_of(&l, w)?));
        }
        if k % 17 == 0 && svm::process(&mut l, &lw::ix_delete_bundle(w)).ok() {
            return Err(format!("delete_position_bundle succeeded with {} open bundled positions", set.len()));
        }
        steps += 1;
    }
    for k in 0..256u16 {
        let i = (k * mul_close + 11) % 256;
        if svm::process(&mut l, &lw::ix_delete_bundle(w)).ok() {
            return Err(format!("delete_position_bundle succeeded with {} open bundled positions", set.len()));
        }
        let o = svm::process(&mut l, &lw::ix_close_bundled(w, i));
        if !o.ok() {
            return Err(format!("cumulative close({i}) failed: {}", o.short()));
        }
        set.remove(&i);
        if bitmap_of(&l, w)? != set.iter().cloned().collect::<Vec<_>>() {
            return Err(format!("cumulative: after closing {i} the bitmap marks {:?}, open are {set:?}", bitmap_of(&l, w)?));
        }
        steps += 1;
    }
    let o = svm::process(&mut l, &lw::ix_delete_bundle(w));
    if !o.ok() {
        return Err(format!("delete_position_bundle of an empty bundle failed: {}", o.short()));
    }
    if l.get(&w.bundle).is_some() || l.get(&w.bundle_ta).is_some() {
        return Err("bundle / bundle token account still exist after delete".into());
    }
    Ok(steps)
}

// ------------------------------------------------------------------------------------------------
// driver
// ------------------------------------------------------------------------------------------------
pub fn run_part_b(ctx: &Ctx, r: &mut Report, l0: &Ledger, w: &LifeWorld) {
    let _ = table();
    let wp_img = l0.data(&w.pools[MAIN].addr).to_vec();
    // (1)
    let idx: Vec<u16> = if ctx.tier.is_quick() {
        (0..256u16).chain([256, 257, 263, 511, 512, 1000, 32767, 32768, 65280, 65535]).collect()
    } else {
        (0..=65535u16).collect()
    };
    let res: Vec<(u16, Result<(), String>)> = idx.par_iter().map(|i| (*i, bundle_index_case(l0, w, *i))).collect();
    r.set("bundle_index_cases", res.len() as u64);
    r.guard("bundle_indexes_valid_all_256", res.iter().filter(|x| x.0 < 256 && x.1.is_ok()).count() as u64 / 256);
    r.guard("bundle_indexes_invalid_rejected", res.iter().filter(|x| x.0 >= 256 && x.1.is_ok()).count() as u64);
    for (i, e) in res.iter().filter_map(|x| x.1.as_ref().err().map(|e| (x.0, e))).take(3) {
        r.violation(format!("bundle_index/{i}"), e.clone(), json!({"kind":"bundle_index","index": i}));
    }
    let cum: Vec<((u16, u16), Result<u64, String>)> = [(1u16, 255u16), (37, 91), (255, 3)].par_iter().map(|m| (*m, bundle_cumulative(l0, w, m.0, m.1))).collect();
    let mut steps = 0;
    for (m, c) in &cum {
        match c {
            Ok(n) => steps += n,
            Err(e) => r.violation(format!("bundle_cumulative/{}/{}", m.0, m.1), e.clone(), json!({"kind":"bundle_cumulative","mul_open": m.0, "mul_close": m.1})),
        }
    }
    r.set("bundle_cumulative_steps", steps);
    r.guard("bundle_cumulative_steps", steps);
    if !r.violations.is_empty() {
        return;
    }
    // (2)
    let mut cases: Vec<(u16, i32, i32)> = vec![];
    for s in SPACINGS {
        let a = tick_alphabet(s);
        for lo in &a {
            for up in &a {
                cases.push((s, *lo, *up));
            }
        }
    }
    let res: Vec<((u16, i32, i32), Result<bool, String>)> = cases.par_iter().map(|c| (*c, validate_case(&wp_img, c.0, c.1, c.2))).collect();
    r.set("range_validation_cases", res.len() as u64 * 4);
    r.guard("range_validation_accepted", res.iter().filter(|x| x.1 == Ok(true)).count() as u64);
    r.guard("range_validation_rejected", res.iter().filter(|x| x.1 == Ok(false)).count() as u64);
    r.guard("range_validation_accepted_full_range_only", res.iter().filter(|x| x.0 .0 >= FRO_THRESHOLD && x.1 == Ok(true)).count() as u64);
    for (c, e) in res.iter().filter_map(|x| x.1.as_ref().err().map(|e| (x.0, e))).take(3) {
        r.violation(format!("validate/{}/{}/{}", c.0, c.1, c.2), e.clone(), json!({"kind":"validate","spacing": c.0, "lower": c.1, "upper": c.2}));
    }
    let res: Vec<(u8, Result<(), String>)> = (0..64u8).into_par_iter().map(|m| (m, emptiness_case(&wp_img, m))).collect();
    r.set("emptiness_cases", res.len() as u64 * 4);
    r.guard("emptiness_cases_ok", res.iter().filter(|x| x.1.is_ok()).count() as u64);
    for (m, e) in res.iter().filter_map(|x| x.1.as_ref().err().map(|e| (x.0, e))).take(3) {
        r.violation(format!("emptiness/{m}"), e.clone(), json!({"kind":"emptiness","mask": m}));
    }
    // the same pairs through the real handler (sentinel values are resolved there, so the composed oracle is used)
    let p0 = 1u128 << 64;
    let res: Vec<((u16, i32, i32), Result<&'static str, String>)> = cases.par_iter().map(|c| (*c, handler_case(l0, w, c.0, p0, 0, c.1, c.2))).collect();
    r.set("handler_range_cases", res.len() as u64);
    r.guard("handler_range_accepted", res.iter().filter(|x| x.1 == Ok("accepted")).count() as u64);
    r.guard("handler_range_rejected", res.iter().filter(|x| x.1 == Ok("rejected")).count() as u64);
    for (c, e) in res.iter().filter_map(|x| x.1.as_ref().err().map(|e| (x.0, e))).take(3) {
        r.violation(format!("handler/{}/{}/0/{}/{}", c.0, p0, c.1, c.2), e.clone(), json!({"kind":"handler","spacing": c.0, "price": p0.to_string(), "tick_current": 0, "lower": c.1, "upper": c.2}));
    }
    if !r.violations.is_empty() {
        return;
    }
    // (3)
    let mut rc: Vec<(u16, i32, i32, u128)> = vec![];
    for s in SPACINGS {
        let prices = price_alphabet(s);
        for (lo, up) in bound_combos(s) {
            for p in &prices {
                rc.push((s, lo, up, *p));
            }
        }
    }
    let res: Vec<((u16, i32, i32, u128), Result<&'static str, String>)> = rc.par_iter().map(|c| (*c, resolve_case(&wp_img, c.0, c.1, c.2, c.3))).collect();
    r.set("resolve_cases", res.len() as u64);
    let one_sided = |c: &(u16, i32, i32, u128)| (c.1 == i32::MIN) != (c.2 == i32::MAX);
    r.guard("resolve_lower_sentinel_accepted", res.iter().filter(|x| x.0 .1 == i32::MIN && x.1 == Ok("accepted")).count() as u64);
    r.guard("resolve_upper_sentinel_accepted", res.iter().filter(|x| x.0 .2 == i32::MAX && x.1 == Ok("accepted")).count() as u64);
    r.guard("resolve_one_sided_rejected", res.iter().filter(|x| one_sided(&x.0) && x.1 == Ok("rejected")).count() as u64);
    r.guard("resolve_price_exactly_on_usable_tick", rc.iter().filter(|c| one_sided(c) && c.0 < FRO_THRESHOLD && { let t = tick_of_price(c.3); price_of(t) == c.3 && usable(t, c.0) }).count() as u64);
    for (c, e) in res.iter().filter_map(|x| x.1.as_ref().err().map(|e| (x.0, e))).take(3) {
        r.violation(format!("resolve/{}/{}/{}/{}", c.0, c.1, c.2, c.3), e.clone(), json!({"kind":"resolve","spacing": c.0, "lower": c.1, "upper": c.2, "price": c.3.to_string()}));
    }
    // through the handler, with tick_current both unshifted and shifted (T-1 at price p(T))
    let mut hc: Vec<(u16, u128, i32, i32, i32)> = vec![];
    for c in &rc {
        let t = tick_of_price(c.3);
        hc.push((c.0, c.3, t, c.1, c.2));
        if price_of(t) == c.3 && t > MIN_TICK {
            hc.push((c.0, c.3, t - 1, c.1, c.2));
        }
    }
    let res: Vec<((u16, u128, i32, i32, i32), Result<&'static str, String>)> = hc.par_iter().map(|c| (*c, handler_case(l0, w, c.0, c.1, c.2, c.3, c.4))).collect();
    r.set("handler_resolve_cases", res.len() as u64);
    r.guard("handler_sentinel_accepted", res.iter().filter(|x| x.1 == Ok("accepted") && ((x.0 .3 == i32::MIN) != (x.0 .4 == i32::MAX))).count() as u64);
    r.guard("handler_shifted_state_cases", hc.iter().filter(|c| c.2 < MAX_TICK && price_of(c.2 + 1) == c.1).count() as u64);
    for (c, e) in res.iter().filter_map(|x| x.1.as_ref().err().map(|e| (x.0, e))).take(3) {
        r.violation(format!("handler/{}/{}/{}/{}/{}", c.0, c.1, c.2, c.3, c.4), e.clone(), json!({"kind":"handler","spacing": c.0, "price": c.1.to_string(), "tick_current": c.2, "lower": c.3, "upper": c.4}));
    }
    r.sample(json!({"part":"B","resolve_case": {"spacing": 64, "lower": "i32::MIN", "upper": 128, "price": p0.to_string(), "expected": format!("{:?}", expected_open(i32::MIN, 128, 64, p0))}}));
}

pub fn replay_part_b(case: &Value, l0: &Ledger, w: &LifeWorld) -> Result<(), String> {
    let wp_img = l0.data(&w.pools[MAIN].addr).to_vec();
    let i = |k: &str| case[k].as_i64().ok_or(format!("missing {k}"));
    let price = |k: &str| case[k].as_str().and_then(|s| s.parse::<u128>().ok()).ok_or(format!("missing {k}"));
    match case["kind"].as_str().unwrap_or("") {
        "bundle_index" => bundle_index_case(l0, w, i("index")? as u16),
        "bundle_cumulative" => bundle_cumulative(l0, w, i("mul_open")? as u16, i("mul_close")? as u16).map(|_| ()),
        "emptiness" => emptiness_case(&wp_img, i("mask")? as u8),
        "validate" => validate_case(&wp_img, i("spacing")? as u16, i("lower")? as i32, i("upper")? as i32).map(|_| ()),
        "resolve" => resolve_case(&wp_img, i("spacing")? as u16, i("lower")? as i32, i("upper")? as i32, price("price")?).map(|_| ()),
        "handler" => handler_case(l0, w, i("spacing")? as u16, price("price")?, i("tick_current")? as i32, i("lower")? as i32, i("upper")? as i32).map(|_| ()),
        k => Err(format!("unknown case kind {k}")),
    }
}
