//! C17 — a two-hop swap equals its two single swaps with a matching intermediate amount (DESIGN §3 C17).
//!
//! Engine A, differential. States = all states of the three-pool world W-3pool reached by sequences <= d of single-pool
//! operations (swaps in both directions incl. tick-crossing ones, increase / decrease, clock) from two roots. In EVERY
//! distinct state every two-hop variant is executed on a copy of the state:
//!   route (all 6 ordered pool pairs = all four direction-flag combinations) x instruction version (v1 / v2) x mode
//!   (exact-in / exact-out) x amount x price-limit pair, plus the structurally invalid variants (same pool twice, every
//!   wrong direction-flag combination = no shared intermediate mint).
//! Oracle: on another copy of the same state the two legs are executed as two single `swap` / `swap_v2` instructions by the
//! same trader (exact-in: leg one, then leg two with input = leg one's output; exact-out: leg two on a scratch copy to learn
//! its required input, then leg one for that amount, then leg two). The two-hop must succeed iff both legs succeed on their
//! own and the intermediate amounts are equal (and the threshold admits the realised amount); when it succeeds the whole
//! ledger (both pools, tick arrays, oracles, all vaults, every trader account) must be byte-identical to the ledger after
//! the two single swaps, the trader's intermediate account must be unchanged, and the two Traded events must equal the
//! events of the single swaps. Each successful two-hop is re-executed with thresholds realised-1 / realised / realised+1.
//!
//! Transfer fee on the intermediate mint (world `c17-tfee`, v2): the program moves the intermediate amount vault-to-vault,
//! so the fee is charged once; "second leg's input equals first leg's output" is read at the vault level (leg one's vault
//! outflow X is the amount specified for leg two; exact-out: leg one is asked for X minus the fee on X). With that reading
//! everything is identical except the trader's intermediate account, which the two single swaps debit by the second fee
//! while the two-hop leaves it untouched (which is what the property demands: the intermediate nets to zero).
use super::c17_world::{self as w3, HopArgs, Kind, Op3, W3};
use crate::explore::{self, Limits, Model};
use crate::ops::{self, Lim, Op, Part};
use crate::oracles::{decode_traded, ec};
use crate::report::{Ctx, Report};
use crate::world::balance;
use rayon::prelude::*;
use serde_json::{json, Value};
use solana_program::pubkey::Pubkey;
use std::collections::{BTreeMap, HashSet};
use std::sync::Mutex;
use svm::{Ledger, Outcome};
use whirlpool::errors::ErrorCode;
use whirlpool::verif_hooks::SwapTrace;

// ------------------------------------------------------------------------------------------------
// worlds
// ------------------------------------------------------------------------------------------------
pub struct Built3 {
    pub w: W3,
    pub roots: Vec<(String, Ledger)>,
}

fn build_world(name: &str) -> Built3 {
    let (kind, adaptive, te) = match name {
        "c17-spl" => (Kind::Spl, [false, false, true], None),
        "c17-t22" => (Kind::T22, [false, true, false], None),
        "c17-tfee" => (Kind::TFee, [false, false, false], None),
        // pool P13 is an adaptive-fee pool that opens for trading 40 s after the start: until the clock op (+45 s) has run, every
        // route through it has a leg that fails on its own ("fails ... if either leg would fail on its own"), afterwards not
        "c17-te" => (Kind::Spl, [false, false, true], Some(40)),
        // two adaptive-fee pools on a route, one already open and one that opens 40 s later
        "c17-te2" => (Kind::Spl, [true, false, true], Some(40)),
        // the third pool is full-range-only (see partial_fill_part)
        "c17-fro" => (Kind::Spl, [false, false, false], None),
        _ => panic!("unknown world {name}"),
    };
    let (l, w) = w3::build(kind, name, adaptive, te);
    let roots = w3::roots(&w).into_iter().map(|(n, seq)| (n.to_string(), w3::apply_all3(&l, &w, &seq))).collect();
    Built3 { w, roots }
}

/// (world, share of the remaining wall budget). `WPV_C17_WORLDS=a,b` restricts the run (debugging / mutant runs only).
fn world_names(thorough: bool) -> Vec<(&'static str, f64)> {
    let all: Vec<(&'static str, f64)> = if thorough { vec![("c17-spl", 0.4), ("c17-te", 0.25), ("c17-tfee", 0.6), ("c17-t22", 1.0)] } else { vec![("c17-spl", 0.5), ("c17-te", 0.6), ("c17-tfee", 1.0)] };
    match std::env::var("WPV_C17_WORLDS") {
        Ok(sel) => [("c17-spl", 0.5), ("c17-tfee", 0.6), ("c17-t22", 1.0)].into_iter().filter(|(n, _)| sel.split(',').any(|x| x == *n)).collect(),
        Err(_) => all,
    }
}

fn alphabet(w: &W3, thorough: bool) -> Vec<Op3> {
    let mut a = vec![];
    for p in 0..3u8 {
        // adaptive-fee pools need the writable oracle: only the v2 swap has it in its account list
        let force_v2 = !w.v1_capable() || w.adaptive[p as usize];
        let v = |x: bool| x || force_v2;
        a.push(Op3 { pool: p, op: Op::Swap { a_to_b: true, exact_in: true, amount: 1_000_000, lim: Lim::None, v2: v(false) } });
        a.push(Op3 { pool: p, op: Op::Swap { a_to_b: false, exact_in: false, amount: 300_000, lim: Lim::None, v2: v(true) } });
        // lands exactly on the next initialized tick (shifted state for a->b)
        a.push(Op3 { pool: p, op: Op::Swap { a_to_b: true, exact_in: true, amount: u64::MAX >> 8, lim: Lim::NextTick, v2: v(true) } });
        // crosses at least one initialized tick
        a.push(Op3 { pool: p, op: Op::Swap { a_to_b: false, exact_in: true, amount: 40_000_000, lim: Lim::None, v2: v(false) } });
        a.push(Op3 { pool: p, op: Op::Inc { pos: 1, liq: 77_777_777, v2: v(p % 2 == 0) } });
        a.push(Op3 { pool: p, op: Op::Dec { pos: 0, part: Part::Half, v2: v(p % 2 == 1) } });
        if thorough {
            a.push(Op3 { pool: p, op: Op::Dec { pos: 0, part: Part::All, v2: v(true) } });
        }
    }
    a.push(Op3 { pool: 0, op: Op::Clock(45) });
    a
}

// ------------------------------------------------------------------------------------------------
// two-hop variants
// ------------------------------------------------------------------------------------------------
/// (pool_one, pool_two, a_to_b_one, a_to_b_two): every ordered pair of distinct pools with its valid direction flags.
/// P12 = 0 (M1,M2), P23 = 1 (M2,M3), P13 = 2 (M1,M3).
pub const ROUTES: [(usize, usize, bool, bool); 6] = [
    (0, 1, true, true),   // M1 -> M2 -> M3
    (1, 0, false, false), // M3 -> M2 -> M1
    (0, 2, false, true),  // M2 -> M1 -> M3
    (2, 0, false, true),  // M3 -> M1 -> M2
    (2, 1, true, false),  // M1 -> M3 -> M2
    (1, 2, true, false),  // M2 -> M3 -> M1
];

pub const AMOUNTS: [u64; 5] = [1, 1_000, 1_000_000, 4_000_000, 40_000_000];

fn limit_pairs(thorough: bool) -> Vec<(Lim, Lim)> {
    let mut v = vec![(Lim::None, Lim::None), (Lim::Mid, Lim::None), (Lim::None, Lim::Mid)];
    if thorough {
        v.extend([(Lim::NextTick, Lim::None), (Lim::None, Lim::NextTick), (Lim::Mid, Lim::Mid)]);
    }
    v
}

#[derive(Clone, Debug, PartialEq, Eq, serde::Serialize, serde::Deserialize)]
pub struct Variant {
    pub one: usize,
    pub two: usize,
    pub a1: bool,
    pub a2: bool,
    pub v2: bool,
    pub exact_in: bool,
    pub amount: u64,
    pub lim1: Lim,
    pub lim2: Lim,
}

fn variants(w: &W3, thorough: bool) -> Vec<Variant> {
    let mut out = vec![];
    let versions: &[bool] = if w.v1_capable() { &[false, true] } else { &[true] };
    // well-formed routes
    for (one, two, a1, a2) in ROUTES {
        for &v2 in versions {
            for exact_in in [true, false] {
                for amount in AMOUNTS {
                    for (lim1, lim2) in limit_pairs(thorough) {
                        out.push(Variant { one, two, a1, a2, v2, exact_in, amount, lim1, lim2 });
                    }
                }
            }
        }
    }
    // structurally invalid: every other flag combination of every ordered pair (no shared intermediate mint) ...
    for (one, two, a1, a2) in ROUTES {
        for (b1, b2) in [(true, true), (true, false), (false, true), (false, false)] {
            if (b1, b2) == (a1, a2) {
                continue;
            }
            for &v2 in versions {
                for exact_in in [true, false] {
                    out.push(Variant { one, two, a1: b1, a2: b2, v2, exact_in, amount: 1_000, lim1: Lim::None, lim2: Lim::None });
                }
            }
        }
    }
    // ... and the same pool twice (with flags that make the mints chain up: out and back)
    for p in 0..3usize {
        for (b1, b2) in [(true, false), (false, true)] {
            for &v2 in versions {
                for exact_in in [true, false] {
                    out.push(Variant { one: p, two: p, a1: b1, a2: b2, v2, exact_in, amount: 1_000, lim1: Lim::None, lim2: Lim::None });
                }
            }
        }
    }
    out
}

// ------------------------------------------------------------------------------------------------
// the differential oracle
// ------------------------------------------------------------------------------------------------
struct Leg {
    ledger: Ledger,
    outcome: Outcome,
    trader_in: u64,  // what left the trader's input account
    trader_out: u64, // what arrived in the trader's output account
    vault_out: u64,  // what left the pool's output vault
    crossings: u64,
}

fn single(l: &Ledger, w: &W3, pool: usize, a_to_b: bool, exact_in: bool, amount: u64, limit: u128, v2: bool) -> Leg {
    let p = w.pool(pool);
    let ix = w3::ix_single(l, w, pool, a_to_b, exact_in, amount, limit, if exact_in { 0 } else { u64::MAX }, v2);
    let mut n = l.clone();
    let _ = whirlpool::verif_hooks::take_swap_trace();
    let outcome = svm::process(&mut n, &ix);
    let trace = whirlpool::verif_hooks::take_swap_trace();
    let tin = w.trader_acct(&w3::in_mint(p, a_to_b));
    let tout = w.trader_acct(&w3::out_mint(p, a_to_b));
    let vout = w3::out_vault(p, a_to_b);
    Leg {
        trader_in: balance(l, &tin).wrapping_sub(balance(&n, &tin)),
        trader_out: balance(&n, &tout).wrapping_sub(balance(l, &tout)),
        vault_out: balance(l, &vout).wrapping_sub(balance(&n, &vout)),
        crossings: trace.iter().filter(|t| matches!(t, SwapTrace::Cross(_))).count() as u64,
        ledger: n,
        outcome,
    }
}

enum Expect {
    /// the two-hop must fail; `code` = the program error it must fail with when the statement pins it down
    Fail { why: String, code: Option<u32> },
    /// the two-hop must succeed and reproduce this ledger; (first leg's input, second leg's output, events of the legs)
    Ok { ledger: Ledger, paid: u64, received: u64, events: Vec<Vec<u8>>, cross1: u64, cross2: u64, partial_one: bool, partial_two: bool },
}

fn traded_events(o: &Outcome) -> Vec<Vec<u8>> {
    o.events.iter().filter(|e| decode_traded(e).is_some()).cloned().collect()
}

/// Reference execution: the two legs as two single swaps on a copy of `l`.
fn reference(l: &Ledger, w: &W3, v: &Variant, lim1: u128, lim2: u128) -> Result<Expect, String> {
    let p1 = w.pool(v.one);
    if v.one == v.two {
        return Ok(Expect::Fail { why: "both legs name the same pool".into(), code: None });
    }
    let p2 = w.pool(v.two);
    let mid = w3::out_mint(p1, v.a1);
    if mid != w3::in_mint(p2, v.a2) {
        return Ok(Expect::Fail { why: "the legs do not share the intermediate mint".into(), code: Some(ec(ErrorCode::InvalidIntermediaryMint)) });
    }
    let mismatch = Some(ec(ErrorCode::IntermediateTokenAmountMismatch));
    if v.exact_in {
        let leg1 = single(l, w, v.one, v.a1, true, v.amount, lim1, v.v2);
        if !leg1.outcome.ok() {
            return Ok(Expect::Fail { why: format!("leg one fails on its own ({})", leg1.outcome.short()), code: None });
        }
        // leg one's output as it leaves pool one's vault = the input specified for leg two
        let x = leg1.vault_out;
        let leg2 = single(&leg1.ledger, w, v.two, v.a2, true, x, lim2, v.v2);
        if !leg2.outcome.ok() {
            return Ok(Expect::Fail { why: format!("leg two fails on its own with input {x} ({})", leg2.outcome.short()), code: None });
        }
        if leg2.trader_in != x {
            return Ok(Expect::Fail { why: format!("intermediate amounts differ: leg one delivers {x}, leg two takes {}", leg2.trader_in), code: mismatch });
        }
        let mut events = traded_events(&leg1.outcome);
        events.extend(traded_events(&leg2.outcome));
        Ok(Expect::Ok {
            paid: leg1.trader_in,
            received: leg2.trader_out,
            events,
            cross1: leg1.crossings,
            cross2: leg2.crossings,
            partial_one: leg1.trader_in < v.amount,
            partial_two: false,
            ledger: leg2.ledger,
        })
    } else {
        // the handler computes leg two first: learn its required input on a scratch copy
        let scratch = single(l, w, v.two, v.a2, false, v.amount, lim2, v.v2);
        if !scratch.outcome.ok() {
            return Ok(Expect::Fail { why: format!("leg two fails on its own ({})", scratch.outcome.short()), code: None });
        }
        let need = scratch.trader_in;
        // what leg one has to deliver so that `need` leaves its vault (identity for fee-less mints)
        let ask = need - w.transfer_fee(&mid, need);
        let leg1 = single(l, w, v.one, v.a1, false, ask, lim1, v.v2);
        if !leg1.outcome.ok() {
            return Ok(Expect::Fail { why: format!("leg one fails on its own for output {ask} ({})", leg1.outcome.short()), code: None });
        }
        let leg2 = single(&leg1.ledger, w, v.two, v.a2, false, v.amount, lim2, v.v2);
        if !leg2.outcome.ok() || leg2.trader_in != need || leg2.trader_out != scratch.trader_out {
            return Err(format!("oracle-internal: leg two after leg one ({} in {} out {}) differs from leg two alone (in {} out {})", leg2.outcome.short(), leg2.trader_in, leg2.trader_out, need, scratch.trader_out));
        }
        if leg1.vault_out != need {
            return Ok(Expect::Fail { why: format!("intermediate amounts differ: leg two needs {need}, leg one delivers {}", leg1.vault_out), code: mismatch });
        }
        let mut events = traded_events(&leg1.outcome);
        events.extend(traded_events(&leg2.outcome));
        Ok(Expect::Ok {
            paid: leg1.trader_in,
            received: leg2.trader_out,
            events,
            cross1: leg1.crossings,
            cross2: leg2.crossings,
            partial_one: false,
            partial_two: leg2.trader_out < v.amount,
            ledger: leg2.ledger,
        })
    }
}

fn describe_diff(w: &W3, a: &Ledger, b: &Ledger) -> String {
    let mut names: BTreeMap<Pubkey, String> = BTreeMap::new();
    for (i, sw) in w.pools.iter().enumerate() {
        names.insert(sw.pool.addr, format!("whirlpool[{i}]"));
        names.insert(sw.pool.vault_a, format!("vault_a[{i}]"));
        names.insert(sw.pool.vault_b, format!("vault_b[{i}]"));
        names.insert(sw.pool.oracle, format!("oracle[{i}]"));
    }
    for (i, k) in w.trader_accts.iter().enumerate() {
        names.insert(*k, format!("trader_account[mint {}]", i + 1));
    }
    let mut out = vec![];
    let keys: std::collections::BTreeSet<&Pubkey> = a.accts.keys().chain(b.accts.keys()).collect();
    for k in keys {
        if a.accts.get(k) != b.accts.get(k) {
            let n = names.get(k).cloned().unwrap_or_else(|| {
                let d = a.data(k);
                if d.len() >= 8 && (d[..8] == crate::decode::FIXED_TA_DISC || d[..8] == crate::decode::DYN_TA_DISC) {
                    let ta = crate::decode::tick_array(d).ok();
                    let pool = ta.as_ref().and_then(|t| w.pools.iter().position(|sw| sw.pool.addr == t.whirlpool));
                    format!("tick_array[pool {:?}, start {:?}]", pool, ta.map(|t| t.start_tick_index))
                } else {
                    format!("{k}")
                }
            });
            let (da, db) = (a.data(k), b.data(k));
            let off = da.iter().zip(db.iter()).position(|(x, y)| x != y);
            let amounts = if n.starts_with("vault") || n.starts_with("trader") { format!(" balance {} vs {}", balance(a, k), balance(b, k)) } else { String::new() };
            out.push(format!("{n} (first differing byte {off:?}, len {} vs {}{amounts})", da.len(), db.len()));
        }
    }
    out.join("; ")
}

type Counts = BTreeMap<String, u64>;
fn bump(c: &mut Counts, k: &str) {
    *c.entry(k.to_string()).or_insert(0) += 1;
}

fn route_name(v: &Variant) -> String {
    format!("P{}>P{}:{}{}", v.one, v.two, if v.a1 { "ab" } else { "ba" }, if v.a2 { "ab" } else { "ba" })
}

/// Execute one two-hop variant in state `l` and judge it against the two-single-swap execution.
fn check_variant(l: &Ledger, w: &W3, v: &Variant, c: &mut Counts, sample: &mut Option<Value>) -> Result<(), String> {
    let p1 = w.pool(v.one);
    let p2 = w.pool(v.two);
    let lim1 = ops::resolve_limit(l, p1, v.a1, v.lim1);
    let lim2 = ops::resolve_limit(l, p2, v.a2, v.lim2);
    let expect = reference(l, w, v, lim1, lim2)?;
    let hop_ix = |th: u64| {
        let a = HopArgs { amount: v.amount, other_amount_threshold: th, exact_in: v.exact_in, a_to_b_one: v.a1, a_to_b_two: v.a2, limit_one: lim1, limit_two: lim2 };
        w3::ix_two_hop(l, w, v.one, v.two, a, v.v2)
    };
    let neutral = if v.exact_in { 0 } else { u64::MAX };
    let mut post = l.clone();
    let _ = whirlpool::verif_hooks::take_swap_trace();
    let hop = svm::process(&mut post, &hop_ix(neutral));
    let trace = whirlpool::verif_hooks::take_swap_trace();
    bump(c, "two_hop_executions_compared");
    let mode = if v.exact_in { "exact_in" } else { "exact_out" };
    let ver = if v.v2 { "v2" } else { "v1" };
    match expect {
        Expect::Fail { why, code } => {
            if hop.ok() {
                return Err(format!("two-hop succeeded although {why}"));
            }
            if let Some(want) = code {
                if hop.code() != Some(want) {
                    return Err(format!("two-hop failed with {} but {why} (expected error {want})", hop.short()));
                }
            }
            bump(c, &format!("fail:{}", hop.short()));
            if v.one == v.two {
                bump(c, "fail_same_pool");
            } else if code == Some(ec(ErrorCode::InvalidIntermediaryMint)) {
                bump(c, "fail_no_shared_mint");
            } else if code == Some(ec(ErrorCode::IntermediateTokenAmountMismatch)) {
                bump(c, &format!("fail_mismatch:{mode}"));
            } else {
                bump(c, "fail_leg_alone");
            }
            Ok(())
        }
        Expect::Ok { ledger, paid, received, events, cross1, cross2, partial_one, partial_two } => {
            if !hop.ok() {
                return Err(format!("two-hop failed with {} although both legs succeed on their own with matching intermediate amounts (pays {paid}, receives {received})", hop.short()));
            }
            let m_in = w3::in_mint(p1, v.a1);
            let m_mid = w3::out_mint(p1, v.a1);
            let m_out = w3::out_mint(p2, v.a2);
            let (t_in, t_mid, t_out) = (w.trader_acct(&m_in), w.trader_acct(&m_mid), w.trader_acct(&m_out));
            // the trader pays only the first leg's input, receives only the second leg's output, intermediate nets to zero
            let d_in = balance(l, &t_in).wrapping_sub(balance(&post, &t_in));
            let d_out = balance(&post, &t_out).wrapping_sub(balance(l, &t_out));
            if d_in != paid || d_out != received {
                return Err(format!("two-hop moved -{d_in} / +{d_out} on the trader's input / output accounts, the two single swaps -{paid} / +{received}"));
            }
            if post.accts.get(&t_mid) != l.accts.get(&t_mid) {
                return Err(format!("the trader's intermediate account changed: balance {} -> {}", balance(l, &t_mid), balance(&post, &t_mid)));
            }
            // everything else: byte-identical to the two single swaps (with a transfer fee on the intermediate mint the
            // single swaps charge the trader a second fee on that account — see the module comment)
            let mut reference_ledger = ledger;
            if w.transfer_fee(&m_mid, u64::MAX) > 0 {
                reference_ledger.accts.insert(t_mid, l.accts.get(&t_mid).unwrap().clone());
                bump(c, "ok_with_fee_on_intermediate");
            }
            if post != reference_ledger {
                return Err(format!("state after the two-hop differs from the state after the two single swaps: {}", describe_diff(w, &post, &reference_ledger)));
            }
            // packaging (v2): the same two-hop with the needed tick arrays of a leg handed over as supplemental accounts while its
            // three slots name an array behind the direction of travel, and with irrelevant extra supplemental arrays — the outcome
            // must not depend on it (C10's packaging clause, on the two-hop instruction)
            if v.v2 && v.lim1 == Lim::None && v.lim2 == Lim::None && (v.amount == 1_000_000 || v.amount == 40_000_000) {
                let a = HopArgs { amount: v.amount, other_amount_threshold: neutral, exact_in: v.exact_in, a_to_b_one: v.a1, a_to_b_two: v.a2, limit_one: lim1, limit_two: lim2 };
                let canon = |p: &crate::world::PoolRef, a_to_b: bool| crate::world::swap_tick_arrays(p, p.state(l).tick_current_index, a_to_b);
                let behind = |p: &crate::world::PoolRef, a_to_b: bool| {
                    let n = p.ticks_in_array();
                    let shift = if a_to_b { 0 } else { p.tick_spacing as i32 };
                    let s0 = (p.state(l).tick_current_index + shift).div_euclid(n) * n;
                    p.tick_array(if a_to_b { s0 + n } else { s0 - n })
                };
                let (c1, c2) = (canon(p1, v.a1), canon(p2, v.a2));
                let (b1, b2) = (behind(p1, v.a1), behind(p2, v.a2));
                let packs: [(&str, [Pubkey; 3], [Pubkey; 3], Vec<Pubkey>, Vec<Pubkey>); 4] = [
                    ("leg one through supplemental arrays", [b1; 3], c2, c1.to_vec(), vec![]),
                    ("leg two through supplemental arrays", c1, [b2; 3], vec![], c2.to_vec()),
                    ("both legs through supplemental arrays", [b1; 3], [b2; 3], c1.to_vec(), c2.to_vec()),
                    ("irrelevant extra supplemental arrays", c1, c2, vec![b1], vec![b2]),
                ];
                for (what, t1, t2, s1, s2) in packs {
                    let ix = w3::ix_two_hop_packaged(l, w, v.one, v.two, a, true, t1, t2, &s1, &s2);
                    let mut alt = l.clone();
                    let o = svm::process(&mut alt, &ix);
                    bump(c, "two_hop_packagings_compared");
                    if !o.ok() {
                        return Err(format!("two-hop with {what} failed with {} while the same arrays in the slots succeed", o.short()));
                    }
                    if alt != post {
                        return Err(format!("two-hop with {what} ends in a different state: {}", describe_diff(w, &alt, &post)));
                    }
                }
            }
            // account flags: the same two-hop with an oracle account handed over read-only either fails or ends in the very same
            // state — it must never trade on an adaptive-fee pool without recording the trade in that pool's oracle
            if v.lim1 == Lim::None && v.lim2 == Lim::None && (v.amount == 1_000_000 || v.amount == 40_000_000) {
                for (what, ro1, ro2) in [("oracle one read-only", true, false), ("oracle two read-only", false, true), ("both oracles read-only", true, true)] {
                    let mut ix = hop_ix(neutral);
                    for m in ix.accounts.iter_mut() {
                        if (ro1 && m.pubkey == p1.oracle) || (ro2 && m.pubkey == p2.oracle) {
                            m.is_writable = false;
                        }
                    }
                    let mut alt = l.clone();
                    let o = svm::process(&mut alt, &ix);
                    bump(c, "two_hop_read_only_oracle_variants");
                    if o.ok() {
                        bump(c, "two_hop_read_only_oracle_accepted");
                        if alt != post {
                            return Err(format!("two-hop with {what} succeeded but ends in a different state than with writable oracles: {}", describe_diff(w, &alt, &post)));
                        }
                    } else if alt != *l {
                        return Err(format!("two-hop with {what} failed ({}) but changed the ledger", o.short()));
                    }
                }
            }
            let hop_events = traded_events(&hop);
            if hop_events != events {
                return Err(format!(
                    "Traded events of the two-hop {:?} differ from those of the single swaps {:?}",
                    hop_events.iter().map(|e| decode_traded(e)).collect::<Vec<_>>(),
                    events.iter().map(|e| decode_traded(e)).collect::<Vec<_>>()
                ));
            }
            let begins = trace.iter().filter(|t| matches!(t, SwapTrace::Begin { .. })).count();
            if begins != 2 {
                return Err(format!("hook H2 recorded {begins} swap computations for one two-hop"));
            }
            let hop_cross = trace.iter().filter(|t| matches!(t, SwapTrace::Cross(_))).count() as u64;
            bump(c, &format!("ok:{}:{mode}:{ver}", route_name(v)));
            if cross1 + cross2 > 0 {
                *sample = Some(json!({"two_hop": serde_json::to_value(v).unwrap(), "limits": [lim1.to_string(), lim2.to_string()], "trader_pays": paid, "trader_receives": received,
                    "ticks_crossed": [cross1, cross2], "verdict": "identical to the two single swaps"}));
            }
            if cross1 > 0 {
                bump(c, "ok_crossing_in_leg_one");
            }
            if cross2 > 0 {
                bump(c, "ok_crossing_in_leg_two");
            }
            if hop_cross > 0 {
                bump(c, "ok_crossings_inside_two_hop");
            }
            if partial_one {
                bump(c, "ok_partial_fill_leg_one_exact_in");
            }
            if partial_two {
                bump(c, "ok_partial_fill_leg_two_exact_out");
            }
            if w.adaptive[v.one] || w.adaptive[v.two] {
                bump(c, "ok_adaptive_fee_pool");
            }
            // thresholds: one below, equal to, one above the realised other amount
            let x = if v.exact_in { received } else { paid };
            for th in [x.checked_sub(1), Some(x), x.checked_add(1)].into_iter().flatten() {
                let mut n = l.clone();
                let r = svm::process(&mut n, &hop_ix(th));
                bump(c, "threshold_reexecutions");
                let should = if v.exact_in { th <= x } else { th >= x };
                if r.ok() != should {
                    return Err(format!("{mode} two-hop realising {x}: threshold {th} gave {} (expected {})", r.short(), if should { "success" } else { "failure" }));
                }
                if r.ok() {
                    if n != post {
                        return Err(format!("two-hop outcome depends on the threshold value {th}: {}", describe_diff(w, &n, &post)));
                    }
                } else {
                    let want = if v.exact_in { ec(ErrorCode::AmountOutBelowMinimum) } else { ec(ErrorCode::AmountInAboveMaximum) };
                    if r.code() != Some(want) {
                        return Err(format!("threshold {th} vs realised {x} failed with {} instead of error {want}", r.short()));
                    }
                    bump(c, &format!("threshold_flip:{mode}:{ver}"));
                }
            }
            Ok(())
        }
    }
}

// ------------------------------------------------------------------------------------------------
// model
// ------------------------------------------------------------------------------------------------
pub struct Model3<'a> {
    b: &'a Built3,
    alphabet: Vec<Op3>,
    variants: Vec<Variant>,
    counts: Mutex<Counts>,
    outcomes: Mutex<Counts>,
    verified: Mutex<HashSet<u128>>,
    /// (pool_one, pool_two, fingerprint of the accounts of these two pools + clock) already judged: a two-hop (and its
    /// reference legs) reads nothing else — the third pool and the (abundant) trader balances cannot influence it — so
    /// global states that agree on the pair are the same case for every variant over that ordered pair
    pair_seen: Mutex<HashSet<(usize, usize, u128)>>,
    sample: Mutex<Vec<Value>>,
}

/// Everything a swap on pool `i` can read or write (no op of the alphabet creates further tick arrays).
fn pool_keys(w: &W3, i: usize) -> Vec<Pubkey> {
    let p = w.pool(i);
    let n = p.ticks_in_array();
    vec![p.addr, p.vault_a, p.vault_b, p.oracle, p.tick_array(-n), p.tick_array(0), p.tick_array(n)]
}

impl<'a> Model3<'a> {
    fn new(b: &'a Built3, thorough: bool) -> Self {
        Model3 {
            b,
            alphabet: alphabet(&b.w, thorough),
            variants: variants(&b.w, thorough),
            counts: Mutex::new(Counts::new()),
            outcomes: Mutex::new(Counts::new()),
            verified: Mutex::new(HashSet::new()),
            pair_seen: Mutex::new(HashSet::new()),
            sample: Mutex::new(vec![]),
        }
    }
    /// all two-hop variants in one state; deterministic: the first failing variant in enumeration order is reported
    fn check_all(&self, s: &Ledger, record_samples: bool) -> Result<(), String> {
        let w = &self.b.w;
        let mut fresh: HashSet<(usize, usize)> = HashSet::new();
        {
            let mut seen = self.pair_seen.lock().unwrap();
            for one in 0..3 {
                for two in 0..3 {
                    let mut keys = pool_keys(w, one);
                    if two != one {
                        keys.extend(pool_keys(w, two));
                    }
                    if seen.insert((one, two, s.fingerprint_of(&keys, false))) {
                        fresh.insert((one, two));
                    }
                }
            }
        }
        let todo: Vec<&Variant> = self.variants.iter().filter(|v| fresh.contains(&(v.one, v.two))).collect();
        {
            let mut g = self.counts.lock().unwrap();
            *g.entry("pool_pair_states_judged".into()).or_insert(0) += fresh.iter().filter(|(a, b)| a != b).count() as u64;
        }
        let res: Vec<(Counts, Option<Value>, Result<(), String>)> = todo
            .par_iter()
            .map(|v| {
                let mut c = Counts::new();
                let mut sample = None;
                let v: &Variant = v;
                let r = std::panic::catch_unwind(std::panic::AssertUnwindSafe(|| check_variant(s, w, v, &mut c, &mut sample))).unwrap_or_else(|_| Err("harness panic while judging the variant".into()));
                (c, sample, r.map_err(|e| format!("{e} | variant {}", serde_json::to_string(v).unwrap())))
            })
            .collect();
        let mut g = self.counts.lock().unwrap();
        for (c, _, _) in &res {
            for (k, n) in c {
                *g.entry(k.clone()).or_insert(0) += n;
            }
        }
        drop(g);
        if record_samples {
            // a few actual cases from the root state (one per route x mode), in enumeration order
            let mut sm = self.sample.lock().unwrap();
            let mut seen = HashSet::new();
            for (v, (_, smp, _)) in todo.iter().zip(res.iter()) {
                if let Some(x) = smp {
                    if sm.len() < 6 && v.v2 && seen.insert((v.one, v.two, v.exact_in)) {
                        sm.push(x.clone());
                    }
                }
            }
        }
        for (_, _, r) in res {
            r?;
        }
        Ok(())
    }
}

impl<'a> Model for Model3<'a> {
    type S = Ledger;
    type O = Op3;
    fn fp(&self, s: &Ledger) -> u128 {
        s.fingerprint_of(&w3::core_keys3(s, &self.b.w), false)
    }
    fn ops(&self, _s: &Ledger) -> Vec<Op3> {
        self.alphabet.clone()
    }
    fn step(&self, s: &Ledger, op: &Op3) -> Result<Option<Ledger>, String> {
        let st = w3::apply3(s, &self.b.w, op);
        let kind = crate::poolexplore::op_kind(&op.op);
        let mut o = self.outcomes.lock().unwrap();
        if st.ix.is_none() && !matches!(op.op, Op::Clock(_)) {
            *o.entry(format!("{kind}:n/a")).or_insert(0) += 1;
            return Ok(None);
        }
        *o.entry(format!("{kind}:{}", st.outcome.short())).or_insert(0) += 1;
        Ok(if st.outcome.ok() { Some(st.ledger) } else { None })
    }
    fn check_state(&self, s: &Ledger) -> Result<(), String> {
        // iterative deepening revisits states: every distinct state is judged once
        let fp = self.fp(s);
        let first = {
            let mut v = self.verified.lock().unwrap();
            if !v.insert(fp) {
                return Ok(());
            }
            v.len() == 1
        };
        // (the explorer judges the roots sequentially before the search: the first state is the first root)
        self.check_all(s, first)
    }
}

pub fn run(ctx: &Ctx) -> Report {
    let mut r = Report::new("C17", "model_checking");
    let thorough = !ctx.tier.is_quick();
    let names = world_names(thorough);
    let depth = ctx.depth(2, 3);
    let total_budget = ctx.pick(60.0, 900.0f64).min(ctx.budget_s * 0.9);
    let mut totals = Counts::new();
    let mut min_depth: Option<usize> = None;
    // exact-out requests beyond what a leg can deliver, through a full-range-only pool (the price bound lies inside its arrays)
    let (pf_n, pf_bad) = partial_fill_part();
    r.set("exact_out_beyond_reserves_variants", pf_n);
    r.guard("exact_out_beyond_reserves_variants", pf_n);
    if let Some((k, d, c)) = pf_bad {
        r.violation(k, d, c);
        return r;
    }
    for (name, frac) in &names {
        let b = build_world(name);
        let m = Model3::new(&b, thorough);
        let share = ((total_budget - ctx.elapsed()) * frac).max(2.0);
        let roots: Vec<Ledger> = b.roots.iter().map(|x| x.1.clone()).collect();
        let root_names: Vec<String> = b.roots.iter().map(|x| x.0.clone()).collect();
        // quick tier: the transfer-fee world (fee on the mint that is input, intermediate or output depending on the route) is
        // explored one level less deep than the plain worlds
        let depth = if !thorough && *name == "c17-tfee" { depth.saturating_sub(1).max(1) } else { depth };
        let lim = Limits { max_depth: depth, budget_s: share, max_states: 5_000_000 };
        let (stats, found) = explore::explore(&m, &roots, &lim);
        if let Some(f) = found {
            let case = json!({"kind":"ops3","world": name, "root": root_names[f.root], "ops": serde_json::to_value(&f.path).unwrap(), "thorough": thorough});
            r.violation(format!("{}/{}/{}", name, root_names[f.root], serde_json::to_string(&f.path).unwrap()), f.detail.clone(), case);
        }
        let verified = m.verified.lock().unwrap().len() as u64;
        r.add("states", verified);
        r.add("transitions", stats.transitions);
        r.add("single_pool_op_sequences", stats.sequences);
        let per: Vec<Value> = stats.per_depth.iter().map(|(d, s, t, secs)| json!({"depth": d, "states": s, "transitions": t, "s": (secs * 10.0).round() / 10.0})).collect();
        let e = r.coverage.entry("worlds".to_string()).or_insert_with(|| json!([]));
        e.as_array_mut().unwrap().push(json!({
            "world": name,
            "roots": root_names,
            "alphabet": m.alphabet.len(),
            "two_hop_variants_per_state": m.variants.len(),
            "depth_completed": stats.depth_completed,
            "depth_partial": stats.depth_partial,
            "cap_hit": stats.cap_hit,
            "per_depth": per,
            "states_judged": verified,
            "op_outcomes": *m.outcomes.lock().unwrap(),
        }));
        min_depth = Some(min_depth.map_or(stats.depth_completed, |d: usize| d.min(stats.depth_completed)));
        if stats.cap_hit.is_some() {
            r.set("caps_hit", true);
        }
        for (k, n) in m.counts.lock().unwrap().iter() {
            *totals.entry(k.clone()).or_insert(0) += n;
        }
        for s in m.sample.lock().unwrap().iter().take(if thorough { 3 } else { 6 }) {
            let mut s = s.clone();
            s["world"] = json!(name);
            s["state"] = json!(format!("root '{}'", root_names[0]));
            r.sample(s);
        }
        r.sample(json!({"world": name, "root": root_names[0], "op_sequence": serde_json::to_value(&m.alphabet[..3]).unwrap(), "note": "first three letters of the single-pool op alphabet; all two-hop variants are executed in every reached state"}));
        if !r.violations.is_empty() {
            break;
        }
    }
    r.set("depth_completed", min_depth.unwrap_or(0) as u64);
    let get = |k: &str| totals.get(k).copied().unwrap_or(0);
    r.set("traces_validated_against_impl", get("two_hop_executions_compared"));
    r.set("pool_pair_states_judged", get("pool_pair_states_judged"));
    r.set("threshold_reexecutions", get("threshold_reexecutions"));
    r.set("outcome_counts", serde_json::to_value(&totals).unwrap());
    // vacuity guards
    let sum_prefix = |p: &str| totals.iter().filter(|(k, _)| k.starts_with(p)).map(|(_, n)| *n).sum::<u64>();
    r.guard("two_hop_executions_compared", get("two_hop_executions_compared"));
    r.guard("two_hop_packagings_compared", get("two_hop_packagings_compared"));
    let versions: &[&str] = if names.iter().any(|(n, _)| *n == "c17-spl") { &["v1", "v2"] } else { &["v2"] };
    for (one, two, a1, a2) in ROUTES {
        let v = Variant { one, two, a1, a2, v2: true, exact_in: true, amount: 0, lim1: Lim::None, lim2: Lim::None };
        for mode in ["exact_in", "exact_out"] {
            for ver in versions {
                let k = format!("ok:{}:{mode}:{ver}", route_name(&v));
                r.guard(&k, get(&k));
            }
        }
    }
    r.guard("fail_same_pool", get("fail_same_pool"));
    r.guard("fail_no_shared_mint", get("fail_no_shared_mint"));
    r.guard("fail_leg_alone", get("fail_leg_alone"));
    r.guard("fail_mismatch:exact_in", get("fail_mismatch:exact_in"));
    r.guard("fail_mismatch:exact_out", get("fail_mismatch:exact_out"));
    r.guard("ok_crossing_in_leg_one", get("ok_crossing_in_leg_one"));
    r.guard("ok_crossing_in_leg_two", get("ok_crossing_in_leg_two"));
    r.guard("ok_crossings_inside_two_hop", get("ok_crossings_inside_two_hop"));
    r.guard("ok_partial_fill_leg_one_exact_in", get("ok_partial_fill_leg_one_exact_in"));
    r.guard("ok_partial_fill_leg_two_exact_out", get("ok_partial_fill_leg_two_exact_out"));
    if names.iter().any(|(n, _)| *n != "c17-tfee") {
        r.guard("ok_adaptive_fee_pool", get("ok_adaptive_fee_pool"));
    }
    r.guard("threshold_flips_seen", sum_prefix("threshold_flip:"));
    if names.iter().any(|(n, _)| *n == "c17-tfee") {
        r.guard("ok_with_fee_on_intermediate", get("ok_with_fee_on_intermediate"));
    }
    r.set("exhaustive", false);
    r.assume("svm-lite faithfully replaces the validator (DESIGN §2.1); balances are moved by the real SPL Token / Token-2022 processors");
    r.assume("the reference legs are the program's own swap / swap_v2 instructions (their correctness is C01-C06); C17 only judges the composition");
    r.assume("transfer fee on the intermediate mint: leg amounts are matched at the vault level (fee charged once, vault to vault); the two single swaps charge the trader a second fee, so the trader's intermediate account is compared with the pre-state instead");
    r.assume("transfer-hook mints and supplemental tick arrays in two-hop remaining accounts are not exercised");
    r
}

/// C10's share of the two-hop packaging clause: in the root states of the plain three-pool world every v2 two-hop variant that
/// carries the packaging comparison (see `check_variant`) is executed. Returns (variants judged, packagings compared, first failure).
pub fn packaging_part() -> (u64, u64, Option<(String, String, Value)>) {
    let b = build_world("c17-spl");
    let vs: Vec<Variant> = variants(&b.w, false).into_iter().filter(|v| v.v2 && v.lim1 == Lim::None && v.lim2 == Lim::None && (v.amount == 1_000_000 || v.amount == 40_000_000)).collect();
    let mut c = Counts::new();
    let mut n = 0u64;
    for (rname, l) in &b.roots {
        for v in &vs {
            n += 1;
            let mut sample = None;
            if let Err(e) = check_variant(l, &b.w, v, &mut c, &mut sample) {
                let case = json!({"kind": "twohop_packaging", "root": rname, "variant": serde_json::to_value(v).unwrap()});
                return (n, *c.get("two_hop_packagings_compared").unwrap_or(&0), Some((format!("twohop_packaging/{rname}/{}", serde_json::to_string(v).unwrap()), format!("[three-pool world, root {rname}] {e} | variant {}", serde_json::to_string(v).unwrap()), case)));
            }
        }
    }
    (n, *c.get("two_hop_packagings_compared").unwrap_or(&0), None)
}

/// C14's share of the two-hop clause "trading is refused before the pool's trade-enable time": in the root states of the world
/// whose third pool has not yet opened, every two-hop variant (v1 and v2, both modes, every route) is judged — a route through the
/// closed pool must fail, whichever leg it is. Returns (variants judged, first failure).
pub fn trade_enable_part() -> (u64, Option<(String, String, Value)>) {
    let (n1, bad) = trade_enable_part_in("c17-te");
    if bad.is_some() {
        return (n1, bad);
    }
    let (n2, bad) = trade_enable_part_in("c17-te2");
    (n1 + n2, bad)
}

fn trade_enable_part_in(world: &str) -> (u64, Option<(String, String, Value)>) {
    let b = build_world(world);
    let vs: Vec<Variant> = variants(&b.w, false).into_iter().filter(|v| v.lim1 == Lim::None && v.lim2 == Lim::None).collect();
    let mut c = Counts::new();
    let mut n = 0u64;
    for (rname, l) in &b.roots {
        for v in &vs {
            n += 1;
            let mut sample = None;
            if let Err(e) = check_variant(l, &b.w, v, &mut c, &mut sample) {
                let case = json!({"kind": "twohop_trade_enable", "world": world, "root": rname, "variant": serde_json::to_value(v).unwrap()});
                return (n, Some((format!("twohop_trade_enable/{world}/{rname}/{}", serde_json::to_string(v).unwrap()), format!("[world {world} with a pool that opens 40 s later, root {rname}] {e} | variant {}", serde_json::to_string(v).unwrap()), case)));
            }
        }
    }
    (n, None)
}

/// "An exact-out swap with no explicit limit either delivers the full amount or fails" on the two-hop instructions: in a world
/// whose third pool is full-range-only (a swap can run to the protocol price bound inside its two arrays), every route is asked
/// for more output than a leg can deliver, with and without explicit limits; judged by the same oracle (the leg fails on its
/// own with PartialFillError, so the two-hop must fail). Returns (variants judged, first failure).
pub fn partial_fill_part() -> (u64, Option<(String, String, Value)>) {
    let b = build_world("c17-fro");
    let versions: &[bool] = &[false, true];
    let mut vs: Vec<Variant> = vec![];
    for (one, two, a1, a2) in ROUTES {
        for &v2 in versions {
            for amount in [1u64 << 40, 1 << 50, 40_000_000] {
                for (lim1, lim2) in [(Lim::None, Lim::None), (Lim::None, Lim::Bound), (Lim::Bound, Lim::None)] {
                    vs.push(Variant { one, two, a1, a2, v2, exact_in: false, amount, lim1, lim2 });
                }
            }
        }
    }
    let mut c = Counts::new();
    let mut n = 0u64;
    for (rname, l) in &b.roots {
        for v in &vs {
            n += 1;
            let mut sample = None;
            if let Err(e) = check_variant(l, &b.w, v, &mut c, &mut sample) {
                let case = json!({"kind": "twohop_partial_fill", "root": rname, "variant": serde_json::to_value(v).unwrap()});
                return (n, Some((format!("twohop_partial_fill/{rname}/{}", serde_json::to_string(v).unwrap()), format!("[world with a full-range-only third pool, root {rname}] {e} | variant {}", serde_json::to_string(v).unwrap()), case)));
            }
        }
    }
    (n, None)
}

pub fn replay_partial_fill(case: &Value) -> Result<(), String> {
    let b = build_world("c17-fro");
    let root = case["root"].as_str().ok_or("root")?;
    let l = &b.roots.iter().find(|r| r.0 == root).ok_or("unknown root")?.1;
    let v: Variant = serde_json::from_value(case["variant"].clone()).map_err(|e| e.to_string())?;
    let mut c = Counts::new();
    let mut sample = None;
    check_variant(l, &b.w, &v, &mut c, &mut sample)
}

pub fn replay_trade_enable(case: &Value) -> Result<(), String> {
    let b = build_world(case["world"].as_str().unwrap_or("c17-te"));
    let root = case["root"].as_str().ok_or("root")?;
    let l = &b.roots.iter().find(|r| r.0 == root).ok_or("unknown root")?.1;
    let v: Variant = serde_json::from_value(case["variant"].clone()).map_err(|e| e.to_string())?;
    let mut c = Counts::new();
    let mut sample = None;
    check_variant(l, &b.w, &v, &mut c, &mut sample)
}

pub fn replay_packaging(case: &Value) -> Result<(), String> {
    let b = build_world("c17-spl");
    let root = case["root"].as_str().ok_or("root")?;
    let l = &b.roots.iter().find(|r| r.0 == root).ok_or("unknown root")?.1;
    let v: Variant = serde_json::from_value(case["variant"].clone()).map_err(|e| e.to_string())?;
    let mut c = Counts::new();
    let mut sample = None;
    check_variant(l, &b.w, &v, &mut c, &mut sample)
}

pub fn replay(case: &Value) -> Result<(), String> {
    if case["kind"].as_str() == Some("twohop_partial_fill") {
        return replay_partial_fill(case);
    }
    let name = case["world"].as_str().ok_or("world")?;
    let thorough = case["thorough"].as_bool().unwrap_or(true);
    let b = build_world(name);
    let m = Model3::new(&b, thorough);
    let root = case["root"].as_str().ok_or("root")?;
    let path: Vec<Op3> = serde_json::from_value(case["ops"].clone()).map_err(|e| e.to_string())?;
    let mut cur = b.roots.iter().find(|r| r.0 == root).ok_or("unknown root")?.1.clone();
    m.check_state(&cur)?;
    for op in &path {
        match m.step(&cur, op)? {
            None => return Ok(()),
            Some(n) => {
                m.check_state(&n)?;
                cur = n;
            }
        }
    }
    Ok(())
}
