//! C06 — trader input splits exactly into curve amount, protocol share and LP share (DESIGN §3 C06).
//! Engine A, graph mode, with the H2 step trace: per-step fee / protocol cut / growth formulas, totals against real
//! balances and accounts, the emitted Traded event, and collect_protocol_fees paying exactly what is owed.
use crate::ops::{self, Lim, Op, Part, Stepped};
use crate::oracles::{self, C06Stats};
use crate::poolexplore::{self, PoolModel};
use crate::report::{Ctx, Report};
use crate::stdworlds::{self, Built};
use crate::world::{self, Enc, StdWorld};
use serde_json::{json, Value};
use std::sync::Mutex;
use svm::Ledger;

fn worlds(thorough: bool) -> Vec<Built> {
    let roots = stdworlds::std_roots();
    let mut v = vec![stdworlds::build_with_roots(&stdworlds::std_spec("c06-std-3000-300", [Enc::Dynamic, Enc::Fixed, Enc::Fixed], 3000, 300), &roots[1..])];
    v.push(stdworlds::build_with_roots(&stdworlds::std_spec("c06-std-1-1", [Enc::Fixed, Enc::Dynamic, Enc::Dynamic], 1, 1), &roots[1..3]));
    v.push(stdworlds::build_with_roots(&stdworlds::chain_spec("c06-dust", [Enc::Dynamic, Enc::Fixed, Enc::Dynamic], 3000, 2500), &stdworlds::dust_roots()[1..]));
    // deep pool: in-range liquidity 2^72 on a 4-tick range (token amounts stay below 2^59). One unit of LP fee is 2^-8 ulp of the
    // Q64.64 growth accumulator, so small swaps have a non-zero fee and protocol share while the growth does not move at all.
    let deep_roots: Vec<(&'static str, Vec<Op>)> =
        vec![("deep", vec![Op::Inc { pos: 0, liq: 1u128 << 72, v2: true }, Op::Inc { pos: 1, liq: 1u128 << 66, v2: false }, Op::Inc { pos: 2, liq: 1u128 << 66, v2: true }])];
    v.push(stdworlds::build_with_roots(&stdworlds::ts1_spec("c06-deep"), &deep_roots));
    // full-range-only pool with thin liquidity: a large exact-in swap without a price limit runs the price to the protocol bound
    // and is only partially filled ("an exact-in budget cannot move the price further") — through both swap handlers
    let splash_roots: Vec<(&'static str, Vec<Op>)> = vec![
        ("thin", vec![Op::Inc { pos: 0, liq: 1_000, v2: true }, Op::Inc { pos: 1, liq: 5, v2: false }]),
        ("funded", vec![Op::Inc { pos: 0, liq: stdworlds::BIG, v2: false }]),
    ];
    v.push(stdworlds::build_with_roots(&stdworlds::splash_spec("c06-splash"), &splash_roots));
    // adaptive-fee pool with the strongest control factor: four tick groups (256 ticks) away from the reference the total rate
    // passes 65 535 (more than 16 bits) and at five it sits on the 10 % hard limit — "fee rates up to ... 10% adaptive hard limit"
    v.push(af_world("c06-af-hot"));
    // both mints withhold a transfer fee (Token-2022) AND the protocol takes a share: the split is of what the VAULT receives — the
    // protocol's share is the configured fraction of the swap fee, not of anything grossed up by the mint's transfer fee
    let mut t22 = stdworlds::t22_spec("c06-t22", 100, 5_000, 250, u64::MAX);
    t22.protocol_fee_rate = 2_500;
    v.push(stdworlds::build_with_roots(&t22, &roots[1..3]));
    if thorough {
        v.push(stdworlds::build_with_roots(&stdworlds::std_spec("c06-std-60000-2500", [Enc::Fixed, Enc::Fixed, Enc::Dynamic], 60000, 2500), &roots[1..]));
        v.push(stdworlds::build_with_roots(&stdworlds::std_spec("c06-std-0-0", [Enc::Dynamic, Enc::Dynamic, Enc::Fixed], 0, 0), &roots[1..3]));
        let ts1_roots: Vec<(&'static str, Vec<Op>)> = vec![(
            "funded",
            vec![Op::Inc { pos: 0, liq: stdworlds::BIG * 1000, v2: false }, Op::Inc { pos: 1, liq: stdworlds::BIG * 100, v2: true }, Op::Inc { pos: 2, liq: stdworlds::BIG * 100, v2: true }],
        )];
        v.push(stdworlds::build_with_roots(&stdworlds::ts1_spec("c06-ts1"), &ts1_roots));
    }
    v
}

fn af_world(label: &str) -> Built {
    use super::c20_world as cw;
    let spec = cw::AfSpec {
        label: label.into(),
        tick_spacing: 64,
        fee_tier_index: 1024 + 64,
        base_fee_rate: 3000,
        protocol_fee_rate: 2500,
        filter_period: 30,
        decay_period: 600,
        reduction_factor: 5000,
        control_factor: 99_999,
        max_volatility_accumulator: 350_000,
        tick_group_size: 64,
        major_swap_threshold_ticks: 64,
        trade_enable_in: None,
        sqrt_price: stdworlds::P0,
        arrays: vec![(-1, Enc::Dynamic), (0, Enc::Fixed), (1, Enc::Dynamic)],
        positions: vec![(-128, 128, false), (128, 5696, true), (-5632, 5696, false)],
    };
    let (l, w) = cw::build_af(&spec);
    let fund = vec![Op::Inc { pos: 0, liq: stdworlds::BIG, v2: true }, Op::Inc { pos: 1, liq: stdworlds::BIG, v2: true }, Op::Inc { pos: 2, liq: stdworlds::BIG / 2, v2: true }];
    // "hot": a large move up (about eight groups) has just happened, two seconds ago: the reference is kept, every rate is high
    let mut hot = fund.clone();
    hot.push(Op::Swap { a_to_b: false, exact_in: true, amount: 45_000_000, lim: Lim::None, v2: true });
    hot.push(Op::Clock(2));
    let roots = [("funded", fund), ("hot", hot)].iter().map(|(n, seq)| (n.to_string(), stdworlds::apply_all(&l, &w, seq))).collect();
    Built { name: spec.label.clone(), w, roots }
}

fn alphabet(b: &Built) -> Vec<Op> {
    if b.name.contains("-af-") {
        let mut a = vec![];
        for a_to_b in [true, false] {
            a.push(Op::Swap { a_to_b, exact_in: true, amount: 1_000_000, lim: Lim::None, v2: true });
            a.push(Op::Swap { a_to_b, exact_in: false, amount: 100_000, lim: Lim::None, v2: true });
            a.push(Op::Swap { a_to_b, exact_in: true, amount: 45_000_000, lim: Lim::None, v2: true }); // about eight tick groups
            a.push(Op::Swap { a_to_b, exact_in: false, amount: 20_000_000, lim: Lim::None, v2: true });
            a.push(Op::Swap { a_to_b, exact_in: true, amount: u64::MAX >> 8, lim: Lim::NextTick, v2: true });
            a.push(Op::Swap { a_to_b, exact_in: true, amount: 3, lim: Lim::None, v2: true });
            a.push(Op::Swap { a_to_b, exact_in: true, amount: 1_000_001, lim: Lim::ShortOfNextTick, v2: true });
        }
        a.push(Op::Clock(1));
        a.push(Op::Clock(100));
        a.push(Op::CollectProtocol { v2: true });
        // the fee setters in the middle of a trading history: on an adaptive-fee pool the stored rate is only the BASE of what a
        // step is charged (a base of 0 still leaves the adaptive part, of which the protocol takes its share)
        a.push(Op::SetFeeRate(0));
        a.push(Op::SetFeeRate(3_000));
        a.push(Op::SetProtocolFeeRate(0));
        a.push(Op::SetProtocolFeeRate(2_500));
        return a;
    }
    if b.name.contains("-t22") {
        let mut a = vec![];
        for a_to_b in [true, false] {
            a.push(Op::Swap { a_to_b, exact_in: true, amount: 1_000_000, lim: Lim::None, v2: true });
            a.push(Op::Swap { a_to_b, exact_in: false, amount: 100_000, lim: Lim::None, v2: true });
            a.push(Op::Swap { a_to_b, exact_in: true, amount: 20_000_000, lim: Lim::None, v2: true }); // crosses ticks
            a.push(Op::Swap { a_to_b, exact_in: true, amount: 3, lim: Lim::None, v2: true });
            a.push(Op::Swap { a_to_b, exact_in: false, amount: 30_000_000, lim: Lim::Mid, v2: true }); // partial exact-out
        }
        a.push(Op::CollectProtocol { v2: true });
        a.push(Op::SetProtocolFeeRate(0));
        a.push(Op::SetProtocolFeeRate(300));
        a.push(Op::Dec { pos: 0, part: Part::All, v2: true });
        return a;
    }
    if b.name.contains("dust") {
        // every amount is a few units: fees are dominated by the ceil, protocol cuts by the floor, growth by L of a few units
        let mut a = stdworlds::dust_alphabet(b.w.positions.len() as u8);
        a.push(Op::SetFeeRate(60_000));
        a.push(Op::SetProtocolFeeRate(2_500));
        a.push(Op::SetProtocolFeeRate(1));
        return a;
    }
    if b.name.contains("splash") {
        let mut a = vec![];
        for a_to_b in [true, false] {
            for v2 in [false, true] {
                a.push(Op::Swap { a_to_b, exact_in: true, amount: 5_000_000_000_000, lim: Lim::None, v2 }); // to the bound on the thin root
                a.push(Op::Swap { a_to_b, exact_in: true, amount: u64::MAX >> 2, lim: Lim::None, v2 });
            }
            a.push(Op::Swap { a_to_b, exact_in: true, amount: 1_000_000, lim: Lim::None, v2: a_to_b });
            a.push(Op::Swap { a_to_b, exact_in: false, amount: 1_000, lim: Lim::None, v2: !a_to_b });
            a.push(Op::Swap { a_to_b, exact_in: false, amount: u64::MAX >> 2, lim: Lim::Bound, v2: a_to_b }); // partial exact-out to the bound
        }
        a.push(Op::Dec { pos: 0, part: Part::All, v2: true });
        a.push(Op::Inc { pos: 1, liq: 1_000_000, v2: false });
        a.push(Op::CollectProtocol { v2: true });
        return a;
    }
    if b.name.contains("deep") {
        let mut a = vec![];
        for a_to_b in [true, false] {
            for (exact_in, amount, lim) in [
                (true, 1u64, Lim::None),
                (true, 40_000, Lim::None),  // fee 4, protocol share 1, LP share 3 = 0 ulp of growth
                (true, 2_000_000, Lim::None),
                (false, 40_000, Lim::None),
                (true, 1 << 50, Lim::None), // moves the growth
                (true, u64::MAX >> 8, Lim::NextTick),
            ] {
                a.push(Op::Swap { a_to_b, exact_in, amount, lim, v2: exact_in == a_to_b });
            }
        }
        a.push(Op::CollectProtocol { v2: false });
        a.push(Op::SetFeeRate(60_000));
        a.push(Op::SetProtocolFeeRate(1));
        return a;
    }
    let mut a = vec![];
    for a_to_b in [true, false] {
        a.push(Op::Swap { a_to_b, exact_in: true, amount: 1_000_000, lim: Lim::None, v2: a_to_b });
        a.push(Op::Swap { a_to_b, exact_in: false, amount: 100_000, lim: Lim::None, v2: !a_to_b });
        a.push(Op::Swap { a_to_b, exact_in: true, amount: 20_000_000, lim: Lim::None, v2: !a_to_b }); // crosses ticks
        a.push(Op::Swap { a_to_b, exact_in: true, amount: u64::MAX >> 8, lim: Lim::NextTick, v2: a_to_b });
        a.push(Op::Swap { a_to_b, exact_in: true, amount: 3, lim: Lim::None, v2: a_to_b }); // fee-dominated dust
        a.push(Op::Swap { a_to_b, exact_in: false, amount: 30_000_000, lim: Lim::Mid, v2: !a_to_b }); // partial exact-out
        a.push(Op::Swap { a_to_b, exact_in: true, amount: 1_000_001, lim: Lim::ShortOfNextTick, v2: a_to_b });
    }
    a.push(Op::CollectProtocol { v2: false });
    a.push(Op::CollectProtocol { v2: true });
    // zero-liquidity gaps: remove the full-range and the narrow position
    a.push(Op::Dec { pos: 2, part: Part::All, v2: false });
    a.push(Op::Dec { pos: 0, part: Part::All, v2: true });
    a.push(Op::Inc { pos: 0, liq: 5_000, v2: false });
    a.push(Op::SetFeeRate(0));
    a.push(Op::SetFeeRate(60_000));
    a.push(Op::SetProtocolFeeRate(0));
    a.push(Op::SetProtocolFeeRate(2_500));
    a
}

fn model<'a>(b: &'a Built, stats: &'a Mutex<C06Stats>) -> PoolModel<'a> {
    PoolModel::new(
        &b.w,
        alphabet(b),
        Box::new(|_l: &Ledger, _w: &StdWorld| Ok(())),
        Box::new(move |pre: &Ledger, st: &Stepped, w: &StdWorld, op: &Op| match op {
            Op::Swap { a_to_b, exact_in, amount, .. } => {
                let mut local = C06Stats::default();
                let limit = oracles::swap_limit_of(pre, w, op);
                let res = oracles::c06_swap_oracle(pre, st, w, *a_to_b, *exact_in, *amount, limit, &mut local);
                let mut g = stats.lock().unwrap();
                g.steps += local.steps;
                g.partial_exact_in_steps += local.partial_exact_in_steps;
                g.zero_liquidity_steps += local.zero_liquidity_steps;
                g.steps_with_fee += local.steps_with_fee;
                g.crossings += local.crossings;
                g.nonzero_protocol_cut += local.nonzero_protocol_cut;
                g.cut_without_growth += local.cut_without_growth;
                g.steps_rate_above_16_bits += local.steps_rate_above_16_bits;
                res
            }
            Op::CollectProtocol { .. } => oracles::c06_collect_protocol_oracle(pre, &st.ledger, w),
            _ => Ok(()),
        }),
    )
}

/// The trader's total (curve amount + fee, summed over the steps of one swap) at the edge of u64. A zero-fee pool with constant
/// liquidity 2^62 from price 2^64 upwards, one initialised tick on the way (so that every single step fits u64): an exact-out
/// b->a swap stopped by a limit P pays ceil(L (p_mid - p0) / 2^64) + ceil(L (P - p_mid) / 2^64) of token B — for P around
/// 5 * 2^64 that is 2^64 -8 .. +8. Above u64::MAX the swap must be refused as overflowing; below it the trader (who holds
/// 2^62) cannot pay it. Either way the instruction fails; a total that wraps to a small number makes it succeed.
fn u64_total_case(v2: bool) -> Result<(u64, u64), String> {
    use crate::refmodel::{bu, ceil_div};
    use whirlpool::math::sqrt_price_from_tick_index;
    let spec = world::StdSpec {
        label: format!("c06-u64-total-{v2}"),
        tick_spacing: 512,
        fee_rate: 0,
        protocol_fee_rate: 0,
        sqrt_price: 1u128 << 64,
        arrays: vec![(-1, Enc::Fixed), (0, Enc::Dynamic)],
        positions: vec![(-512, 15872, false), (15872, 32256, true)],
        t22_a: None,
        t22_b: None,
    };
    let (l0, w) = world::build_std(&spec);
    let liq: u128 = 1 << 62;
    let mut l = l0;
    for pos in 0..2u8 {
        let st = ops::apply(&l, &w, &Op::Inc { pos, liq, v2: pos == 1 });
        if !st.outcome.ok() {
            return Err(format!("machinery: deposit of 2^62 into position {pos} failed: {}", st.outcome.short()));
        }
        l = st.ledger;
    }
    let (p0, pm) = (1u128 << 64, sqrt_price_from_tick_index(15872));
    let two64 = bu(1) << 64u32;
    let (mut over, mut under) = (0u64, 0u64);
    for d in -8i128..=8 {
        let p = (5u128 << 64).wrapping_add_signed(d * 2);
        let total = ceil_div(&(bu(liq) * bu(pm - p0)), &two64) + ceil_div(&(bu(liq) * bu(p - pm)), &two64);
        if total >= two64 {
            over += 1;
        } else {
            under += 1;
        }
        let st = ops::apply(&l, &w, &Op::Swap { a_to_b: false, exact_in: false, amount: 1 << 63, lim: Lim::Price(p), v2 });
        if st.outcome.ok() {
            let paid = world::balance(&l, &w.trader.acct_b) - world::balance(&st.ledger, &w.trader.acct_b);
            let got = world::balance(&st.ledger, &w.trader.acct_a) - world::balance(&l, &w.trader.acct_a);
            return Err(format!(
                "exact-out swap (zero-fee pool, liquidity 2^62, limit {p}) succeeded: the trader received {got} of token A and paid {paid} of token B, but the curve amount over its two steps is {total} (u64::MAX = {})",
                u64::MAX
            ));
        }
    }
    Ok((over, under))
}

pub fn run(ctx: &Ctx) -> Report {
    let mut r = Report::new("C06", "model_checking");
    let mut totals = (0u64, 0u64);
    for v2 in [false, true] {
        match u64_total_case(v2) {
            Ok((o, u)) => {
                totals.0 += o;
                totals.1 += u;
            }
            Err(e) => {
                r.violation(format!("u64_total/{v2}"), e, json!({"kind": "u64_total", "v2": v2}));
                return r;
            }
        }
    }
    r.guard("swaps_whose_total_input_exceeds_u64", totals.0);
    r.guard("swaps_whose_total_input_is_just_below_2_pow_64", totals.1);
    let ws = worlds(!ctx.tier.is_quick());
    let share = ctx.budget_s * 0.95 / ws.len() as f64;
    let stats = Mutex::new(C06Stats::default());
    for b in &ws {
        let m = model(b, &stats);
        let out = poolexplore::run_world(ctx, &mut r, b, &m, ctx.depth(3, 5), share);
        poolexplore::fold(&mut r, &b.name, &out, &m.alphabet[..3]);
        if !r.violations.is_empty() {
            break;
        }
    }
    let s = stats.lock().unwrap().clone();
    r.set("swap_steps_checked", s.steps);
    r.set("tick_crossings_seen", s.crossings);
    r.guard("swap_steps_checked", s.steps);
    r.guard("partial_exact_in_steps", s.partial_exact_in_steps);
    r.guard("zero_liquidity_steps", s.zero_liquidity_steps);
    r.guard("steps_with_nonzero_fee", s.steps_with_fee);
    r.guard("steps_with_nonzero_protocol_cut", s.nonzero_protocol_cut);
    r.guard("tick_crossings", s.crossings);
    r.guard("steps_with_protocol_cut_but_zero_growth", s.cut_without_growth);
    r.guard("steps_charged_a_total_rate_above_65535", s.steps_rate_above_16_bits);
    r.set("exhaustive", false);
    r.assume("hook H2 records the values compute_swap actually received/returned (liquidity, fee rate, amounts per step)");
    r.assume("svm-lite faithfully replaces the validator (DESIGN §2.1)");
    r
}

pub fn replay(case: &Value) -> Result<(), String> {
    if case["kind"].as_str() == Some("u64_total") {
        return u64_total_case(case["v2"].as_bool().ok_or("v2")?).map(|_| ());
    }
    let ws = worlds(true);
    let name = case["world"].as_str().ok_or("world")?;
    let b = ws.iter().find(|b| b.name == name).ok_or("unknown world")?;
    let stats = Mutex::new(C06Stats::default());
    let m = model(b, &stats);
    poolexplore::replay_ops(b, &m, case["root"].as_str().ok_or("root")?, &case["ops"])
}
