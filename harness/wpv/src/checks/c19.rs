//! C19 — pools exist only with in-bound parameters and over supported token mints.
//! The table / function-level part lives in `c19_fn` (mint admission over all extension subsets x badge states, setters over all
//! u16, validate_constants cross product, end-to-end pool / reward creation); the instruction-sequence search in `c19_seq`;
//! the search over the administration of token badges (who issued the badge a gated mint is admitted with) in `c19_badge`.
use crate::report::{Ctx, Report};
use serde_json::Value;

pub fn run(ctx: &Ctx) -> Report {
    let mut r = Report::new("C19", "model_checking");
    super::c19_fn::run_fn(ctx, &mut r);
    let ex = r.violations.is_empty();
    r.set("fn_tables_exhaustive", ex && !ctx.tier.is_quick());
    r.set("exhaustive", false);
    r.set("rule", r.coverage.get("fn_rule").cloned().unwrap_or(Value::Null));
    if r.violations.is_empty() {
        super::c19_badge::run_badge(ctx, &mut r);
    }
    if r.violations.is_empty() {
        super::c19_seq::run_seq(ctx, &mut r);
    }
    r.assume("svm-lite faithfully replaces the validator (DESIGN §2.1); sequence search: alphabet of bound-straddling arguments, depth as reported");
    r
}

pub fn replay(case: &Value) -> Result<(), String> {
    if let Some(x) = super::c19_fn::replay_fn(case) {
        return x;
    }
    if let Some(x) = super::c19_badge::replay_badge(case) {
        return x;
    }
    if let Some(x) = super::c19_seq::replay_seq(case) {
        return x;
    }
    Err("bad case".into())
}
