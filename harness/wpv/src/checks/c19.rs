//! C19 — pools exist only with in-bound parameters and over supported token mints.
//! The table / function-level part lives in `c19_fn`; the instruction-sequence search is added here.
use crate::report::{Ctx, Report};
use serde_json::Value;

pub fn run(ctx: &Ctx) -> Report {
    let mut r = Report::new("C19", "exploration");
    super::c19_fn::run_fn(ctx, &mut r);
    let ex = r.violations.is_empty();
    r.set("exhaustive", ex && !ctx.tier.is_quick());
    r.set("rule", r.coverage.get("fn_rule").cloned().unwrap_or(Value::Null));
    r
}

pub fn replay(case: &Value) -> Result<(), String> {
    match super::c19_fn::replay_fn(case) {
        Some(x) => x,
        None => Err("bad case".into()),
    }
}
