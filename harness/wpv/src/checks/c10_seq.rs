//! C10, sequence part — HISTORIES of swaps on one pool against an abstract traversal model (child module of `c10`).
//!
//! The single-swap part of C10 starts every swap from a state reached by one or two limit-terminated set-up swaps. The
//! property, however, quantifies over all swaps, i.e. also over every pool state an earlier swap can leave behind, and the
//! clause "each exactly once, and of no other tick" is a statement about a whole history: a tick whose liquidity change was
//! applied on the way down must not be applied again before the price has come back up through it, and must be applied when
//! it does. This part therefore explores, exhaustively up to a depth bound and modulo the traversal-relevant state, all
//! sequences of swaps from an alphabet that is chosen RELATIVE to the current state:
//!
//! * limit exactly on the next initialized tick (exact-in and exact-out), one price unit past it, exactly on an
//!   uninitialized tick, exactly on the far edge of what the three arrays reach;
//! * dust: exact-in 1, 2, 3 (1 is eaten completely by the fee: a swap whose only step does not move the price) and exact-out 1;
//! * amount-terminated arrivals: exact-in with precisely the input that reaches the next initialized tick (measured by a probe
//!   swap on a copy), that input -1 and +1 (+1: the tick is reached inside the swap and a trailing step moves nothing), the
//!   same for exact-out, half of it (ends between ticks) and twice it (crosses by amount);
//! * both directions, every step through the real `swap` / `swap_v2` instruction.
//!
//! Roots (reached through the model, so the abstract state is in step from the first swap): the freshly built pool above all
//! ticks, the pool below all layout ticks, and for every layout tick T the state after a b->a swap that stopped exactly on
//! p(T) and after an a->b swap that stopped exactly on p(T) (the shifted state).
//!
//! Abstract model (independent of the program's cursor): the set `below` of initialized ticks the position is at or above,
//! i.e. whose net is part of the active liquidity. A successful a->b swap ending at price p1 must cross exactly
//! {t in below : p(t) >= p1} in descending order and removes them from `below`; a successful b->a swap exactly
//! {t initialized, not in below : p(t) <= p1} ascending and adds them (the same convention of "between" as the single-swap
//! oracle, see c10.rs; the end price itself is taken from the program — price arithmetic is C02/C05/C06's subject).
//! After every swap: (1) the H2 crossing record equals that list, each with the tick's net; (2) pool liquidity equals the sum
//! of the nets of `below` (so over the history every tick has been applied exactly once per passage and no other tick ever);
//! (3) the pool's tick_current_index lies on the same side of every initialized tick as the abstract position (it is the
//! start of the next swap's path); (4) the complete single-swap oracle (a) of c10.rs (`validate`); (5) the same history run in
//! lock-step on the other array encodings of the layout (dynamic / mixed / empty arrays only named) with rotating account
//! packagings gives the identical status, pool, balances and decoded ticks after every step; (6) a limit-terminated swap whose
//! limit lies beyond what the supplied arrays reach fails with TickArraySequenceInvalidIndex, one within reach succeeds.
//! Failed amount-terminated swaps are not constrained (they leave the state untouched).
use super::*;
use std::collections::BTreeSet;

#[derive(Clone, Copy, Debug, PartialEq, Eq)]
enum Kind {
    LimNextIn,
    LimNextOut,
    LimPast,
    LimUninit,
    LimEdge,
    Dust(u64),
    DustOut(u64),
    ExactIn(i64),
    ExactOut(i64),
    Half,
    Double,
}

#[derive(Clone, Copy, Debug, PartialEq, Eq)]
struct SOp {
    a_to_b: bool,
    kind: Kind,
}

impl SOp {
    fn name(&self) -> String {
        format!("{}:{:?}", if self.a_to_b { "a2b" } else { "b2a" }, self.kind)
    }
}

fn alphabet() -> Vec<SOp> {
    let kinds = [
        Kind::LimNextIn,
        Kind::LimNextOut,
        Kind::LimPast,
        Kind::LimUninit,
        Kind::LimEdge,
        Kind::Dust(1),
        Kind::Dust(2),
        Kind::Dust(3),
        Kind::DustOut(1),
        Kind::ExactIn(0),
        Kind::ExactIn(1),
        Kind::ExactIn(-1),
        Kind::ExactOut(0),
        Kind::ExactOut(1),
        Kind::Half,
        Kind::Double,
    ];
    let mut v = vec![];
    for a_to_b in [true, false] {
        for kind in kinds {
            v.push(SOp { a_to_b, kind });
        }
    }
    v
}

#[derive(Clone, Copy, Debug, PartialEq, Eq)]
enum Root {
    Top,
    Bottom,
    On(i32),
    Shift(i32),
}

fn roots(lay: &Layout) -> Vec<Root> {
    let mut v = vec![Root::Top, Root::Bottom];
    for t in &lay.ticks {
        v.push(Root::On(*t));
        v.push(Root::Shift(*t));
    }
    v
}

fn root_moves(w: &World, root: Root) -> Vec<(bool, u128)> {
    match root {
        Root::Top => vec![],
        Root::Bottom => vec![(true, w.spec.bottom_price)],
        Root::On(t) => vec![(true, p_of(t) - 1), (false, p_of(t))],
        Root::Shift(t) => vec![(true, p_of(t))],
    }
}

struct Cx<'a> {
    w: &'a World,
    lay: &'a Layout,
    pos: Vec<(i32, i32, u128)>,
    /// the abstract tick set: initialized tick -> net
    nets: BTreeMap<i32, i128>,
    encs: Vec<EncV>,
}

#[derive(Clone)]
struct Node {
    /// one ledger per encoding variant, same history
    ledgers: Vec<Ledger>,
    /// abstract view of ledgers[0]
    snap: Snap,
    below: BTreeSet<i32>,
    downs: BTreeSet<i32>,
    ups: BTreeSet<i32>,
    path: Vec<String>,
}

#[derive(Default, Clone)]
pub(super) struct SeqStats {
    pub units: u64,
    pub units_skipped: u64,
    pub layouts: u64,
    pub states: u64,
    pub transitions: u64,
    pub ok: u64,
    pub failed: u64,
    pub fail_beyond: u64,
    pub not_applicable: u64,
    pub crossings: u64,
    pub lockstep: u64,
    pub lockstep_dynamic: u64,
    pub lockstep_named: u64,
    pub root_swaps: u64,
    pub max_depth: u64,
    pub dust_on_crossed_tick: u64,
    pub dust_on_uncrossed_tick: u64,
    pub zero_move_tail_after_cross: u64,
    pub zero_move_swaps: u64,
    pub arrive_limit_down: u64,
    pub arrive_limit_up: u64,
    pub arrive_amount_down: u64,
    pub arrive_amount_up: u64,
    pub recross_up_after_down: u64,
    pub recross_down_after_up: u64,
    pub leave_crossed_tick_downwards: u64,
    pub exact_out_ok: u64,
    pub multi_cross: u64,
    pub on_uninit_tick: u64,
    pub wall_s: f64,
    pub viol: Vec<(String, String, Value)>,
    pub sample: Option<Value>,
}

impl SeqStats {
    fn merge(&mut self, o: SeqStats) {
        macro_rules! add { ($($f:ident),*) => { $( self.$f += o.$f; )* } }
        add!(
            units, units_skipped, layouts, states, transitions, ok, failed, fail_beyond, not_applicable, crossings, lockstep, lockstep_dynamic, lockstep_named, root_swaps, dust_on_crossed_tick,
            dust_on_uncrossed_tick, zero_move_tail_after_cross, zero_move_swaps, arrive_limit_down, arrive_limit_up, arrive_amount_down, arrive_amount_up, recross_up_after_down,
            recross_down_after_up, leave_crossed_tick_downwards, exact_out_ok, multi_cross, on_uninit_tick
        );
        self.max_depth = self.max_depth.max(o.max_depth);
        for v in o.viol {
            if self.viol.len() < 4 {
                self.viol.push(v);
            }
        }
        if self.sample.is_none() {
            self.sample = o.sample;
        }
    }
}

/// packagings of the lock-step encodings (all supply every required array)
const ROT: &[&str] = &["canon-v2", "perm210-v1", "dup001-v2", "sup-xxx+210", "perm120-v1", "sup-2u0+1", "sup-000+12"];

struct Ran {
    code: Option<String>,
    post: Option<(Ledger, Snap)>,
    trace: Vec<SwapTrace>,
}

fn run_swap(w: &World, pre: &Ledger, pk: &Pack, args: SwapArgs) -> Result<Ran, String> {
    let mut l = pre.clone();
    let _ = whirlpool::verif_hooks::take_swap_trace();
    let o = svm::process(&mut l, &world::ix_swap(&w.pool, &w.trader, args, pk.st, pk.v2, &pk.sup));
    let trace = whirlpool::verif_hooks::take_swap_trace();
    if o.ok() {
        let s = snap(&l, w)?;
        Ok(Ran { code: None, post: Some((l, s)), trace })
    } else {
        Ok(Ran { code: Some(o.short()), post: None, trace })
    }
}

fn crossed(trace: &[SwapTrace]) -> Vec<&TickCrossRecord> {
    trace
        .iter()
        .filter_map(|t| match t {
            SwapTrace::Cross(c) => Some(c),
            _ => None,
        })
        .collect()
}

fn tpl(name: &str) -> &'static Tpl {
    FULL.iter().find(|t| t.name == name).expect("template")
}

/// amounts (input taken from the trader, output received) of the limit swap onto the next initialized tick, on a copy
fn probe(cx: &Cx, node: &Node, a_to_b: bool, exact_in: bool, next: Option<i32>) -> Option<(u64, u64)> {
    let t = next?;
    let pre = &node.snap;
    let r = required(cx.w.spec.ts, pre.pool.tick_current_index, a_to_b);
    if r.is_empty() {
        return None;
    }
    let pk = resolve(cx.w, &node.ledgers[0], tpl("canon-v1"), &r, a_to_b);
    let args = SwapArgs { amount: BIG, other_amount_threshold: if exact_in { 0 } else { u64::MAX }, sqrt_price_limit: p_of(t), amount_specified_is_input: exact_in, a_to_b };
    let ran = run_swap(cx.w, &node.ledgers[0], &pk, args).ok()?;
    let (_, post) = ran.post?;
    let (i, o) = if a_to_b { (0, 1) } else { (1, 0) };
    Some((pre.bal[i].checked_sub(post.bal[i])?, post.bal[o].checked_sub(pre.bal[o])?))
}

/// probe results of a state: [a_to_b as usize][exact_in as usize]
type Probes = [[Option<(u64, u64)>; 2]; 2];
fn probes(cx: &Cx, node: &Node) -> Probes {
    let mut out: Probes = [[None; 2]; 2];
    let init = init_ticks(&node.snap);
    let p0 = node.snap.pool.sqrt_price;
    for a_to_b in [true, false] {
        let next = if a_to_b { init.iter().rev().copied().find(|t| p_of(*t) < p0) } else { init.iter().copied().find(|t| p_of(*t) > p0) };
        for exact_in in [true, false] {
            out[a_to_b as usize][exact_in as usize] = probe(cx, node, a_to_b, exact_in, next);
        }
    }
    out
}

/// the concrete swap of an op in a state (None: not applicable there)
fn plan_op(cx: &Cx, node: &Node, op: SOp, pr: &Probes) -> Option<Planned> {
    let w = cx.w;
    let pre = &node.snap;
    let a_to_b = op.a_to_b;
    let p0 = pre.pool.sqrt_price;
    let ts = w.spec.ts as i32;
    let init = init_ticks(pre);
    let next = if a_to_b { init.iter().rev().copied().find(|t| p_of(*t) < p0) } else { init.iter().copied().find(|t| p_of(*t) > p0) };
    let bound = if a_to_b { MIN_SQRT_PRICE } else { MAX_SQRT_PRICE };
    let stepp = |p: u128| if a_to_b { p - 1 } else { p + 1 };
    let ahead = |p: u128| if a_to_b { p < p0 && p >= MIN_SQRT_PRICE } else { p > p0 && p <= MAX_SQRT_PRICE };
    let lim = |p: u128, exact_in: bool| Planned {
        args: SwapArgs { amount: BIG, other_amount_threshold: if exact_in { 0 } else { u64::MAX }, sqrt_price_limit: p, amount_specified_is_input: exact_in, a_to_b },
        end_at: Some(p),
    };
    let amt = |amount: u64, exact_in: bool| Planned {
        args: SwapArgs { amount, other_amount_threshold: if exact_in { 0 } else { u64::MAX }, sqrt_price_limit: 0, amount_specified_is_input: exact_in, a_to_b },
        end_at: None,
    };
    match op.kind {
        Kind::LimNextIn => next.map(p_of).filter(|p| ahead(*p)).map(|p| lim(p, true)),
        Kind::LimNextOut => next.map(p_of).filter(|p| ahead(*p)).map(|p| lim(p, false)),
        Kind::LimPast => next.map(p_of).filter(|p| *p != bound).map(stepp).filter(|p| ahead(*p)).map(|p| lim(p, true)),
        Kind::LimUninit => {
            // nearest usable tick strictly ahead (by price) that is not initialized
            let tc = pre.pool.tick_current_index;
            let base = tc.div_euclid(ts) * ts;
            let cand: Vec<i32> = if a_to_b { (0..4).map(|i| base - i * ts).collect() } else { (1..5).map(|i| base + i * ts).collect() };
            cand.into_iter().filter(|u| *u >= MIN_TICK && *u <= MAX_TICK && !init.contains(u)).map(p_of).find(|p| ahead(*p)).map(|p| lim(p, true))
        }
        Kind::LimEdge => {
            let r = required(w.spec.ts, pre.pool.tick_current_index, a_to_b);
            if r.is_empty() {
                return None;
            }
            Some(reach(w.spec.ts, *r.last().unwrap(), a_to_b, &init)).filter(|p| ahead(*p)).map(|p| lim(p, true))
        }
        Kind::Dust(k) => Some(amt(k, true)),
        Kind::DustOut(k) => Some(amt(k, false)),
        Kind::ExactIn(d) => {
            let (i, _) = pr[a_to_b as usize][1]?;
            let a = i as i128 + d as i128;
            (a > 0 && a < BIG as i128).then(|| amt(a as u64, true))
        }
        Kind::ExactOut(d) => {
            let (_, o) = pr[a_to_b as usize][0]?;
            let a = o as i128 + d as i128;
            (a > 0 && a < BIG as i128).then(|| amt(a as u64, false))
        }
        Kind::Half => {
            let (i, _) = pr[a_to_b as usize][1]?;
            (i / 2 > 0).then(|| amt(i / 2, true))
        }
        Kind::Double => {
            let (i, _) = pr[a_to_b as usize][1]?;
            (i > 0 && i < BIG / 4).then(|| amt(2 * i + 7, true))
        }
    }
}

fn case_of(cx: &Cx, root: Root, path: &[String]) -> Value {
    json!({"part": "seq", "world": cx.w.spec.name, "ticks": cx.lay.ticks, "gap": cx.lay.gap, "root": format!("{root:?}"), "ops": path})
}

/// One swap of a history: executes it on every encoding, judges it, returns the successor (None: the swap failed as allowed).
fn step(cx: &Cx, node: &Node, label: &str, pl: &Planned, salt: usize, st: &mut SeqStats) -> Result<Option<Node>, (String, String)> {
    let w = cx.w;
    let a_to_b = pl.args.a_to_b;
    let pre = &node.snap;
    let (p0, tc0) = (pre.pool.sqrt_price, pre.pool.tick_current_index);
    let ctx = format!(
        "[seq {} {:?} gap={:?} history={:?} then {label}: {} amount={} exact_in={} limit={} from price={p0} tick={tc0} liquidity={}]",
        w.spec.name,
        cx.lay.ticks,
        cx.lay.gap,
        node.path,
        if a_to_b { "a->b" } else { "b->a" },
        pl.args.amount,
        pl.args.amount_specified_is_input,
        pl.args.sqrt_price_limit,
        pre.pool.liquidity
    );
    let r = required(w.spec.ts, tc0, a_to_b);
    if r.is_empty() {
        st.not_applicable += 1;
        return Ok(None);
    }
    let pre_init = init_ticks(pre);
    let edge = reach(w.spec.ts, *r.last().unwrap(), a_to_b, &pre_init);
    let within = |p: u128| if a_to_b { p >= edge } else { p <= edge };
    st.transitions += 1;
    // ---- the same swap on every encoding, each with its own packaging
    let mut rans: Vec<Ran> = vec![];
    let mut packs: Vec<&'static str> = vec![];
    for (i, l) in node.ledgers.iter().enumerate() {
        let mut pk = resolve(w, l, tpl(if i == 0 { "canon-v1" } else { ROT[(salt + i) % ROT.len()] }), &r, a_to_b);
        if pk.k != r.len() || pk.foreign_init {
            pk = resolve(w, l, tpl("canon-v2"), &r, a_to_b);
        }
        packs.push(pk.name);
        rans.push(run_swap(w, l, &pk, pl.args).map_err(|e| ("machinery".to_string(), format!("{ctx} {e}")))?);
    }
    for i in 1..rans.len() {
        let (a, b) = (&rans[0], &rans[i]);
        let en = enc_name(&cx.encs[i]);
        let same = match (&a.post, &b.post) {
            (None, None) => true,
            (Some(x), Some(y)) => x.1 == y.1,
            _ => false,
        };
        if !same {
            let what = match (&a.post, &b.post) {
                (Some(x), Some(y)) => diff_snap(&x.1, &y.1),
                _ => format!("status {} vs {}", a.code.clone().unwrap_or("ok".into()), b.code.clone().unwrap_or("ok".into())),
            };
            return Err((format!("lockstep|{en}|{}", packs[i]), format!("{ctx} after the identical history the result with arrays {en} packaging {} differs from all-fixed canon-v1: {what}", packs[i])));
        }
        let (ca, cb): (Vec<i32>, Vec<i32>) = (crossed(&a.trace).iter().map(|c| c.tick_index).collect(), crossed(&b.trace).iter().map(|c| c.tick_index).collect());
        if a.post.is_some() && ca != cb {
            return Err((format!("lockstep|{en}|{}", packs[i]), format!("{ctx} arrays {en} packaging {} crossed {cb:?}, all-fixed canon-v1 crossed {ca:?}", packs[i])));
        }
        st.lockstep += 1;
        if cx.encs[i].iter().any(|e| *e == Some(Enc::Dynamic)) {
            st.lockstep_dynamic += 1;
        }
        if cx.encs[i].iter().any(|e| e.is_none()) {
            st.lockstep_named += 1;
        }
    }
    let first = rans.remove(0);
    // ---- failed swap: state untouched; only (c) is demanded
    let Some((l0, post)) = first.post else {
        let c = first.code.unwrap_or_default();
        st.failed += 1;
        if let Some(e) = pl.end_at {
            if within(e) {
                return Err(("status".into(), format!("{ctx} swap failed with {c} although the supplied arrays reach its limit (edge {edge})")));
            }
            if c != custom(E_SEQ_INDEX) {
                return Err(("status".into(), format!("{ctx} arrays do not reach the limit: expected TickArraySequenceInvalidIndex, got {c}")));
            }
            st.fail_beyond += 1;
        }
        return Ok(None);
    };
    st.ok += 1;
    let (p1, tc1, l1) = (post.pool.sqrt_price, post.pool.tick_current_index, post.pool.liquidity);
    if let Some(e) = pl.end_at {
        if !within(e) {
            return Err(("status".into(), format!("{ctx} swap succeeded although the supplied arrays only reach {edge}")));
        }
    }
    if !within(p1) {
        return Err(("status".into(), format!("{ctx} swap ended at {p1} although the supplied arrays only reach {edge}")));
    }
    if (a_to_b && p1 > p0) || (!a_to_b && p1 < p0) {
        return Err(("direction".into(), format!("{ctx} price moved against the trade direction: {p0} -> {p1}")));
    }
    // ---- abstract traversal
    let want: Vec<i32> = if a_to_b {
        node.below.iter().rev().filter(|t| p_of(**t) >= p1).copied().collect()
    } else {
        cx.nets.keys().filter(|t| !node.below.contains(*t) && p_of(**t) <= p1).copied().collect()
    };
    let cr = crossed(&first.trace);
    let got: Vec<i32> = cr.iter().map(|c| c.tick_index).collect();
    if got != want {
        return Err((
            "crossings".into(),
            format!("{ctx} ended at price={p1} tick={tc1}: liquidity changes applied for ticks {got:?}, but the initialized ticks between start and end of this swap, given the history, are {want:?} (ticks at or below the position before the swap: {:?})", node.below),
        ));
    }
    for c in &cr {
        if Some(&c.liquidity_net) != cx.nets.get(&c.tick_index) {
            return Err(("net".into(), format!("{ctx} tick {}: applied net {} != the tick's net {:?}", c.tick_index, c.liquidity_net, cx.nets.get(&c.tick_index))));
        }
    }
    let mut below = node.below.clone();
    let (mut downs, mut ups) = (node.downs.clone(), node.ups.clone());
    for t in &want {
        if a_to_b {
            below.remove(t);
            if ups.contains(t) {
                st.recross_down_after_up += 1;
            }
            downs.insert(*t);
        } else {
            below.insert(*t);
            if downs.contains(t) {
                st.recross_up_after_down += 1;
            }
            ups.insert(*t);
        }
    }
    let sum: i128 = below.iter().map(|t| cx.nets[t]).sum();
    if sum < 0 || l1 != sum as u128 {
        return Err(("liquidity".into(), format!("{ctx} ended at price={p1} tick={tc1}: pool liquidity {l1} != sum of the nets of the initialized ticks at or below the position {below:?} = {sum}")));
    }
    if let Some(t) = cx.nets.keys().find(|t| (**t <= tc1) != below.contains(*t)) {
        return Err((
            "cursor".into(),
            format!(
                "{ctx} ended at price={p1}: tick_current_index {tc1} puts initialized tick {t} on the {} side of the position, but this history {} (ticks at or below the position: {below:?}); the next swap would start on the wrong side of it",
                if *t <= tc1 { "at-or-below" } else { "above" },
                if below.contains(t) { "last crossed it upwards (or never went below it)" } else { "last crossed it downwards (or never went above it)" }
            ),
        ));
    }
    // ---- the single-swap oracle (a), unchanged
    match validate(w, &cx.pos, pre, &post, &first.trace, pl) {
        Ok(n) => st.crossings += n as u64,
        Err(e) => return Err(("validate".into(), format!("{ctx} {e}"))),
    }
    // ---- coverage of the kinds of state / step this part exists for
    let is_init = |p: u128| cx.nets.keys().copied().find(|t| p_of(*t) == p);
    let steps: Vec<&whirlpool::verif_hooks::SwapStepRecord> = first
        .trace
        .iter()
        .filter_map(|t| match t {
            SwapTrace::Step(s) => Some(s),
            _ => None,
        })
        .collect();
    if p1 == p0 {
        st.zero_move_swaps += 1;
        if let Some(t) = is_init(p0) {
            if got.is_empty() {
                if node.below.contains(&t) {
                    st.dust_on_uncrossed_tick += 1;
                } else {
                    st.dust_on_crossed_tick += 1;
                }
            }
        }
    }
    if a_to_b && !got.is_empty() && p_of(*got.last().unwrap()) == p1 && steps.last().map(|s| s.sqrt_price_before == s.next_price && s.sqrt_price_before == p1).unwrap_or(false) && steps.len() >= 2 {
        st.zero_move_tail_after_cross += 1;
    }
    if let Some(t) = is_init(p1) {
        if p1 != p0 && got.last() == Some(&t) {
            match (a_to_b, pl.end_at.is_some()) {
                (true, true) => st.arrive_limit_down += 1,
                (false, true) => st.arrive_limit_up += 1,
                (true, false) => st.arrive_amount_down += 1,
                (false, false) => st.arrive_amount_up += 1,
            }
        }
    } else if p1 != p0 && tc1.rem_euclid(w.spec.ts as i32) == 0 && p_of(tc1) == p1 {
        st.on_uninit_tick += 1;
    }
    if a_to_b && p1 < p0 {
        if let Some(t) = is_init(p0) {
            if !node.below.contains(&t) && !got.contains(&t) {
                st.leave_crossed_tick_downwards += 1;
            }
        }
    }
    if !pl.args.amount_specified_is_input {
        st.exact_out_ok += 1;
    }
    if got.len() >= 2 {
        st.multi_cross += 1;
    }
    if st.sample.is_none() && node.path.len() >= 2 && !got.is_empty() {
        st.sample = Some(json!({"part": "seq", "world": w.spec.name, "ticks": cx.lay.ticks, "history": node.path, "op": label, "start_price": p0.to_string(), "start_tick": tc0,
            "end_price": p1.to_string(), "end_tick": tc1, "crossed": got, "ticks_at_or_below_after": below}));
    }
    let mut ledgers = vec![l0];
    for r in rans {
        ledgers.push(r.post.expect("checked above").0);
    }
    let mut path = node.path.clone();
    path.push(label.to_string());
    Ok(Some(Node { ledgers, snap: post, below, downs, ups, path }))
}

/// number of encoding variants of a layout besides the all-fixed one
fn alt_count(w: &World, lay: &Layout, salt: usize) -> usize {
    enc_variants(&w.spec, lay, false, salt).len() - 1
}

/// `alt` selects the encoding variant that runs in lock-step with the all-fixed one (all-dynamic, mixed, empty arrays only named)
fn build_cx<'a>(w: &'a World, lay: &'a Layout, salt: usize, alt: usize) -> Result<(Cx<'a>, Node), String> {
    let pos = positions(&w.spec, lay);
    let all = enc_variants(&w.spec, lay, false, salt);
    let encs = vec![all[0].clone(), all[1 + alt % (all.len() - 1)].clone()];
    let mut ledgers = vec![];
    for e in &encs {
        ledgers.push(build_layout(w, e, &pos).map_err(|m| format!("machinery: layout could not be built: {m}"))?);
    }
    let mut nets: BTreeMap<i32, i128> = BTreeMap::new();
    for (lo, hi, liq) in &pos {
        *nets.entry(*lo).or_default() += *liq as i128;
        *nets.entry(*hi).or_default() -= *liq as i128;
    }
    let s = snap(&ledgers[0], w)?;
    let stored: BTreeMap<i32, i128> = s.ticks.iter().filter(|t| t.1.initialized).map(|t| (t.0, t.1.liquidity_net)).collect();
    if stored != nets {
        return Err(format!("machinery: built layout stores nets {stored:?}, the positions give {nets:?}"));
    }
    for l in &ledgers[1..] {
        if snap(l, w)? != s {
            return Err("machinery: freshly built encodings differ".into());
        }
    }
    // a pool that never swapped: the position is defined by the price alone (the initial price is not a tick price)
    let p = s.pool.sqrt_price;
    if nets.keys().any(|t| p_of(*t) == p) {
        return Err("machinery: initial price is a tick price".into());
    }
    let below: BTreeSet<i32> = nets.keys().copied().filter(|t| p_of(*t) < p).collect();
    let sum: i128 = below.iter().map(|t| nets[t]).sum();
    if sum < 0 || s.pool.liquidity != sum as u128 {
        return Err(format!("machinery: fresh pool liquidity {} != sum of nets below the initial price {sum}", s.pool.liquidity));
    }
    let node = Node { ledgers, snap: s, below, downs: BTreeSet::new(), ups: BTreeSet::new(), path: vec![] };
    Ok((Cx { w, lay, pos, nets, encs }, node))
}

/// bring the pool to `target` through the model (hops as far as three arrays reach)
fn goto(cx: &Cx, mut node: Node, a_to_b: bool, target: u128, st: &mut SeqStats) -> Result<Node, (String, String)> {
    for hop in 0..12 {
        let s = &node.snap;
        if s.pool.sqrt_price == target {
            return Ok(node);
        }
        if (a_to_b && s.pool.sqrt_price < target) || (!a_to_b && s.pool.sqrt_price > target) {
            return Err(("root".into(), format!("machinery: root target {target} is behind the price {}", s.pool.sqrt_price)));
        }
        let r = required(cx.w.spec.ts, s.pool.tick_current_index, a_to_b);
        if r.is_empty() {
            return Err(("root".into(), "machinery: no valid tick array on the way to a root".into()));
        }
        let edge = reach(cx.w.spec.ts, *r.last().unwrap(), a_to_b, &init_ticks(s));
        let lim = if a_to_b { target.max(edge) } else { target.min(edge) };
        let pl = Planned { args: SwapArgs { amount: BIG, other_amount_threshold: 0, sqrt_price_limit: lim, amount_specified_is_input: true, a_to_b }, end_at: Some(lim) };
        let label = format!("{}:To({lim})", if a_to_b { "a2b" } else { "b2a" });
        st.root_swaps += 1;
        match step(cx, &node, &label, &pl, hop, st)? {
            Some(n) => node = n,
            None => return Err(("root".into(), "machinery: a root swap failed".into())),
        }
    }
    Err(("root".into(), "machinery: too many hops to a root".into()))
}

fn to_root(cx: &Cx, fresh: &Node, root: Root, st: &mut SeqStats) -> Result<Node, (String, String)> {
    let mut node = fresh.clone();
    for (dir, target) in root_moves(cx.w, root) {
        node = goto(cx, node, dir, target, st)?;
    }
    // the history before the root is part of the set-up, not of the explored sequence
    node.path.clear();
    Ok(node)
}

type Key = (u128, i32, u128, Vec<i32>);
fn key_of(n: &Node) -> Key {
    (n.snap.pool.sqrt_price, n.snap.pool.tick_current_index, n.snap.pool.liquidity, n.below.iter().copied().collect())
}

/// all op sequences up to `depth` from one root, modulo the traversal-relevant state (price, cursor, liquidity, sides)
fn explore(cx: &Cx, fresh: &Node, root: Root, depth: usize, st: &mut SeqStats) {
    let ops = alphabet();
    let fail = |st: &mut SeqStats, what: String, detail: String, path: &[String]| {
        if st.viol.len() < 4 {
            st.viol.push((format!("seq|{}|{:?}|gap{:?}|{root:?}|{}|{what}", cx.w.spec.name, cx.lay.ticks, cx.lay.gap, path.join(",")), detail, case_of(cx, root, path)));
        }
    };
    let rootn = match to_root(cx, fresh, root, st) {
        Ok(n) => n,
        Err((what, detail)) => {
            fail(st, what, detail, &[]);
            return;
        }
    };
    let mut seen: BTreeSet<Key> = BTreeSet::new();
    seen.insert(key_of(&rootn));
    let mut level = vec![rootn];
    for d in 0..depth {
        // the nodes of a level are expanded in parallel; results are folded in node order (deterministic)
        let expanded: Vec<(SeqStats, Vec<Node>, Option<(String, String, Vec<String>)>)> = level
            .par_iter()
            .map(|node| {
                let mut s = SeqStats::default();
                let mut succ = vec![];
                let pr = probes(cx, node);
                for (oi, op) in ops.iter().enumerate() {
                    let Some(pl) = plan_op(cx, node, *op, &pr) else {
                        s.not_applicable += 1;
                        continue;
                    };
                    match step(cx, node, &op.name(), &pl, d + oi, &mut s) {
                        Err((what, detail)) => {
                            let mut p = node.path.clone();
                            p.push(op.name());
                            return (s, succ, Some((what, detail, p)));
                        }
                        Ok(None) => {}
                        Ok(Some(n)) => succ.push(n),
                    }
                }
                (s, succ, None)
            })
            .collect();
        let mut next = vec![];
        for (s, succ, bad) in expanded {
            st.merge(s);
            if let Some((what, detail, p)) = bad {
                fail(st, what, detail, &p);
                return;
            }
            for n in succ {
                st.max_depth = st.max_depth.max(d as u64 + 1);
                if seen.insert(key_of(&n)) && d + 1 < depth {
                    next.push(n);
                }
            }
        }
        level = next;
    }
    st.states += seen.len() as u64;
}

fn seq_layouts(spec: &WSpec, thorough: bool) -> Vec<(Layout, usize)> {
    // (layout, depth)
    let c = candidates(spec);
    let at = |i: usize, s: usize| c[i * 5 + s];
    let l = |t: Vec<i32>, gap: Option<usize>| Layout { ticks: t, gap };
    let (d_main, d_side) = if thorough { (3, 3) } else { (2, 2) };
    let mut v: Vec<(Layout, usize)> = vec![];
    if let Some(f) = &spec.forced {
        return vec![(l(f.clone(), None), d_main + 1)];
    }
    match spec.name {
        "ts64" => {
            v.push((l(vec![at(1, 0), at(1, 2), at(1, 4)], None), d_main));
            v.push((l(vec![at(0, 4), at(1, 0), at(1, 1)], None), d_main));
            v.push((l(vec![at(0, 2), at(2, 0)], None), d_main));
            v.push((l(vec![at(1, 1), at(1, 2)], Some(0)), d_main));
            v.push((l(vec![at(1, 2)], None), d_main + 1));
            v.push((l(vec![at(1, 4), at(2, 0), at(2, 4)], None), d_main));
            if thorough {
                for s in subsets(&c, 2) {
                    let lay = l(s, None);
                    if !lay.ticks.is_empty() && !v.iter().any(|x| x.0 == lay) {
                        v.push((lay, 2));
                    }
                }
            }
        }
        "ts1" => {
            v.push((l(vec![at(1, 0), at(1, 1), at(1, 4)], None), d_side));
            v.push((l(vec![at(0, 4), at(1, 0)], None), d_side));
        }
        "ts3neg" => {
            v.push((l(vec![at(1, 0), at(1, 2)], None), d_side));
            v.push((l(vec![at(0, 3), at(0, 4)], None), d_side));
        }
        "lo64" => {
            v.push((l(vec![at(0, 0), at(0, 1)], None), d_side));
            v.push((l(vec![at(0, 4), at(1, 0)], None), d_side));
        }
        "hi64" => {
            v.push((l(vec![at(2, 3), at(2, 4)], None), d_side));
            v.push((l(vec![at(1, 4), at(2, 0)], None), d_side));
        }
        _ => {}
    }
    v
}

fn run_unit(w: &World, lay: &Layout, salt: usize, alt: usize, root: Root, depth: usize) -> SeqStats {
    let mut st = SeqStats { units: 1, ..Default::default() };
    let r = std::panic::catch_unwind(std::panic::AssertUnwindSafe(|| {
        let mut s = SeqStats::default();
        match build_cx(w, lay, salt, alt) {
            Ok((cx, fresh)) => explore(&cx, &fresh, root, depth, &mut s),
            Err(e) => s.viol.push((format!("seq|{}|{:?}|build", w.spec.name, lay.ticks), e, json!({"part": "seq", "world": w.spec.name, "ticks": lay.ticks, "gap": lay.gap, "root": format!("{root:?}"), "ops": []}))),
        }
        s
    }));
    match r {
        Ok(s) => st.merge(s),
        Err(_) => st.viol.push((
            format!("seq|{}|{:?}|{root:?}|panic", w.spec.name, lay.ticks),
            "machinery: harness panicked in the sequence part".into(),
            json!({"part": "seq", "world": w.spec.name, "ticks": lay.ticks, "gap": lay.gap, "root": format!("{root:?}"), "ops": []}),
        )),
    }
    st
}

pub(super) fn run(ctx: &Ctx, cap_s: f64) -> SeqStats {
    let thorough = !ctx.tier.is_quick();
    let t0 = ctx.elapsed();
    let mut total = SeqStats::default();
    let worlds: Vec<World> = specs().iter().map(build_world).collect();
    let mut units: Vec<(usize, Layout, usize, Root, usize, usize)> = vec![];
    for (wi, w) in worlds.iter().enumerate() {
        for (li, (lay, depth)) in seq_layouts(&w.spec, thorough).into_iter().enumerate() {
            total.layouts += 1;
            for (ri, root) in roots(&lay).into_iter().enumerate() {
                units.push((wi, lay.clone(), li, root, depth, ri + li));
            }
        }
    }
    // deepest first (better load balance)
    units.sort_by(|a, b| b.4.cmp(&a.4));
    let stop = AtomicBool::new(false);
    let res: Vec<SeqStats> = units
        .par_iter()
        .map(|(wi, lay, li, root, depth, alt)| {
            if stop.load(Ordering::Relaxed) || ctx.elapsed() - t0 > cap_s {
                return SeqStats { units_skipped: 1, ..Default::default() };
            }
            let s = run_unit(&worlds[*wi], lay, *li, *alt, *root, *depth);
            if !s.viol.is_empty() {
                stop.store(true, Ordering::Relaxed);
            }
            s
        })
        .collect();
    for s in res {
        total.merge(s);
    }
    total.wall_s = ctx.elapsed() - t0;
    total
}

fn parse_root(s: &str, lay: &Layout) -> Option<Root> {
    roots(lay).into_iter().find(|r| format!("{r:?}") == s)
}

pub(super) fn replay(case: &Value) -> Result<(), String> {
    let name = case["world"].as_str().ok_or("world")?;
    let spec = specs().into_iter().find(|s| s.name == name).ok_or("unknown world")?;
    let ticks: Vec<i32> = case["ticks"].as_array().ok_or("ticks")?.iter().map(|x| x.as_i64().unwrap_or(0) as i32).collect();
    let gap = case["gap"].as_u64().map(|x| x as usize);
    let lay = Layout { ticks, gap };
    let root = parse_root(case["root"].as_str().ok_or("root")?, &lay).ok_or("bad root")?;
    let ops: Vec<String> = case["ops"].as_array().ok_or("ops")?.iter().map(|x| x.as_str().unwrap_or("").to_string()).collect();
    let w = build_world(&spec);
    let alpha = alphabet();
    // the choice of the mixed encodings depends on the layout's index: both parities
    for (salt, alt) in [0usize, 1].into_iter().flat_map(|s| (0..alt_count(&w, &lay, s)).map(move |a| (s, a))) {
        let (cx, fresh) = build_cx(&w, &lay, salt, alt)?;
        let mut st = SeqStats::default();
        let mut node = to_root(&cx, &fresh, root, &mut st).map_err(|e| e.1)?;
        for (d, name) in ops.iter().enumerate() {
            let (oi, op) = alpha.iter().enumerate().find(|(_, o)| o.name() == *name).ok_or(format!("unknown op {name}"))?;
            let pr = probes(&cx, &node);
            let Some(pl) = plan_op(&cx, &node, *op, &pr) else { return Ok(()) };
            match step(&cx, &node, name, &pl, d + oi, &mut st) {
                Err((_, detail)) => return Err(detail),
                Ok(Some(n)) => node = n,
                Ok(None) => {}
            }
        }
    }
    Ok(())
}
