//! C04 — only the designated authority can move a position's funds or change settings (DESIGN §3 C04).
//!
//! Fault enumeration over signers on the REAL program (Anchor and Pinocchio dispatch, `svm::process`). For every privileged
//! instruction of the program a happy-path transaction is built on the C04 world (`c04_world.rs`: two pool-mint flavours, classic /
//! token-extension / bundled position NFTs in the states fresh / funded / emptied / locked) and must succeed (else exit 2); then
//! every fault variant of the finite matrix is executed on a copy of the same pre-state:
//!   * right key not signing; every other role key of the world (13 roles), signing and not signing;
//!   * stored authorities: the authority is rotated with the program's own set_*_authority instruction — the old key must then
//!     be refused and the new one accepted; every non-empty subset of the non-target accounts replaced by the accounts of an
//!     attacker-controlled twin config with the attacker signing (has_one / address / seeds binding);
//!   * position-token authority: delegate with delegated_amount 1 / 0 / revoked / 2 / u64::MAX signing, delegate(1) not signing,
//!     owner after delegating 0/1/2, NFT moved to a new owner (old/new account x old/new owner x signing), attacker-owned token
//!     account of the right mint holding 0 tokens, attacker's token account of ANOTHER position (and of another bundle / lock
//!     config), forged token accounts owned by a non-token program (incl. program ids differing from the token programs in one byte);
//!   * thorough tier: the full product {8 token-account states} x {5 accounts passed as position token account} x {all signer
//!     keys} x {signing, not signing} per position row, expectation computed from the decoded token account.
//! Oracle (authority table): the instruction may succeed only if the signer set contains the holder of the position token (or its
//! exactly-1-token delegate) resp. the authority stored on chain for that object; every other variant must fail AND leave the
//! ledger byte-identical. Variants signed by the authorised party must succeed; the four instructions where the program is
//! deliberately owner-only (close_position*, transfer_locked_position, delete_position_bundle) are observed and reported for the
//! delegate, not judged. Failure codes are recorded, not prescribed.
//! The authority meta's signer flag is forced by the harness (not taken from the generated metas), and unauthorised variants are
//! executed even if a row's happy path fails, so that `Signer` -> `UncheckedAccount` or "wrong stored key" faults give exit 1.
//! The instruction table is checked against lib.rs (source) and the compiled dispatcher (discriminator probe), so that a new
//! instruction without a row or a not-privileged classification fails the run.
use super::c04_world::{self as cw, Actor, Flavor, Nft, St, VPos, World};
use crate::refmodel::{MAX_SQRT_PRICE, MIN_SQRT_PRICE};
use crate::report::{Ctx, Report};
use crate::world::{self as W, PosRef};
use anchor_lang::Discriminator;
use rayon::prelude::*;
use serde_json::{json, Value};
use solana_program::{instruction::Instruction, pubkey::Pubkey};
use std::collections::{BTreeMap, BTreeSet};
use svm::{keys::key, Ledger};
use whirlpool::instruction as wi;

// ------------------------------------------------------------------------------------------------
// instruction table (every instruction of lib.rs must be classified)
// ------------------------------------------------------------------------------------------------
#[derive(Clone, Copy, Debug, PartialEq, Eq)]
enum Class {
    /// authority = holder of the position (bundle) token or its one-token delegate
    Position,
    /// authority = a key stored on chain (or the hard-coded admin keys)
    Setting,
    /// no position / setting authority involved: (reason)
    NotPrivileged(&'static str),
}

struct Info {
    name: &'static str,
    disc: &'static [u8],
    class: Class,
}

macro_rules! info {
    ($t:ident, $n:literal, $c:expr) => {
        Info { name: $n, disc: wi::$t::DISCRIMINATOR, class: $c }
    };
}

fn table() -> Vec<Info> {
    use Class::*;
    const PERMISSIONLESS_CREATE: &str = "permissionless creation paid by the funder; creates a new object, changes no existing position or setting";
    const TRADER: &str = "moves only the signer's own tokens (token_authority is enforced by the token program); no position or setting authority";
    vec![
        // ---- position-token authority ----
        info!(IncreaseLiquidity, "increase_liquidity", Position),
        info!(DecreaseLiquidity, "decrease_liquidity", Position),
        info!(IncreaseLiquidityV2, "increase_liquidity_v2", Position),
        info!(DecreaseLiquidityV2, "decrease_liquidity_v2", Position),
        info!(IncreaseLiquidityByTokenAmountsV2, "increase_liquidity_by_token_amounts_v2", Position),
        info!(RepositionLiquidityV2, "reposition_liquidity_v2", Position),
        info!(CollectFees, "collect_fees", Position),
        info!(CollectFeesV2, "collect_fees_v2", Position),
        info!(CollectReward, "collect_reward", Position),
        info!(CollectRewardV2, "collect_reward_v2", Position),
        info!(ClosePosition, "close_position", Position),
        info!(ClosePositionWithTokenExtensions, "close_position_with_token_extensions", Position),
        info!(ResetPositionRange, "reset_position_range", Position),
        info!(LockPosition, "lock_position", Position),
        info!(TransferLockedPosition, "transfer_locked_position", Position),
        info!(OpenBundledPosition, "open_bundled_position", Position),
        info!(CloseBundledPosition, "close_bundled_position", Position),
        info!(DeletePositionBundle, "delete_position_bundle", Position),
        // ---- stored authorities ----
        info!(InitializeConfig, "initialize_config", Setting),
        info!(InitializeFeeTier, "initialize_fee_tier", Setting),
        info!(InitializeReward, "initialize_reward", Setting),
        info!(InitializeRewardV2, "initialize_reward_v2", Setting),
        info!(SetRewardEmissions, "set_reward_emissions", Setting),
        info!(SetRewardEmissionsV2, "set_reward_emissions_v2", Setting),
        info!(CollectProtocolFees, "collect_protocol_fees", Setting),
        info!(CollectProtocolFeesV2, "collect_protocol_fees_v2", Setting),
        info!(SetDefaultFeeRate, "set_default_fee_rate", Setting),
        info!(SetDefaultProtocolFeeRate, "set_default_protocol_fee_rate", Setting),
        info!(SetFeeRate, "set_fee_rate", Setting),
        info!(SetProtocolFeeRate, "set_protocol_fee_rate", Setting),
        info!(SetFeeAuthority, "set_fee_authority", Setting),
        info!(SetCollectProtocolFeesAuthority, "set_collect_protocol_fees_authority", Setting),
        info!(SetRewardAuthority, "set_reward_authority", Setting),
        info!(SetRewardAuthorityBySuperAuthority, "set_reward_authority_by_super_authority", Setting),
        info!(SetRewardEmissionsSuperAuthority, "set_reward_emissions_super_authority", Setting),
        info!(InitializeAdaptiveFeeTier, "initialize_adaptive_fee_tier", Setting),
        info!(SetDefaultBaseFeeRate, "set_default_base_fee_rate", Setting),
        info!(SetDelegatedFeeAuthority, "set_delegated_fee_authority", Setting),
        info!(SetInitializePoolAuthority, "set_initialize_pool_authority", Setting),
        info!(SetPresetAdaptiveFeeConstants, "set_preset_adaptive_fee_constants", Setting),
        info!(InitializePoolWithAdaptiveFee, "initialize_pool_with_adaptive_fee", Setting),
        info!(SetFeeRateByDelegatedFeeAuthority, "set_fee_rate_by_delegated_fee_authority", Setting),
        info!(SetAdaptiveFeeConstants, "set_adaptive_fee_constants", Setting),
        info!(SetConfigFeatureFlag, "set_config_feature_flag", Setting),
        info!(InitializeConfigExtension, "initialize_config_extension", Setting),
        info!(SetConfigExtensionAuthority, "set_config_extension_authority", Setting),
        info!(SetTokenBadgeAuthority, "set_token_badge_authority", Setting),
        info!(InitializeTokenBadge, "initialize_token_badge", Setting),
        info!(DeleteTokenBadge, "delete_token_badge", Setting),
        info!(SetTokenBadgeAttribute, "set_token_badge_attribute", Setting),
        // ---- not privileged ----
        info!(InitializePool, "initialize_pool", NotPrivileged(PERMISSIONLESS_CREATE)),
        info!(InitializePoolV2, "initialize_pool_v2", NotPrivileged(PERMISSIONLESS_CREATE)),
        info!(InitializeTickArray, "initialize_tick_array", NotPrivileged(PERMISSIONLESS_CREATE)),
        info!(InitializeDynamicTickArray, "initialize_dynamic_tick_array", NotPrivileged(PERMISSIONLESS_CREATE)),
        info!(OpenPosition, "open_position", NotPrivileged("permissionless: creates a NEW empty position whose token goes to the named owner; moves no funds")),
        info!(OpenPositionWithMetadata, "open_position_with_metadata", NotPrivileged("permissionless: creates a NEW empty position; moves no funds")),
        info!(OpenPositionWithTokenExtensions, "open_position_with_token_extensions", NotPrivileged("permissionless: creates a NEW empty position; moves no funds")),
        info!(InitializePositionBundle, "initialize_position_bundle", NotPrivileged(PERMISSIONLESS_CREATE)),
        info!(InitializePositionBundleWithMetadata, "initialize_position_bundle_with_metadata", NotPrivileged(PERMISSIONLESS_CREATE)),
        info!(UpdateFeesAndRewards, "update_fees_and_rewards", NotPrivileged("permissionless bookkeeping refresh of one position; moves no funds, changes no setting")),
        info!(Swap, "swap", NotPrivileged(TRADER)),
        info!(SwapV2, "swap_v2", NotPrivileged(TRADER)),
        info!(TwoHopSwap, "two_hop_swap", NotPrivileged(TRADER)),
        info!(TwoHopSwapV2, "two_hop_swap_v2", NotPrivileged(TRADER)),
        info!(
            MigrateRepurposeRewardAuthoritySpace,
            "migrate_repurpose_reward_authority_space",
            NotPrivileged("no authority account at all (anyone may call); one-way zeroing of reward_infos[1..=2].extension only — checked below: reward authority and every other byte unchanged")
        ),
        info!(IdlInclude, "idl_include", NotPrivileged("IDL artefact; always returns InvalidInstructionData")),
    ]
}

fn anchor_disc(name: &str) -> [u8; 8] {
    let h = solana_program::hash::hash(format!("global:{name}").as_bytes());
    h.to_bytes()[..8].try_into().unwrap()
}

fn find_lib_rs() -> Option<String> {
    let mut cands: Vec<std::path::PathBuf> = vec![];
    if let Ok(p) = std::env::var("WPV_REPO") {
        cands.push(std::path::PathBuf::from(p));
    }
    cands.push(crate::report::verif_root().join("repo"));
    cands.push(std::path::PathBuf::from("/repo"));
    for c in cands {
        let p = c.join("programs/whirlpool/src/lib.rs");
        if let Ok(s) = std::fs::read_to_string(&p) {
            return Some(s);
        }
    }
    None
}

/// Names of the `pub fn`s inside `pub mod whirlpool { .. }` of lib.rs.
fn lib_rs_instruction_names(src: &str) -> Vec<String> {
    let mut out = vec![];
    let mut inside = false;
    for line in src.lines() {
        if line.trim_start().starts_with("pub mod whirlpool") {
            inside = true;
            continue;
        }
        if !inside {
            continue;
        }
        if let Some(rest) = line.strip_prefix("    pub fn ") {
            let name: String = rest.chars().take_while(|c| c.is_ascii_alphanumeric() || *c == '_').collect();
            if !name.is_empty() {
                out.push(name);
            }
        }
    }
    out
}

/// true iff the compiled program dispatches this discriminator (an unknown one yields InstructionFallbackNotFound = 101).
fn dispatched(disc: &[u8]) -> bool {
    let mut l = W::base_ledger();
    let o = svm::process(&mut l, &W::ix(vec![], disc.to_vec()));
    o.code() != Some(101)
}

// ------------------------------------------------------------------------------------------------
// matrix
// ------------------------------------------------------------------------------------------------
#[derive(Clone, Copy, PartialEq, Eq, Debug)]
enum Expect {
    Fail,
    Succeed,
    /// authorised party, but the program is deliberately stricter for this instruction: observed and reported only
    Any,
}

#[derive(Clone, Debug)]
enum Prep {
    Approve { acct: Pubkey, owner: Pubkey, delegate: Pubkey, amount: u64 },
    Revoke { acct: Pubkey, owner: Pubkey },
    MoveNft { mint: Pubkey, src: Pubkey, dst: Pubkey, owner: Pubkey, dst_owner: Pubkey },
    MoveLocked { pos: PosRef, dst: Pubkey, owner: Pubkey, dst_owner: Pubkey },
    EmptyAccount { key: Pubkey, mint: Pubkey, owner: Pubkey },
    Forge { key: Pubkey, mint: Pubkey, owner: Pubkey, program: Pubkey },
    /// a whirlpool instruction that must succeed (authority rotation)
    Exec(Instruction),
}

fn apply_prep(l: &mut Ledger, p: &Prep) {
    match p {
        Prep::Approve { acct, owner, delegate, amount } => cw::approve(l, acct, owner, delegate, *amount),
        Prep::Revoke { acct, owner } => cw::revoke(l, acct, owner),
        Prep::MoveNft { mint, src, dst, owner, dst_owner } => {
            W::create_token_account(l, *dst, *mint, *dst_owner, 0);
            cw::transfer_nft(l, mint, src, dst, owner);
        }
        Prep::MoveLocked { pos, dst, owner, dst_owner } => {
            W::create_token_account(l, *dst, pos.mint, *dst_owner, 0);
            cw::must("transfer_locked_position (prep)", l, &cw::ix_transfer_locked(pos, *owner, *owner, *dst));
        }
        Prep::EmptyAccount { key, mint, owner } => {
            if l.get(key).is_none() {
                W::create_token_account(l, *key, *mint, *owner, 0);
            }
        }
        Prep::Forge { key, mint, owner, program } => cw::forge_token_account(l, *key, *mint, *owner, *program),
        Prep::Exec(i) => cw::must("authority rotation (prep)", l, i),
    }
}

struct Variant {
    label: String,
    class: &'static str,
    prep: Vec<Prep>,
    ix: Instruction,
    expect: Expect,
}

struct PosAuth {
    pta: usize,
    mint: Pubkey,
    locked: Option<PosRef>,
    delegate_ok: bool,
}

enum Kind {
    Position(PosAuth),
    Setting,
}

struct Row {
    name: &'static str,
    label: String,
    pre: Vec<Prep>,
    ix: Instruction,
    auth: usize,
    /// keys whose signature authorises the happy path in the base state
    right: Vec<Pubkey>,
    /// token accounts (a, b, reward) of the acting party in the happy instruction
    wallet: Option<[Pubkey; 3]>,
    kind: Kind,
    /// attacker-controlled replacements of non-target accounts
    twin: Vec<(usize, Pubkey)>,
    extra: Vec<Variant>,
    /// (instruction that hands the authority of this row to `new key`, new key)
    rotate: Option<(Instruction, Pubkey)>,
}

fn idx(ix: &Instruction, k: &Pubkey) -> usize {
    ix.accounts.iter().position(|m| m.pubkey == *k).unwrap_or_else(|| panic!("C04: account {k} not in instruction"))
}
/// Index of the authority meta; its signer flag is FORCED on in the happy instruction (the generated metas would drop it if the
/// program stopped declaring the account as `Signer`, which is exactly a fault this check must see).
fn idx_signer(ix: &mut Instruction, k: &Pubkey) -> usize {
    let i = idx(ix, k);
    ix.accounts[i].is_signer = true;
    i
}
fn set_auth(ix: &mut Instruction, i: usize, k: Pubkey, signer: bool) {
    ix.accounts[i].pubkey = k;
    ix.accounts[i].is_signer = signer;
}
fn rebind(ix: &mut Instruction, from: [Pubkey; 3], to: [Pubkey; 3]) {
    for m in ix.accounts.iter_mut() {
        for j in 0..3 {
            if m.pubkey == from[j] {
                m.pubkey = to[j];
            }
        }
    }
}

/// Instructions for which the program deliberately does not accept the one-token delegate (reason).
fn delegate_exception(name: &str) -> Option<&'static str> {
    match name {
        "close_position" | "close_position_with_token_extensions" => Some("authority check accepts the delegate, but the CloseAccount CPI needs the token account owner"),
        "transfer_locked_position" => Some("owner only by design (handler comment: not the delegate)"),
        "delete_position_bundle" => Some("constraint position_bundle_token_account.owner == position_bundle_owner: owner only"),
        _ => None,
    }
}

/// The instruction that hands the authority `right` (as used by `ix`) to a fresh key — "the authority recorded on chain",
/// not a constant: after the rotation the old key must be refused and the new one accepted.
fn rotation(w: &World, right: &Pubkey, ix: &Instruction) -> Option<(Instruction, Pubkey)> {
    rotation_to(w, right, ix, key("c04/rotated_authority"))
}

/// The instruction that hands the authority `right` (as used by `ix`) to `nk`.
fn rotation_to(w: &World, right: &Pubkey, ix: &Instruction, nk: Pubkey) -> Option<(Instruction, Pubkey)> {
    let u = &w.u1;
    let cfg = &w.cfg;
    let has = |k: &Pubkey| ix.accounts.iter().any(|m| m.pubkey == *k);
    let c = if has(&w.cfg3) { w.cfg3 } else { u.cfg };
    let tier = if has(&u.af_tier_new) { u.af_tier_new } else { u.af_tier };
    let i = if *right == cfg.fee_authority {
        cw::ix_set_fee_authority(c, *right, nk)
    } else if *right == cfg.collect_protocol_fees_authority {
        cw::ix_set_cpfa(c, *right, nk)
    } else if *right == cfg.reward_emissions_super_authority {
        cw::ix_set_resa(c, *right, nk)
    } else if *right == w.reward_authority {
        cw::ix_set_reward_authority(w.std.pool.addr, *right, nk, 0)
    } else if *right == w.cea {
        cw::ix_set_cea(u.cfg, w.cea, nk)
    } else if *right == w.tba {
        cw::ix_set_tba(u.cfg, w.cea, nk)
    } else if *right == w.dfa {
        cw::ix_set_dfa(u.cfg, tier, cfg.fee_authority, nk)
    } else if *right == w.ipa {
        cw::ix_set_ipa(u.cfg, tier, cfg.fee_authority, nk)
    } else {
        return None; // admin keys are compiled in
    };
    Some((i, nk))
}

fn rows(w: &World) -> Vec<Row> {
    let mut out: Vec<Row> = vec![];
    let spl = w.flavor == Flavor::Spl;
    let o = &w.owner;
    let ow = o.wallet();
    let pool = &w.std.pool;
    let funder = w.funder;
    let owallet = Some([o.a, o.b, o.r]);
    let receiver = key("c04/receiver");

    // ---------------- position rows ----------------
    let prow = |name: &'static str, v: &VPos, mut ix: Instruction, pre: Vec<Prep>, extra_twin: Vec<(Pubkey, Pubkey)>, extra: Vec<Variant>| -> Row {
        let auth = idx_signer(&mut ix, &o.key);
        let pta = idx(&ix, &v.pos.token_account);
        let attacker_nft = if v.st == St::Locked { w.attacker_locked.token_account } else { w.attacker_pos[&v.nft].pos.token_account };
        let mut twin = vec![(pta, attacker_nft)];
        for (from, to) in extra_twin {
            twin.push((idx(&ix, &from), to));
        }
        Row {
            name,
            label: format!("{name}[{}/{}]", v.nft.name(), v.st.name()),
            pre,
            ix,
            auth,
            right: vec![o.key],
            wallet: owallet,
            kind: Kind::Position(PosAuth {
                pta,
                mint: v.pos.mint,
                locked: if v.st == St::Locked { Some(v.pos.clone()) } else { None },
                delegate_ok: delegate_exception(name).is_none(),
            }),
            twin,
            extra,
            rotate: None,
        }
    };

    for v in &w.victim {
        let p = &v.pos;
        let none = || (vec![], vec![], vec![]);
        if matches!(v.st, St::Fresh | St::Funded | St::Locked) {
            if spl {
                let (a, b, c) = none();
                out.push(prow("increase_liquidity", v, W::ix_increase(p, &ow, 1_000, u64::MAX, u64::MAX, false), a, b, c));
                let (a, b, c) = none();
                out.push(prow("collect_fees", v, W::ix_collect_fees(p, &ow, false), a, b, c));
                let (a, b, c) = none();
                out.push(prow("collect_reward", v, W::ix_collect_reward(p, o.key, o.r, w.reward_mint, w.reward_prog, w.reward_vault, 0, false), a, b, c));
            }
            let (a, b, c) = none();
            out.push(prow("increase_liquidity_v2", v, W::ix_increase(p, &ow, 1_000, u64::MAX, u64::MAX, true), a, b, c));
            let (a, b, c) = none();
            out.push(prow(
                "increase_liquidity_by_token_amounts_v2",
                v,
                W::ix_increase_by_token_amounts(p, &ow, 10_000, 10_000, MIN_SQRT_PRICE, MAX_SQRT_PRICE),
                a,
                b,
                c,
            ));
            let (a, b, c) = none();
            out.push(prow("collect_fees_v2", v, W::ix_collect_fees(p, &ow, true), a, b, c));
            let (a, b, c) = none();
            out.push(prow("collect_reward_v2", v, W::ix_collect_reward(p, o.key, o.r, w.reward_mint, w.reward_prog, w.reward_vault, 0, true), a, b, c));
        }
        if v.st == St::Funded {
            if spl {
                let (a, b, c) = none();
                out.push(prow("decrease_liquidity", v, W::ix_decrease(p, &ow, 1_000, 0, 0, false), a, b, c));
            }
            let (a, b, c) = none();
            out.push(prow("decrease_liquidity_v2", v, W::ix_decrease(p, &ow, 1_000, 0, 0, true), a, b, c));
            let (a, b, c) = none();
            out.push(prow("reposition_liquidity_v2", v, cw::ix_reposition(p, &ow, funder, -256, 192, 500_000_000), a, b, c));
            if v.nft == Nft::Te {
                let (a, b, c) = none();
                out.push(prow("lock_position", v, cw::ix_lock(p, o.key, funder), a, b, c));
            }
        }
        if matches!(v.st, St::Fresh | St::Emptied) {
            let (a, b, c) = none();
            out.push(prow("reset_position_range", v, cw::ix_reset_range(p, o.key, funder, -64, 64), a, b, c));
            match v.nft {
                Nft::Classic => {
                    let (a, b, c) = none();
                    out.push(prow("close_position", v, W::ix_close_position(p, o.key, receiver), a, b, c));
                }
                Nft::Te => {
                    let (a, b, c) = none();
                    out.push(prow("close_position_with_token_extensions", v, W::ix_close_position(p, o.key, receiver), a, b, c));
                }
                Nft::Bundle => {
                    let (bd, i) = v.bundle.as_ref().unwrap();
                    // reversed attack: the attacker closes HIS OWN empty bundled position of the same index (his token, his
                    // signature) but names the victim's bundle account — the bit cleared would be the victim's
                    let mut extra = vec![];
                    if *i == 1 || *i == 2 {
                        let mut rev = cw::ix_close_bundled(&w.attacker_bundle, *i, w.attacker.key, receiver);
                        let bi = idx(&rev, &w.attacker_bundle.addr);
                        rev.accounts[bi].pubkey = bd.addr;
                        extra.push(Variant { label: "attacker_own_bundled_position_with_victim_bundle".into(), class: "twin", prep: vec![], ix: rev, expect: Expect::Fail });
                    }
                    out.push(prow(
                        "close_bundled_position",
                        v,
                        cw::ix_close_bundled(bd, *i, o.key, receiver),
                        vec![],
                        vec![(bd.addr, w.attacker_bundle.addr)],
                        extra,
                    ));
                }
            }
        }
        if v.st == St::Locked {
            let dest_owner = key("c04/locked_dest_owner");
            let dest = key("c04/locked_dest");
            let adest = key("c04/locked_dest_attacker_mint");
            let al = &w.attacker_locked;
            // reversed attack: the attacker transfers HIS OWN locked position but passes the victim's lock_config
            let mut rev = cw::ix_transfer_locked(al, w.attacker.key, w.attacker.key, adest);
            let lci = idx(&rev, &cw::lock_config_addr(&al.addr));
            rev.accounts[lci].pubkey = cw::lock_config_addr(&p.addr);
            let extra = vec![Variant {
                label: "attacker_own_locked_position_with_victim_lock_config".into(),
                class: "twin",
                prep: vec![Prep::EmptyAccount { key: adest, mint: al.mint, owner: dest_owner }],
                ix: rev,
                expect: Expect::Fail,
            }];
            out.push(prow(
                "transfer_locked_position",
                v,
                cw::ix_transfer_locked(p, o.key, receiver, dest),
                vec![Prep::EmptyAccount { key: dest, mint: p.mint, owner: dest_owner }],
                vec![],
                extra,
            ));
        }
    }
    // bundle-level rows
    {
        let vb = w.victim.iter().find(|v| v.nft == Nft::Bundle && v.st == St::Fresh).unwrap();
        let bd = &w.victim_bundle;
        let mut r = prow(
            "open_bundled_position",
            vb,
            cw::ix_open_bundled(bd, 7, pool, o.key, funder, cw::LO, cw::HI),
            vec![],
            vec![(bd.addr, w.attacker_bundle.addr)],
            vec![],
        );
        r.label = "open_bundled_position[bundle]".into();
        out.push(r);
        let be = &w.victim_bundle_empty;
        let vfake = VPos { nft: Nft::Bundle, st: St::Fresh, pos: cw::bundled_pos_ref(be, 0, pool, cw::LO, cw::HI), bundle: Some((be.clone(), 0)) };
        let mut r = prow("delete_position_bundle", &vfake, cw::ix_delete_bundle(be, o.key, receiver), vec![], vec![], vec![]);
        r.label = "delete_position_bundle[empty bundle]".into();
        // the attacker's analogous token is the token of his own empty bundle
        // ... and the mint of that bundle: a mutually consistent foreign (mint, token account) pair next to the victim's bundle
        r.twin = vec![(idx(&r.ix, &be.token_account), w.attacker_bundle_empty.token_account), (idx(&r.ix, &be.mint), w.attacker_bundle_empty.mint)];
        out.push(r);
    }

    // ---------------- settings rows ----------------
    let u = &w.u1;
    let cfg = &w.cfg;
    let (fa, cpfa, resa) = (cfg.fee_authority, cfg.collect_protocol_fees_authority, cfg.reward_emissions_super_authority);
    let admins = vec![whirlpool::auth::admin::ADMINS[0], whirlpool::auth::admin::ADMINS[1]];
    let newk = key("c04/new_authority");
    let srow = |name: &'static str, label: &str, mut ix: Instruction, right: Vec<Pubkey>, targets: &[Pubkey], wallet: Option<[Pubkey; 3]>| -> Row {
        let rotate = rotation(w, &right[0], &ix);
        let auth = idx_signer(&mut ix, &right[0]);
        let mut twin = vec![];
        for (i, m) in ix.accounts.iter().enumerate() {
            if i != auth && !targets.contains(&m.pubkey) {
                if let Some(t) = w.twin.get(&m.pubkey) {
                    twin.push((i, *t));
                }
            }
        }
        Row { name, label: if label.is_empty() { name.to_string() } else { format!("{name}[{label}]") }, pre: vec![], ix, auth, right, wallet, kind: Kind::Setting, twin, extra: vec![], rotate }
    };
    let fdw = Some([w.feedest.a, w.feedest.b, w.feedest.r]);

    let newcfg = key("c04/new_config");
    out.push(srow("initialize_config", "", cw::ix_init_config(newcfg, admins[0], newk, newk, newk, 100), admins.clone(), &[newcfg], None));
    out.push(srow("set_config_feature_flag", "", cw::ix_set_feature_flag(u.cfg, admins[0], false), admins.clone(), &[u.cfg], None));
    out.push(srow("initialize_fee_tier", "", cw::ix_init_fee_tier(u.cfg, fa, funder, 128, 1000), vec![fa], &[W::fee_tier_addr(&u.cfg, 128)], None));
    out.push(srow("set_default_fee_rate", "", cw::ix_set_default_fee_rate(u.cfg, u.fee_tier, fa, 1234), vec![fa], &[u.fee_tier], None));
    out.push(srow("set_default_protocol_fee_rate", "", cw::ix_set_default_protocol_fee_rate(u.cfg, fa, 123), vec![fa], &[u.cfg], None));
    out.push(srow("set_fee_rate", "", W::ix_set_fee_rate(pool, fa, 4321), vec![fa], &[pool.addr], None));
    out.push(srow("set_protocol_fee_rate", "", W::ix_set_protocol_fee_rate(pool, fa, 321), vec![fa], &[pool.addr], None));
    out.push(srow("set_fee_authority", "", cw::ix_set_fee_authority(u.cfg, fa, newk), vec![fa], &[u.cfg], None));
    out.push(srow("set_collect_protocol_fees_authority", "", cw::ix_set_cpfa(u.cfg, cpfa, newk), vec![cpfa], &[u.cfg], None));
    out.push(srow("set_reward_emissions_super_authority", "", cw::ix_set_resa(u.cfg, resa, newk), vec![resa], &[u.cfg], None));
    let ra = w.reward_authority;
    for index in [0u8, 1, 2] {
        out.push(srow("set_reward_authority", &format!("reward {index}"), cw::ix_set_reward_authority(pool.addr, ra, newk, index), vec![ra], &[pool.addr], None));
    }
    out.push(srow(
        "set_reward_authority_by_super_authority",
        "",
        cw::ix_set_reward_authority_by_super(u.cfg, pool.addr, resa, newk, 0),
        vec![resa],
        &[pool.addr],
        None,
    ));
    if spl {
        out.push(srow("set_reward_emissions", "", W::ix_set_reward_emissions(pool, ra, w.reward_vault, 0, 5u128 << 64, false), vec![ra], &[pool.addr], None));
        out.push(srow("initialize_reward", "", W::ix_init_reward(pool, ra, funder, w.reward_mint2, w.reward_prog, 1, false), vec![ra], &[pool.addr], None));
        out.push(srow(
            "collect_protocol_fees",
            "",
            W::ix_collect_protocol_fees(pool, cpfa, w.feedest.a, w.feedest.b, false),
            vec![cpfa],
            &[pool.addr],
            fdw,
        ));
    }
    out.push(srow("set_reward_emissions_v2", "", W::ix_set_reward_emissions(pool, ra, w.reward_vault, 0, 5u128 << 64, true), vec![ra], &[pool.addr], None));
    out.push(srow("initialize_reward_v2", "", W::ix_init_reward(pool, ra, funder, w.reward_mint2, w.reward_prog, 1, true), vec![ra], &[pool.addr], None));
    out.push(srow(
        "collect_protocol_fees_v2",
        "",
        W::ix_collect_protocol_fees(pool, cpfa, w.feedest.a, w.feedest.b, true),
        vec![cpfa],
        &[pool.addr],
        fdw,
    ));
    // adaptive fee
    out.push(srow(
        "initialize_adaptive_fee_tier",
        "",
        cw::ix_init_af_tier(u.cfg, fa, funder, cw::AF_INDEX_ROW, cw::TS, w.ipa, w.dfa, 2_500),
        vec![fa],
        &[W::fee_tier_addr(&u.cfg, cw::AF_INDEX_ROW)],
        None,
    ));
    out.push(srow("set_default_base_fee_rate", "", cw::ix_set_default_base_fee_rate(u.cfg, u.af_tier, fa, 2_222), vec![fa], &[u.af_tier], None));
    out.push(srow("set_delegated_fee_authority", "", cw::ix_set_dfa(u.cfg, u.af_tier, fa, newk), vec![fa], &[u.af_tier], None));
    out.push(srow("set_initialize_pool_authority", "", cw::ix_set_ipa(u.cfg, u.af_tier, fa, newk), vec![fa], &[u.af_tier], None));
    out.push(srow("set_preset_adaptive_fee_constants", "", cw::ix_set_preset_af(u.cfg, u.af_tier, fa), vec![fa], &[u.af_tier], None));
    let newaf = cw::af_pool_ref(&w.l, &u.cfg, "c04/new_af_pool", pool.mint_a, pool.mint_b, cw::AF_INDEX_NEW);
    out.push(srow(
        "initialize_pool_with_adaptive_fee",
        "permissioned tier",
        cw::ix_init_af_pool(&newaf, funder, w.ipa),
        vec![w.ipa],
        &[newaf.addr, newaf.oracle, newaf.vault_a, newaf.vault_b],
        None,
    ));
    out.push(srow(
        "set_fee_rate_by_delegated_fee_authority",
        "",
        cw::ix_set_fee_rate_by_dfa(u.af_pool.addr, u.af_tier, w.dfa, 7_777),
        vec![w.dfa],
        &[u.af_pool.addr],
        None,
    ));
    out.push(srow("set_adaptive_fee_constants", "", cw::ix_set_af_constants(&u.af_pool, fa), vec![fa], &[u.af_pool.oracle], None));
    // config extension / token badges
    out.push(srow("initialize_config_extension", "", cw::ix_init_ext(w.cfg3, fa, funder), vec![fa], &[w.cfg3, cw::ext_addr(&w.cfg3)], None));
    out.push(srow("set_config_extension_authority", "", cw::ix_set_cea(u.cfg, w.cea, newk), vec![w.cea], &[u.ext], None));
    out.push(srow("set_token_badge_authority", "", cw::ix_set_tba(u.cfg, w.cea, newk), vec![w.cea], &[u.ext], None));
    out.push(srow("initialize_token_badge", "", cw::ix_init_badge(u.cfg, w.tba, w.badge_mint_new, funder), vec![w.tba], &[u.badge_new], None));
    out.push(srow("delete_token_badge", "", cw::ix_delete_badge(u.cfg, w.tba, w.badge_mint_set, receiver), vec![w.tba], &[u.badge_set], None));
    out.push(srow("set_token_badge_attribute", "", cw::ix_set_badge_attr(u.cfg, w.tba, w.badge_mint_set), vec![w.tba], &[u.badge_set], None));
    out
}

/// Owner programs of forged token accounts: an arbitrary program, and program ids that differ from the two token programs
/// in the first byte only (the Pinocchio loader dispatches on the LAST byte of the owner id before comparing it).
fn fake_token_programs() -> Vec<(&'static str, Pubkey)> {
    let near = |p: Pubkey| {
        let mut b = p.to_bytes();
        b[0] ^= 1;
        Pubkey::new_from_array(b)
    };
    vec![("arbitrary_program", key("c04/fake_token_program")), ("near_token_id", near(W::TOKEN)), ("near_token2022_id", near(W::T22))]
}

fn subsets_nonempty(n: usize) -> impl Iterator<Item = usize> {
    1..(1usize << n)
}

fn variants(w: &World, row: &Row) -> Vec<Variant> {
    let happy = &row.ix;
    let mut out: Vec<Variant> = vec![];
    let act_key = |k: Pubkey, signer: bool, wallet: Option<&Actor>| -> Instruction {
        let mut i = happy.clone();
        set_auth(&mut i, row.auth, k, signer);
        if let (Some(from), Some(a)) = (row.wallet, wallet) {
            rebind(&mut i, from, [a.a, a.b, a.r]);
        }
        i
    };
    let act = |a: &Actor, signer: bool| act_key(a.key, signer, Some(a));
    let mut push = |label: String, class: &'static str, prep: Vec<Prep>, ix: Instruction, expect: Expect| out.push(Variant { label, class, prep, ix, expect });

    // (1) right key, not signing
    let mut i = happy.clone();
    i.accounts[row.auth].is_signer = false;
    push("right_key_unsigned".into(), "unsigned", vec![], i, Expect::Fail);

    match &row.kind {
        Kind::Setting => {
            for alt in row.right.iter().skip(1) {
                push(format!("alternative_right_key_signed:{alt}"), "alt_right", vec![], act_key(*alt, true, None), Expect::Succeed);
            }
            for (rname, k) in &w.roles {
                if row.right.contains(k) {
                    continue;
                }
                let wallet = if *k == w.attacker.key { Some(&w.attacker) } else { None };
                push(format!("{rname}_signed"), "wrong_key", vec![], act_key(*k, true, wallet), Expect::Fail);
                push(format!("{rname}_unsigned"), "wrong_key_unsigned", vec![], act_key(*k, false, wallet), Expect::Fail);
            }
            if let Some((rot, nk)) = &row.rotate {
                push("rotated:old_authority_signed".into(), "rotated_old", vec![Prep::Exec(rot.clone())], happy.clone(), Expect::Fail);
                push("rotated:new_authority_signed".into(), "rotated_new", vec![Prep::Exec(rot.clone())], act_key(*nk, true, None), Expect::Succeed);
                push("rotated:new_authority_unsigned".into(), "rotated_old", vec![Prep::Exec(rot.clone())], act_key(*nk, false, None), Expect::Fail);
            }
            // authority handed to the all-zero key ("nobody"): the recorded authority is then a key nobody can sign with, so every
            // signer must be refused. (The initialize-pool authority is the documented exception: all-zero there means
            // permission-less pool creation, which is not a settings change — not enumerated.)
            if row.right[0] != w.ipa {
                if let Some((rot, _)) = rotation_to(w, &row.right[0], happy, Pubkey::default()) {
                    push("revoked_to_zero_key:old_authority_signed".into(), "revoked", vec![Prep::Exec(rot.clone())], happy.clone(), Expect::Fail);
                    for (rname, k) in &w.roles {
                        if row.right.contains(k) {
                            continue;
                        }
                        let wallet = if *k == w.attacker.key { Some(&w.attacker) } else { None };
                        push(format!("revoked_to_zero_key:{rname}_signed"), "revoked", vec![Prep::Exec(rot.clone())], act_key(*k, true, wallet), Expect::Fail);
                    }
                }
            }
        }
        Kind::Position(p) => {
            let (o, a, d, n) = (&w.owner, &w.attacker, &w.delegate, &w.newowner);
            let pta_key = happy.accounts[p.pta].pubkey;
            let with_pta = |mut i: Instruction, k: Pubkey| {
                i.accounts[p.pta].pubkey = k;
                i
            };
            let approve = |amount: u64| Prep::Approve { acct: pta_key, owner: o.key, delegate: d.key, amount };
            // (2)(3) another funded key
            push("other_signed".into(), "wrong_key", vec![], act(a, true), Expect::Fail);
            push("other_unsigned".into(), "wrong_key_unsigned", vec![], act(a, false), Expect::Fail);
            for (rname, k) in &w.roles {
                if *k == o.key || *k == a.key || happy.accounts.iter().any(|m| m.pubkey == *k) {
                    continue;
                }
                push(format!("{rname}_signed"), "wrong_key", vec![], act_key(*k, true, None), Expect::Fail);
            }
            // (4)-(7) delegates
            push("delegate1_signed".into(), "delegate1", vec![approve(1)], act(d, true), if p.delegate_ok { Expect::Succeed } else { Expect::Any });
            push("delegate0_signed".into(), "delegate_not1", vec![approve(0)], act(d, true), Expect::Fail);
            push("delegate_revoked_signed".into(), "delegate_not1", vec![approve(1), Prep::Revoke { acct: pta_key, owner: o.key }], act(d, true), Expect::Fail);
            push("delegate2_signed".into(), "delegate_not1", vec![approve(2)], act(d, true), Expect::Fail);
            push("delegate_max_signed".into(), "delegate_not1", vec![approve(u64::MAX)], act(d, true), Expect::Fail);
            push("delegate1_unsigned".into(), "delegate_unsigned", vec![approve(1)], act(d, false), Expect::Fail);
            // (8) the owner stays the authority after delegating
            for amt in [0u64, 1, 2] {
                push(format!("owner_signed_after_delegating_{amt}"), "owner_after_delegate", vec![approve(amt)], happy.clone(), Expect::Succeed);
            }
            // (9) the NFT moved to a new owner
            let nta = key(&format!("c04/nta/{}", p.mint));
            let mv = match &p.locked {
                Some(pos) => Prep::MoveLocked { pos: pos.clone(), dst: nta, owner: o.key, dst_owner: n.key },
                None => Prep::MoveNft { mint: p.mint, src: pta_key, dst: nta, owner: o.key, dst_owner: n.key },
            };
            push("moved:old_account_old_owner_signed".into(), "moved_old", vec![mv.clone()], happy.clone(), Expect::Fail);
            push("moved:new_account_old_owner_signed".into(), "moved_old", vec![mv.clone()], with_pta(happy.clone(), nta), Expect::Fail);
            push("moved:new_account_new_owner_signed".into(), "moved_new_owner", vec![mv.clone()], with_pta(act(n, true), nta), Expect::Succeed);
            push("moved:new_account_new_owner_unsigned".into(), "moved_old", vec![mv.clone()], with_pta(act(n, false), nta), Expect::Fail);
            push("moved:old_account_new_owner_signed".into(), "moved_old", vec![mv.clone()], act(n, true), Expect::Fail);
            // (9'') the delegate of an EMPTIED token account: delegated before or after the token left it. The account holds 0
            // position tokens, so nobody is "the holder's one-token delegate" through it (quantifier: "token account holding 0 or 1").
            push("delegated1_then_moved:old_account_delegate_signed".into(), "emptied_delegate", vec![approve(1), mv.clone()], act(d, true), Expect::Fail);
            if p.locked.is_none() {
                // (transfer_locked_position closes the source account, so there is nothing left to delegate)
                push("moved_then_old_account_delegated1:delegate_signed".into(), "emptied_delegate", vec![mv.clone(), approve(1)], act(d, true), Expect::Fail);
            }
            push("delegated1_then_moved:old_account_old_owner_signed".into(), "emptied_delegate", vec![approve(1), mv.clone()], happy.clone(), Expect::Fail);
            // (9') attacker-owned account of the right mint holding 0 tokens
            let empty = key(&format!("c04/empty/{}", p.mint));
            push(
                "attacker_zero_balance_account_signed".into(),
                "zero_balance",
                vec![Prep::EmptyAccount { key: empty, mint: p.mint, owner: a.key }],
                with_pta(act(a, true), empty),
                Expect::Fail,
            );
            // forged token account (right layout, amount 1, owner = attacker) that no token program owns
            for (fname, program) in fake_token_programs() {
                let forged = key(&format!("c04/forged/{fname}/{}", p.mint));
                push(
                    format!("attacker_forged_token_account[{fname}]_signed"),
                    "forged",
                    vec![Prep::Forge { key: forged, mint: p.mint, owner: a.key, program }],
                    with_pta(act(a, true), forged),
                    Expect::Fail,
                );
            }
        }
    }
    // twin substitutions with the attacker signing ((10): token account of ANOTHER position is the position-row instance)
    for mask in subsets_nonempty(row.twin.len()) {
        let mut i = act(&w.attacker, true);
        let mut names = vec![];
        for (j, (ix_idx, k)) in row.twin.iter().enumerate() {
            if mask & (1 << j) != 0 {
                i.accounts[*ix_idx].pubkey = *k;
                names.push(ix_idx.to_string());
            }
        }
        push(format!("attacker_signed_with_own_accounts_at[{}]", names.join(",")), "twin", vec![], i, Expect::Fail);
    }
    drop(push);
    for e in &row.extra {
        out.push(Variant { label: e.label.clone(), class: e.class, prep: e.prep.clone(), ix: e.ix.clone(), expect: e.expect });
    }
    out
}

// ------------------------------------------------------------------------------------------------
// execution
// ------------------------------------------------------------------------------------------------
struct VRes {
    label: String,
    class: &'static str,
    expect: Expect,
    outcome: String,
    ok: bool,
    violation: Option<String>,
    pinocchio: bool,
    prep_failed: bool,
}

fn short(o: &svm::Outcome) -> String {
    let s = o.short();
    if s.len() > 60 {
        s.chars().take(60).collect()
    } else {
        s
    }
}

fn row_pre(w: &World, row: &Row) -> Ledger {
    let mut l = w.l.clone();
    for p in &row.pre {
        apply_prep(&mut l, p);
    }
    l
}

/// Preparation steps must succeed on a correct tree; on a faulty tree a failing step is reported (vacuity guard), not fatal.
fn try_preps(l: &mut Ledger, preps: &[Prep]) -> Result<(), String> {
    std::panic::catch_unwind(std::panic::AssertUnwindSafe(|| {
        for p in preps {
            apply_prep(l, p);
        }
    }))
    .map_err(|e| e.downcast_ref::<String>().cloned().or_else(|| e.downcast_ref::<&str>().map(|s| s.to_string())).unwrap_or_default().chars().take(120).collect())
}

fn exec_variant(pre: &Ledger, v: &Variant) -> VRes {
    let mut l = pre.clone();
    if let Err(m) = try_preps(&mut l, &v.prep) {
        return VRes { label: v.label.clone(), class: v.class, expect: v.expect, outcome: format!("prep_failed: {m}"), ok: false, violation: None, pinocchio: false, prep_failed: true };
    }
    let before = l.clone();
    let fp = before.fingerprint();
    let o = svm::process(&mut l, &v.ix);
    let unchanged = l == before && l.fingerprint() == fp;
    let violation = if o.ok() && v.expect == Expect::Fail {
        Some(format!("instruction SUCCEEDED although no authorised party signed (variant {})", v.label))
    } else if !o.ok() && !unchanged {
        Some(format!("instruction failed ({}) but the ledger changed (variant {})", short(&o), v.label))
    } else if !o.ok() && v.expect == Expect::Succeed {
        Some(format!("instruction signed by the authorised party was rejected: {} (variant {})", short(&o), v.label))
    } else {
        None
    };
    VRes { label: v.label.clone(), class: v.class, expect: v.expect, outcome: short(&o), ok: o.ok(), violation, pinocchio: o.pinocchio_path, prep_failed: false }
}

struct RowRes {
    name: &'static str,
    label: String,
    happy: String,
    happy_ok: bool,
    pinocchio: bool,
    vres: Vec<VRes>,
}

/// (mint, owner, amount, delegate, delegated_amount) of a token account owned by one of the two token programs.
fn token_view(l: &Ledger, k: &Pubkey) -> Option<(Pubkey, Pubkey, u64, Option<Pubkey>, u64)> {
    let a = l.get(k)?;
    if (a.owner != W::TOKEN && a.owner != W::T22) || a.data.len() < 165 {
        return None;
    }
    let d = &a.data;
    let pk = |o: usize| Pubkey::new_from_array(d[o..o + 32].try_into().unwrap());
    let delegate = if u32::from_le_bytes(d[72..76].try_into().unwrap()) == 1 { Some(pk(76)) } else { None };
    Some((pk(0), pk(32), u64::from_le_bytes(d[64..72].try_into().unwrap()), delegate, u64::from_le_bytes(d[121..129].try_into().unwrap())))
}

/// Thorough tier: the full product {token-account state} x {account passed as position token account} x {signer key} x
/// {signing, not signing} with the expected outcome computed from the authority table on the decoded token account.
fn product(w: &World, row: &Row, pre: &Ledger, only: Option<&str>) -> Vec<VRes> {
    let Kind::Position(p) = &row.kind else { return vec![] };
    let (o, a, d, n) = (&w.owner, &w.attacker, &w.delegate, &w.newowner);
    let happy = &row.ix;
    let pta_key = happy.accounts[p.pta].pubkey;
    let nta = key(&format!("c04/nta/{}", p.mint));
    let empty = key(&format!("c04/empty/{}", p.mint));
    let forged = key(&format!("c04/forged/near_token_id/{}", p.mint));
    let approve = |amount: u64| Prep::Approve { acct: pta_key, owner: o.key, delegate: d.key, amount };
    let mv = match &p.locked {
        Some(pos) => Prep::MoveLocked { pos: pos.clone(), dst: nta, owner: o.key, dst_owner: n.key },
        None => Prep::MoveNft { mint: p.mint, src: pta_key, dst: nta, owner: o.key, dst_owner: n.key },
    };
    let mut states: Vec<(&str, Vec<Prep>)> = vec![
        ("no_delegate", vec![]),
        ("delegated_0", vec![approve(0)]),
        ("delegated_1", vec![approve(1)]),
        ("delegated_2", vec![approve(2)]),
        ("delegated_max", vec![approve(u64::MAX)]),
        ("revoked", vec![approve(1), Prep::Revoke { acct: pta_key, owner: o.key }]),
        ("moved", vec![mv.clone()]),
        ("moved_then_delegated_1", vec![mv.clone(), Prep::Approve { acct: nta, owner: n.key, delegate: d.key, amount: 1 }]),
        ("delegated_1_then_moved", vec![approve(1), mv.clone()]),
    ];
    if p.locked.is_none() {
        states.push(("moved_then_old_account_delegated_1", vec![mv.clone(), approve(1)]));
    }
    let ptas = [("own_account", pta_key), ("new_owner_account", nta), ("attacker_zero_balance", empty), ("forged", forged), ("attacker_other_position", row.twin[0].1)];
    let mut signers: Vec<(String, Pubkey, Option<&Actor>)> =
        vec![("owner".into(), o.key, Some(o)), ("delegate".into(), d.key, Some(d)), ("attacker".into(), a.key, Some(a)), ("new_owner".into(), n.key, Some(n))];
    for (rname, k) in &w.roles {
        if signers.iter().any(|s| s.1 == *k) || happy.accounts.iter().any(|m| m.pubkey == *k) {
            continue;
        }
        signers.push((rname.to_string(), *k, None));
    }
    let mut out = vec![];
    for (sname, preps) in &states {
        if let Some(f) = only {
            if !f.starts_with(&format!("product:{sname}/")) {
                continue;
            }
        }
        let mut l = pre.clone();
        let mut all = preps.clone();
        all.push(Prep::EmptyAccount { key: empty, mint: p.mint, owner: a.key });
        all.push(Prep::Forge { key: forged, mint: p.mint, owner: a.key, program: fake_token_programs()[1].1 });
        if let Err(m) = try_preps(&mut l, &all) {
            out.push(VRes {
                label: format!("product:{sname}/*"),
                class: "product_unauthorised",
                expect: Expect::Fail,
                outcome: format!("prep_failed: {m}"),
                ok: false,
                violation: None,
                pinocchio: false,
                prep_failed: true,
            });
            continue;
        }
        for (pname, pk) in &ptas {
            let view = token_view(&l, pk);
            for (gname, gk, actor) in &signers {
                for signed in [true, false] {
                    let label = format!("product:{sname}/{pname}/{gname}/{}", if signed { "signed" } else { "unsigned" });
                    if let Some(f) = only {
                        if f != label {
                            continue;
                        }
                    }
                    let (auth_owner, auth_delegate) = match view {
                        Some((mint, owner, amount, delegate, damount)) if signed && mint == p.mint && amount == 1 => (*gk == owner, *gk != owner && delegate == Some(*gk) && damount == 1),
                        _ => (false, false),
                    };
                    let (expect, class) = if auth_owner {
                        (Expect::Succeed, "product_holder")
                    } else if auth_delegate {
                        (if p.delegate_ok { Expect::Succeed } else { Expect::Any }, "product_delegate1")
                    } else {
                        (Expect::Fail, "product_unauthorised")
                    };
                    let mut i = happy.clone();
                    set_auth(&mut i, row.auth, *gk, signed);
                    if let (Some(from), Some(x)) = (row.wallet, actor) {
                        rebind(&mut i, from, [x.a, x.b, x.r]);
                    }
                    i.accounts[p.pta].pubkey = *pk;
                    out.push(exec_variant(&l, &Variant { label, class, prep: vec![], ix: i, expect }));
                }
            }
        }
    }
    out
}

fn exec_row(w: &World, row: &Row, with_product: bool) -> RowRes {
    let pre = row_pre(w, row);
    let mut l = pre.clone();
    let o = svm::process(&mut l, &row.ix);
    let happy_ok = o.ok();
    let mut vres = vec![];
    if happy_ok {
        for v in variants(w, row) {
            vres.push(exec_variant(&pre, &v));
        }
        if with_product {
            vres.extend(product(w, row, &pre, None));
        }
    } else {
        // no happy-path twin (vacuity failure, exit 2) — but an unauthorised variant that SUCCEEDS is still a violation
        for v in variants(w, row).into_iter().filter(|v| v.expect == Expect::Fail) {
            vres.push(exec_variant(&pre, &v));
        }
    }
    RowRes { name: row.name, label: row.label.clone(), happy: short(&o), happy_ok, pinocchio: o.pinocchio_path, vres }
}

/// migrate_repurpose_reward_authority_space has no authority: show what an unsigned caller can change.
fn migrate_check(w: &World) -> Result<(), String> {
    use crate::decode::pool_off as po;
    let pool = w.std.pool.addr;
    let mut l = w.l.clone();
    let ext = |i: usize| po::REWARDS + i * po::REWARD_LEN + 64;
    // a pre-migration account: reward_infos[1..=2].extension hold (old) authorities
    l.patch(&pool, |d| {
        for i in [1usize, 2] {
            for b in &mut d[ext(i)..ext(i) + 32] {
                *b = 0xAB;
            }
        }
    });
    let before = l.data(&pool).to_vec();
    let o = svm::process(&mut l, &cw::ix_migrate(pool));
    if !o.ok() {
        return Err(format!("migrate on a pre-migration account failed: {}", o.short()));
    }
    let after = l.data(&pool).to_vec();
    for (i, (x, y)) in before.iter().zip(after.iter()).enumerate() {
        let allowed = (ext(1)..ext(1) + 32).contains(&i) || (ext(2)..ext(2) + 32).contains(&i);
        if x != y && !allowed {
            return Err(format!("migrate (no signer) changed whirlpool byte {i} outside reward_infos[1..=2].extension"));
        }
    }
    // a second call must fail (already migrated)
    let mut l2 = l.clone();
    if svm::process(&mut l2, &cw::ix_migrate(pool)).ok() {
        return Err("migrate succeeded twice".into());
    }
    Ok(())
}

/// Redirects fd 1 to /dev/null while alive (solana-pubkey's off-chain `Pubkey::log` is a println!).
struct Quiet {
    saved: i32,
}
extern "C" {
    fn dup(fd: i32) -> i32;
    fn dup2(a: i32, b: i32) -> i32;
    fn close(fd: i32) -> i32;
}
impl Quiet {
    fn new() -> Option<Quiet> {
        use std::io::Write;
        use std::os::unix::io::AsRawFd;
        let _ = std::io::stdout().flush();
        let null = std::fs::OpenOptions::new().write(true).open("/dev/null").ok()?;
        unsafe {
            let saved = dup(1);
            if saved < 0 {
                return None;
            }
            dup2(null.as_raw_fd(), 1);
            Some(Quiet { saved })
        }
    }
}
impl Drop for Quiet {
    fn drop(&mut self) {
        use std::io::Write;
        let _ = std::io::stdout().flush();
        unsafe {
            dup2(self.saved, 1);
            close(self.saved);
        }
    }
}

fn flavors(thorough: bool) -> Vec<Flavor> {
    let _ = thorough; // both pool-mint flavours are cheap enough for the quick tier; thorough adds the full product
    vec![Flavor::Spl, Flavor::T22]
}

pub fn run(ctx: &Ctx) -> Report {
    let mut r = Report::new("C04", "fault_enumeration");
    r.set(
        "rule",
        "one executed variant = (world flavor, instruction row incl. NFT kind and lifecycle state, fault); counted in distinct_nontrivial iff the row's happy-path twin succeeded on the same pre-state and the variant's outcome + ledger equality were observed",
    );
    r.assume("svm-lite faithfully replaces the validator incl. signer/writable privilege checks on CPI (DESIGN §2.1)");
    r.assume("delegate approved on a locked (frozen) position token = approve before lock (state byte thawed around the real Approve)");

    // ---- instruction table vs lib.rs vs compiled dispatcher ----
    let tab = table();
    let mut table_ok = true;
    let mut unclassified: Vec<String> = vec![];
    for t in &tab {
        if anchor_disc(t.name) != *t.disc {
            eprintln!("C04: table entry {} does not match its discriminator", t.name);
            table_ok = false;
        }
        if !dispatched(t.disc) {
            eprintln!("C04: table entry {} is not dispatched by the compiled program", t.name);
            table_ok = false;
        }
    }
    if dispatched(&anchor_disc("c04_no_such_instruction")) {
        eprintln!("C04: dispatcher probe does not distinguish unknown instructions");
        table_ok = false;
    }
    let parsed = match find_lib_rs() {
        Some(src) => lib_rs_instruction_names(&src),
        None => {
            eprintln!("C04: cannot read programs/whirlpool/src/lib.rs (set WPV_REPO)");
            vec![]
        }
    };
    let tabnames: BTreeSet<&str> = tab.iter().map(|t| t.name).collect();
    for n in &parsed {
        if !tabnames.contains(n.as_str()) {
            unclassified.push(n.clone());
        }
        if !dispatched(&anchor_disc(n)) {
            eprintln!("C04: lib.rs instruction {n} is not dispatched by the compiled program (source/binary mismatch)");
            table_ok = false;
        }
    }
    let parsed_set: BTreeSet<&str> = parsed.iter().map(|s| s.as_str()).collect();
    for t in &tab {
        if !parsed.is_empty() && !parsed_set.contains(t.name) {
            eprintln!("C04: table entry {} is not an instruction of lib.rs", t.name);
            table_ok = false;
        }
    }
    if !unclassified.is_empty() {
        eprintln!("C04: instructions of lib.rs without a row or a not-privileged classification: {unclassified:?}");
        table_ok = false;
    }
    r.set("program_instructions", parsed.len() as u64);
    r.set("privileged_instructions", tab.iter().filter(|t| !matches!(t.class, Class::NotPrivileged(_))).count() as u64);
    r.set("unclassified_instructions", json!(unclassified));
    r.set(
        "not_privileged",
        Value::Object(tab.iter().filter_map(|t| if let Class::NotPrivileged(why) = t.class { Some((t.name.to_string(), json!(why))) } else { None }).collect()),
    );
    r.guard("lib_rs_instructions_parsed", parsed.len() as u64);
    r.guard("instruction_table_complete_and_consistent", table_ok as u64);

    // ---- the matrix ----
    let mut evaluations = 0u64;
    let mut nontrivial = 0u64;
    let mut happy_fail: Vec<String> = vec![];
    let mut prep_failures: Vec<String> = vec![];
    let mut pino_variants = 0u64;
    let mut by_class: BTreeMap<&'static str, u64> = BTreeMap::new();
    let mut success_by_class: BTreeMap<&'static str, u64> = BTreeMap::new();
    let mut per_ix: BTreeMap<&'static str, (u64, u64, BTreeSet<String>)> = BTreeMap::new();
    let mut rows_json = serde_json::Map::new();
    let mut exceptions: BTreeMap<&'static str, (u64, BTreeSet<String>)> = BTreeMap::new();
    let (mut pino_rows, mut anchor_rows, mut locked_rows, mut bundle_rows, mut te_rows) = (0u64, 0u64, 0u64, 0u64, 0u64);
    let mut world_ok = 1u64;
    let mut migrate_ok = 0u64;
    let mut exhaustive = true;
    let with_product = !ctx.tier.is_quick();
    let quiet = Quiet::new(); // Anchor's constraint errors println! the offending pubkeys off-chain
    for f in flavors(!ctx.tier.is_quick()) {
        if ctx.left() < 0.0 {
            exhaustive = false;
            break;
        }
        let built = std::panic::catch_unwind(|| {
            let w = cw::build(f);
            let rs = rows(&w);
            (w, rs)
        });
        let (w, rs) = match built {
            Ok(x) => x,
            Err(e) => {
                let m = e.downcast_ref::<String>().cloned().or_else(|| e.downcast_ref::<&str>().map(|s| s.to_string())).unwrap_or_default();
                eprintln!("C04: world '{}' could not be built on this tree (a happy-path setup instruction failed): {m}", f.name());
                world_ok = 0;
                continue;
            }
        };
        match migrate_check(&w) {
            Ok(()) => migrate_ok += 1,
            Err(d) => r.violation(format!("{}/migrate", f.name()), d, json!({"flavor": f.name(), "row": "migrate", "variant": ""})),
        }
        let res: Vec<Result<RowRes, String>> = rs
            .par_iter()
            .map(|row| {
                std::panic::catch_unwind(std::panic::AssertUnwindSafe(|| exec_row(&w, row, with_product))).map_err(|e| {
                    let m = e.downcast_ref::<String>().cloned().or_else(|| e.downcast_ref::<&str>().map(|s| s.to_string())).unwrap_or_default();
                    format!("{}: {m}", row.label)
                })
            })
            .collect();
        for rr in res {
            let rr = match rr {
                Ok(x) => x,
                Err(m) => {
                    eprintln!("C04: machinery failure in row {m}");
                    world_ok = 0;
                    continue;
                }
            };
            evaluations += 1;
            let full = format!("{}/{}", f.name(), rr.label);
            if !rr.happy_ok {
                happy_fail.push(format!("{full}: {}", rr.happy));
                for v in &rr.vres {
                    evaluations += 1;
                    if let Some(d) = &v.violation {
                        r.violation(format!("{full}/{}", v.label), format!("{full}: {d} [the row's own happy path failed: {}]", rr.happy), json!({"flavor": f.name(), "row": rr.label, "variant": v.label}));
                    }
                }
                continue;
            }
            if rr.pinocchio {
                pino_rows += 1;
            } else {
                anchor_rows += 1;
            }
            if rr.label.contains("/locked]") {
                locked_rows += 1;
            }
            if rr.label.contains("[bundle") || rr.label.contains("bundle]") {
                bundle_rows += 1;
            }
            if rr.label.contains("[te/") {
                te_rows += 1;
            }
            let e = per_ix.entry(rr.name).or_insert((0, 0, BTreeSet::new()));
            e.0 += 1;
            let mut codes: BTreeSet<String> = BTreeSet::new();
            for v in &rr.vres {
                evaluations += 1;
                if v.prep_failed {
                    prep_failures.push(format!("{full}/{}: {}", v.label, v.outcome));
                    continue;
                }
                nontrivial += 1;
                pino_variants += v.pinocchio as u64;
                e.1 += 1;
                *by_class.entry(v.class).or_insert(0) += 1;
                if v.ok {
                    *success_by_class.entry(v.class).or_insert(0) += 1;
                } else {
                    codes.insert(v.outcome.clone());
                    e.2.insert(v.outcome.clone());
                }
                if v.expect == Expect::Any {
                    let x = exceptions.entry(rr.name).or_insert((0, BTreeSet::new()));
                    x.0 += 1;
                    x.1.insert(v.outcome.clone());
                }
                if let Some(d) = &v.violation {
                    r.violation(
                        format!("{full}/{}", v.label),
                        format!("{full}: {d}"),
                        json!({"flavor": f.name(), "row": rr.label, "variant": v.label}),
                    );
                }
                if v.class == "delegate1" || v.class == "forged" || (v.class == "twin" && rr.name == "set_fee_rate") {
                    r.sample(json!({"row": full, "variant": v.label, "expected": format!("{:?}", v.expect), "outcome": v.outcome}));
                }
            }
            rows_json.insert(
                full,
                json!(format!("happy=ok variants={} distinct_failure_codes={:?}", rr.vres.len(), codes.iter().collect::<Vec<_>>())),
            );
        }
    }
    drop(quiet);
    if !happy_fail.is_empty() {
        eprintln!("C04: happy paths that failed (vacuity): {happy_fail:#?}");
    }
    // every privileged instruction must have at least one executed row
    let missing: Vec<&str> = tab.iter().filter(|t| !matches!(t.class, Class::NotPrivileged(_)) && !per_ix.contains_key(t.name)).map(|t| t.name).collect();
    if !missing.is_empty() {
        eprintln!("C04: privileged instructions without an executed row: {missing:?}");
    }
    r.set("evaluations", evaluations);
    r.set("variants_through_pinocchio_dispatch", pino_variants);
    r.set("distinct_nontrivial", nontrivial);
    r.set("exhaustive", exhaustive && happy_fail.is_empty() && prep_failures.is_empty() && world_ok == 1 && missing.is_empty());
    r.set("rows", per_ix.values().map(|x| x.0).sum::<u64>());
    r.set("variants_by_fault_class", json!(by_class));
    r.set("successes_by_fault_class", json!(success_by_class));
    r.set(
        "instructions",
        Value::Object(
            per_ix
                .iter()
                .map(|(k, (rows, vars, codes))| (k.to_string(), json!(format!("rows={rows} variants={vars} failure_codes={:?}", codes.iter().collect::<Vec<_>>()))))
                .collect(),
        ),
    );
    if std::env::var("WPV_C04_ROW_DETAIL").is_ok() {
        r.set("row_detail", Value::Object(rows_json));
    }
    r.set(
        "one_token_delegate_signed_but_instruction_is_owner_only_by_design",
        Value::Object(
            exceptions
                .iter()
                .map(|(k, (n, outs))| (k.to_string(), json!(format!("variants={n} outcomes={:?} — {}", outs.iter().collect::<Vec<_>>(), delegate_exception(k).unwrap_or("")))))
                .collect(),
        ),
    );
    r.set("happy_path_failures", json!(happy_fail));
    r.guard("worlds_built", world_ok);
    r.guard("all_happy_paths_succeeded", happy_fail.is_empty() as u64);
    if !prep_failures.is_empty() {
        eprintln!("C04: variant preparation steps that failed ({}), first: {:?}", prep_failures.len(), &prep_failures[..prep_failures.len().min(3)]);
    }
    r.set("variant_preparation_failures", prep_failures.len() as u64);
    r.guard("all_variant_preparations_succeeded", prep_failures.is_empty() as u64);
    r.guard("every_privileged_instruction_has_a_row", missing.is_empty() as u64);
    r.guard("migrate_permissionless_check", migrate_ok);
    r.guard("pinocchio_rows", pino_rows);
    r.guard("anchor_rows", anchor_rows);
    r.guard("locked_position_rows", locked_rows);
    r.guard("bundle_rows", bundle_rows);
    r.guard("token_extension_nft_rows", te_rows);
    if with_product {
        for c in ["product_holder", "product_delegate1", "product_unauthorised"] {
            r.guard(&format!("variants_{c}"), by_class.get(c).copied().unwrap_or(0));
        }
        for c in ["product_holder", "product_delegate1"] {
            r.guard(&format!("successes_{c}"), success_by_class.get(c).copied().unwrap_or(0));
        }
    }
    for c in ["unsigned", "wrong_key", "wrong_key_unsigned", "delegate1", "delegate_not1", "delegate_unsigned", "owner_after_delegate", "moved_old", "moved_new_owner", "emptied_delegate", "zero_balance", "forged", "twin", "alt_right", "rotated_old", "rotated_new"] {
        r.guard(&format!("variants_{c}"), by_class.get(c).copied().unwrap_or(0));
    }
    for c in ["delegate1", "owner_after_delegate", "moved_new_owner", "alt_right", "rotated_new"] {
        r.guard(&format!("successes_{c}"), success_by_class.get(c).copied().unwrap_or(0));
    }
    r
}

pub fn replay(case: &Value) -> Result<(), String> {
    let _quiet = Quiet::new();
    let f = match case["flavor"].as_str() {
        Some("spl") => Flavor::Spl,
        Some("t22") => Flavor::T22,
        _ => return Err("bad case: flavor".into()),
    };
    let w = cw::build(f);
    let label = case["row"].as_str().ok_or("bad case: row")?;
    if label == "migrate" {
        return migrate_check(&w);
    }
    let rs = rows(&w);
    let row = rs.iter().find(|r| r.label == label).ok_or("unknown row")?;
    let pre = row_pre(&w, row);
    let vl = case["variant"].as_str().ok_or("bad case: variant")?;
    if vl.starts_with("product:") {
        let res = product(&w, row, &pre, Some(vl));
        let v = res.first().ok_or("unknown product variant")?;
        return match &v.violation {
            Some(d) => Err(format!("{}/{}: {d}", f.name(), row.label)),
            None => Ok(()),
        };
    }
    let vs = variants(&w, row);
    let v = vs.iter().find(|v| v.label == vl).ok_or("unknown variant")?;
    match exec_variant(&pre, v).violation {
        Some(d) => Err(format!("{}/{}: {d}", f.name(), row.label)),
        None => Ok(()),
    }
}
